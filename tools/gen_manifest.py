#!/venv/bin/python
"""Regenerates /verif/MANIFEST.json from tools/manifest_src.json (keeps it schema-valid)."""
import json, os, sys
HOME = os.path.dirname(os.path.dirname(os.path.abspath(__file__)))
src = json.load(open(os.path.join(HOME, "tools", "manifest_src.json")))
props = [json.loads(l) for l in open(os.path.join(HOME, "properties.jsonl"))]
checks, na = [], []
for p in props:
    pid = p["id"]
    c = src["checks"].get(pid)
    if c is None or not os.path.exists(os.path.join(HOME, "vfw", "props", pid.lower() + ".py")):
        na.append({"property_id": pid, "reason": src.get("not_applicable", {}).get(pid, "check not built yet in this session (planned, see DESIGN.md section 4)")})
        continue
    checks.append({
        "property_id": pid,
        "quick_cmd": f"./check {pid} --tier quick",
        "thorough_cmd": f"./check {pid} --tier thorough",
        "evidence_file": f"/verif/evidence/{pid}.json",
        "replay_cmd_template": f"./check {pid} --replay {{path}}",
        "engine": "vfw",
        "level_claimed": {"category": c.get("category", "exploration"), "text": c["text"], "design_ref": c.get("design_ref", f"DESIGN.md section 4, {pid}")},
        "level_note": c["note"],
        "technique": c["technique"],
    })
man = {
    "version": 1,
    "setup_cmd": src["setup_cmd"],
    "hooks": src["hooks"],
    "engines": [{"name": "vfw", "path": "/verif/vfw", "serves_properties": [c["property_id"] for c in checks],
                 "kind_free_text": "Hypothesis-driven generated-case search (16-way sharded) with per-property executable oracles, signature-bucketed violations, JSON delta-debugging shrinker and replay files"}],
    "checks": checks,
    "notes": src.get("notes", ""),
    "not_applicable": na,
}
json.dump(man, open(os.path.join(HOME, "MANIFEST.json"), "w"), indent=1)
try:
    import jsonschema
    jsonschema.validate(man, json.load(open("/root/.vp/MANIFEST.schema.json")))
    print("MANIFEST valid;", len(checks), "checks,", len(na), "not_applicable")
except ImportError:
    print("written (jsonschema not importable here)")
