#!/venv/bin/python
"""Maintenance: (re)generate DESIGN.md section 10.7+ from scratch/integration_CXX.json design_notes and seeded/*/ results."""
import glob, json, os, re
HOME = os.path.dirname(os.path.dirname(os.path.abspath(__file__)))
p = os.path.join(HOME, "DESIGN.md")
s = open(p).read()
marker = "\n<!-- BEGIN GENERATED: builder notes and catch matrix -->\n"
if marker in s:
    s = s[:s.index(marker)]
out = [marker, "### 10.7 Properties built by parallel builder sessions (their as-built notes, integrated after review)\n"]
kf = json.load(open(os.path.join(HOME, "known_findings.json")))["findings"]
for f in sorted(glob.glob(os.path.join(HOME, "scratch", "integration_C*.json"))):
    prop = re.search(r"integration_(C\d+)", f).group(1)
    plan = json.load(open(f))
    fixed = [e for e in kf if e["property"] == prop and e["status"] == "fixed"]
    opn = [e for e in kf if e["property"] == prop and e["status"] == "open"]
    commits = sorted({e.get("commit", "?") for e in fixed})
    out.append(f"#### {prop}\n")
    out.append(plan.get("design_notes", "").strip() + "\n")
    out.append(f"\nDisposition at integration: {len(fixed)} signature(s) repaired by `fix:` commit(s) {', '.join(commits) or '-'}; "
               f"{len(opn)} open known finding signature(s)" + (": " + "; ".join('`' + e['signature'] + '`' for e in opn[:12]) + (" …" if len(opn) > 12 else "") if opn else "") + ".\n")
out.append("\n### 10.8 Seeded breaking changes (independent sub-sessions, given only the property text)\n")
out.append("Each change compiles, keeps the unedited 3002-test suite green and has a demonstration that fails with it and passes without it "
           "(all re-confirmed with `tools/seeded.py` in a scratch worktree of /repo HEAD). `first` = quick tier at seeds 1,2 with the check as it "
           "was when the change arrived; `now` = after strengthening where it was missed.\n")
out.append("| id | what the change does | needs | first | now | strengthening |\n|---|---|---|---|---|---|\n")
notes = {}
np_ = os.path.join(HOME, "seeded", "STRENGTHENING.json")
if os.path.exists(np_):
    notes = json.load(open(np_))
for d in sorted(glob.glob(os.path.join(HOME, "seeded", "C*-s*"))):
    sid = os.path.basename(d)
    meta = json.load(open(os.path.join(d, "meta.json")))
    rp = os.path.join(d, "result.json")
    if not os.path.exists(rp):
        continue
    r = json.load(open(rp))
    ear = r.get("earlier_evaluations") or []
    first = ear[0].get("caught") if ear else r.get("caught")
    now = r.get("caught")
    other = r.get("caught_by_other_check")
    cell = lambda v: "caught" if v else ("missed by this check; caught by " + other["check"] if other else "MISSED")
    out.append(f"| {sid} | {meta.get('summary', '')[:230].replace('|', '/')} | {meta.get('needs', '')[:160].replace('|', '/')} | {cell(first)} | {cell(now)} | {notes.get(sid, '-')} |\n")
out.append("\n### 10.9 Genuine defects of the pinned tree: repairs and open findings (from `known_findings.json`)\n")
out.append("Every row was first reported by the registered check on the then-unchanged tree, with the witness kept under `replays/`. "
           "`fixed` rows name the `fix:` commit in /repo (one per root cause; the unedited 3002-test baseline is green after each); their witnesses "
           "are replayed on every run as regressions and suppress nothing. `open` rows are printed as `KNOWN-FINDING:` lines, matched by signature, "
           "and the affected obligation has a restricted-domain twin that runs with no exclusion.\n\n")
import subprocess
def subject(c):
    try:
        return subprocess.run(["git", "-C", "/repo", "log", "-1", "--format=%s", c], capture_output=True, text=True).stdout.strip()
    except Exception:
        return ""
byc = {}
for e in kf:
    if e["status"] == "fixed":
        byc.setdefault((e["property"], e.get("commit", "?")), []).append(e)
out.append("| property | commit | commit subject | signatures repaired |\n|---|---|---|---|\n")
for (prop, c), es in sorted(byc.items()):
    out.append(f"| {prop} | {c} | {subject(c).replace('|', '/')} | {len(es)}: " + "; ".join('`' + e['signature'] + '`' for e in es[:3]) + (" …" if len(es) > 3 else "") + " |\n")
out.append("\nOpen findings (not repaired: no small, safe patch; reasons in the per-property notes above):\n\n")
byp = {}
for e in kf:
    if e["status"] == "open":
        byp.setdefault(e["property"], []).append(e)
for prop, es in sorted(byp.items()):
    out.append(f"* **{prop}** ({len(es)} signature(s)): " + "; ".join('`' + e['signature'] + '` — ' + e.get('what', '')[:160].replace('\n', ' ') for e in es[:4]) + (" …" if len(es) > 4 else "") + "\n")
open(p, "w").write(s + "".join(out))
print("DESIGN.md regenerated tail:", len(out), "blocks")
