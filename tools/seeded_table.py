#!/venv/bin/python
"""Print a one-line-per-change summary of seeded/*/result.json (optionally filtered by a glob)."""
import json, glob, os, sys
pat = sys.argv[1] if len(sys.argv) > 1 else 'C*'
for d in sorted(glob.glob(f'/verif/seeded/{pat}')):
    if not os.path.isdir(d): continue
    r = os.path.join(d, 'result.json')
    if not os.path.exists(r):
        print(os.path.basename(d), 'PENDING'); continue
    j = json.load(open(r))
    runs = {k: v.get('exit') for k, v in j.get('runs', {}).items()}
    st = 'caught' if j.get('caught') else ('caught-by-' + str(j['caught_by_other_check'])[:40] if j.get('caught_by_other_check') else 'MISSED')
    print(os.path.basename(d), st, runs, 'demo' if j.get('demo_confirmed') else 'DEMO-UNCONFIRMED', j.get('baseline_with_patch', '')[:40])
