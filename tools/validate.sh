#!/bin/bash
# validates MANIFEST.json and every evidence file against the schemas (uses the tooling venv's jsonschema)
cd "$(dirname "$0")/.." && python3-vt - <<'PY'
import json, glob, jsonschema, sys
ok = True
try:
    jsonschema.validate(json.load(open("MANIFEST.json")), json.load(open("/root/.vp/MANIFEST.schema.json"))); print("MANIFEST ok")
except Exception as e: ok = False; print("MANIFEST INVALID", str(e)[:500])
es = json.load(open("/root/.vp/EVIDENCE.schema.json"))
for f in sorted(glob.glob("evidence/*.json")):
    try: jsonschema.validate(json.load(open(f)), es); print(f, "ok")
    except Exception as e: ok = False; print(f, "INVALID", str(e)[:500])
sys.exit(0 if ok else 1)
PY
