#!/venv/bin/python
"""Merge scratch/proposed_findings_CXX.json into known_findings.json (maintenance tool, never run by a check).
usage: tools/merge_findings.py CXX [sigprefix=commit ...]   — entries whose signature starts with a given prefix become
status=fixed with that commit (what -> 'fixed: property=.. <commit> ..'); their witness is renamed known-* -> fixed-*."""
import json, os, sys
HOME = os.path.dirname(os.path.dirname(os.path.abspath(__file__)))
prop = sys.argv[1]
fixed = dict(a.split("=", 1) for a in sys.argv[2:])
kf_path = os.path.join(HOME, "known_findings.json")
kf = json.load(open(kf_path))
have = {(e["property"], e["signature"]) for e in kf["findings"]}
for e in json.load(open(os.path.join(HOME, "scratch", f"proposed_findings_{prop}.json")))["findings"]:
    if (e["property"], e["signature"]) in have:
        continue
    commit = next((c for pre, c in fixed.items() if e["signature"].startswith(pre)), None)
    w = e.get("witness")
    if commit:
        e["status"], e["commit"] = "fixed", commit
        e["what"] = f"fixed: property={prop} {commit} " + e["what"]
        if w and os.path.basename(w).startswith("known-"):
            nw = os.path.join(os.path.dirname(w), "fixed-" + os.path.basename(w)[6:])
            if os.path.exists(os.path.join(HOME, w)):
                os.rename(os.path.join(HOME, w), os.path.join(HOME, nw))
            e["witness"] = nw
    else:
        e["status"] = "open"
    kf["findings"].append(e)
    print(e["status"], e["signature"])
json.dump(kf, open(kf_path, "w"), indent=1)
