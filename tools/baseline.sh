#!/bin/bash
# Runs the pinned baseline suite of a tree (default /repo) sequentially and prints pass/fail counts.
T="${1:-/repo}"; OUT="$(mktemp /tmp/baseline.XXXX.xml)"
cd "$T" && /venv/bin/python -m pytest -ra -q -p no:cacheprovider --timeout=900 --continue-on-collection-errors --junitxml="$OUT" >/tmp/baseline.$$.log 2>&1
/venv/bin/python - "$OUT" <<'PY'
import sys, xml.etree.ElementTree as ET
r = ET.parse(sys.argv[1]).getroot()
ts = r if r.tag == "testsuite" else r[0]
print({k: ts.get(k) for k in ("tests", "failures", "errors", "skipped")})
for tc in ts.iter("testcase"):
    if tc.find("failure") is not None or tc.find("error") is not None:
        print("FAILED", tc.get("classname"), tc.get("name"))
PY
rm -f "$OUT" /tmp/baseline.$$.log
