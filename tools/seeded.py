#!/venv/bin/python
"""Evaluate seeded breaking changes (maintenance tool; not part of any registered command).

  tools/seeded.py import <worktree/_seeded dir> <PROP>    copy change_N.diff/demo_N.py/meta_N.json into seeded/<PROP>-sN/
  tools/seeded.py run <seeded/ID> [--seeds 1,2,3] [--tier quick] [--confirm-only]

`run` makes a scratch worktree of /repo HEAD (outside /repo and /verif), confirms the demonstration passes on the clean
tree and fails with the patch, then runs the property's check against the patched worktree (VERIF_REPO) and records
seeded/ID/result.json: caught (exit 1 with a signature that is not a listed known finding) / missed, per seed. The worktree
is removed afterwards. /repo itself is never modified."""
import json, os, shutil, subprocess, sys, time
HOME = os.path.dirname(os.path.dirname(os.path.abspath(__file__)))
WT = os.environ.get("VFW_SEED_WT", "/tmp/vfw-seeded")


def sh(cmd, **k):
    return subprocess.run(cmd, shell=isinstance(cmd, str), capture_output=True, text=True, **k)


def do_import(src, prop):
    n = 0
    for i in (1, 2, 3):
        d = os.path.join(src, f"change_{i}.diff")
        if not os.path.exists(d):
            continue
        k = 1
        while os.path.exists(os.path.join(HOME, "seeded", f"{prop}-s{k}")):
            k += 1
        dst = os.path.join(HOME, "seeded", f"{prop}-s{k}")
        os.makedirs(dst)
        shutil.copy(d, os.path.join(dst, "patch.diff"))
        shutil.copy(os.path.join(src, f"demo_{i}.py"), os.path.join(dst, "demo.py"))
        meta = json.load(open(os.path.join(src, f"meta_{i}.json")))
        meta["property"] = prop
        json.dump(meta, open(os.path.join(dst, "meta.json"), "w"), indent=1)
        print("imported", dst)
        n += 1
    return n


def do_run(sd, seeds, tier, confirm_only, baseline=False):
    sd = os.path.abspath(sd)
    meta = json.load(open(os.path.join(sd, "meta.json")))
    prop = meta["property"]
    head = sh(["git", "-C", "/repo", "rev-parse", "--short", "HEAD"]).stdout.strip()
    sh(["git", "-C", "/repo", "worktree", "remove", "--force", WT])
    r = sh(["git", "-C", "/repo", "worktree", "add", "--detach", "-f", WT, "HEAD"])
    if r.returncode:
        sys.exit(r.stderr)
    res = {"property": prop, "repo_head": head, "checked_at": time.strftime("%Y-%m-%d %H:%M"), "runs": {}}
    try:
        env = dict(os.environ, PYTHONPATH=WT, PYTHONDONTWRITEBYTECODE="1", PYTHONHASHSEED="0")
        clean = sh(["/venv/bin/python", os.path.join(sd, "demo.py")], cwd=WT, env=env, timeout=300)
        ap = sh(["git", "-C", WT, "apply", os.path.join(sd, "patch.diff")])
        if ap.returncode:
            res["error"] = "patch does not apply to HEAD: " + ap.stderr[-400:]
            print(res["error"])
            return res
        dirty = sh(["/venv/bin/python", os.path.join(sd, "demo.py")], cwd=WT, env=env, timeout=300)
        res["demo_clean_exit"], res["demo_patched_exit"] = clean.returncode, dirty.returncode
        res["demo_confirmed"] = clean.returncode == 0 and dirty.returncode != 0
        print(f"{os.path.basename(sd)}: demo clean={clean.returncode} patched={dirty.returncode} ({(dirty.stdout or dirty.stderr).strip()[-160:]!r})")
        if baseline:
            b = sh([os.path.join(HOME, "tools", "baseline.sh"), WT])
            res["baseline_with_patch"] = b.stdout.strip()[-300:]
            print("  baseline with patch:", res["baseline_with_patch"])
        if not confirm_only:
            for seed in seeds:
                t0 = time.time()
                env2 = dict(os.environ, VERIF_REPO=WT, VFW_NO_EVIDENCE="1")
                c = sh([os.path.join(HOME, "check"), prop, "--tier", tier, "--seed", str(seed)], cwd=HOME, env=env2)
                sigs = [l.strip()[10:170] for l in c.stdout.splitlines() if l.strip().startswith("violated:")]
                res["runs"][str(seed)] = {"exit": c.returncode, "wall_s": round(time.time() - t0, 1), "signatures": sigs[:5]}
                print(f"  check {prop} seed={seed}: exit={c.returncode} {res['runs'][str(seed)]['wall_s']}s {sigs[:2]}")
                if c.returncode == 2:
                    print(c.stderr[-800:])
            res["caught"] = all(v["exit"] == 1 for v in res["runs"].values())
    finally:
        sh(["git", "-C", "/repo", "worktree", "remove", "--force", WT])
        for root, _, files in os.walk(os.path.join(HOME, "replays", prop)):
            for f in files:
                if f.startswith("new-"):
                    os.remove(os.path.join(root, f))
    rp = os.path.join(sd, "result.json")
    if os.path.exists(rp):          # keep what earlier evaluations established (baseline run, runs before a check was strengthened)
        old = json.load(open(rp))
        if "baseline_with_patch" in old and "baseline_with_patch" not in res:
            res["baseline_with_patch"] = old["baseline_with_patch"]
        res["earlier_evaluations"] = old.pop("earlier_evaluations", []) + [
            {k: old.get(k) for k in ("checked_at", "repo_head", "runs", "caught") if k in old}]
    json.dump(res, open(rp, "w"), indent=1)
    return res


if __name__ == "__main__":
    if sys.argv[1] == "import":
        do_import(sys.argv[2], sys.argv[3])
    else:
        a = sys.argv[2:]
        seeds = [1, 2, 3]
        tier = "quick"
        if "--seeds" in a:
            seeds = [int(x) for x in a[a.index("--seeds") + 1].split(",")]
        if "--tier" in a:
            tier = a[a.index("--tier") + 1]
        do_run(a[0], seeds, tier, "--confirm-only" in a, "--baseline" in a)
