#!/venv/bin/python
"""Sensitivity runner: applies one-line mutants of the anchored mechanisms to a scratch worktree of
/repo (never to /repo itself), runs the quick check of the property against it (VERIF_REPO) and
records whether it was reported as a VIOLATION.

  tools/mutants.py [--prop C01] [--id M1,M2] [--seeds 1,2,3] [--scale 1.0] [--only OBL]

Mutants live in sensitivity/mutants.json: {id, prop, file, old, new, note, only?}. Results are
merged into sensitivity/kill_matrix.json. Not part of any registered command."""
import argparse, json, os, subprocess, sys, time

HOME = os.path.dirname(os.path.dirname(os.path.abspath(__file__)))
WT = os.environ.get("VFW_MUT_WT", "/tmp/vfw-mut")


def sh(*a, **k):
    return subprocess.run(a, capture_output=True, text=True, **k)


def ensure_wt():
    head = sh("git", "-C", "/repo", "rev-parse", "HEAD").stdout.strip()
    if not os.path.isdir(WT):
        r = sh("git", "-C", "/repo", "worktree", "add", "--detach", "-f", WT, head)
        if r.returncode:
            sys.exit(r.stderr)
    sh("git", "-C", WT, "checkout", "-q", "--detach", head)
    sh("git", "-C", WT, "checkout", "-q", "--", ".")
    # mirror uncommitted working-tree changes of /repo (checks run against the working tree)
    d = sh("git", "-C", "/repo", "diff", "HEAD").stdout
    if d.strip():
        subprocess.run(["git", "-C", WT, "apply"], input=d, text=True)
    return head


def main():
    ap = argparse.ArgumentParser()
    ap.add_argument("--prop"); ap.add_argument("--id"); ap.add_argument("--seeds", default="1")
    ap.add_argument("--scale", default="1.0"); ap.add_argument("--keep", action="store_true")
    args = ap.parse_args()
    import glob
    muts = []
    for f in sorted(glob.glob(os.path.join(HOME, "sensitivity", "mutants*.json"))):
        muts += json.load(open(f))
    if args.prop:
        muts = [m for m in muts if m["prop"] == args.prop]
    if args.id:
        ids = set(args.id.split(","))
        muts = [m for m in muts if m["id"] in ids]
    km_path = os.path.join(HOME, "sensitivity", "kill_matrix.json")
    km = json.load(open(km_path)) if os.path.exists(km_path) else {}
    head = ensure_wt()
    for m in muts:
        sh("git", "-C", WT, "checkout", "-q", "--", ".")
        d = sh("git", "-C", "/repo", "diff", "HEAD").stdout
        if d.strip():
            subprocess.run(["git", "-C", WT, "apply"], input=d, text=True)
        path = os.path.join(WT, m["file"])
        src = open(path).read()
        if src.count(m["old"]) < 1:
            print(f"{m['id']}: pattern not found in {m['file']}"); km[m["id"]] = {"error": "pattern not found"}; continue
        open(path, "w").write(src.replace(m["old"], m["new"], 1))
        res = {}
        for seed in args.seeds.split(","):
            t0 = time.time()
            cmd = [os.path.join(HOME, "check"), m["prop"], "--tier", "quick", "--seed", seed, "--scale", args.scale]
            if m.get("only"):
                cmd += ["--only", m["only"]]
            env = dict(os.environ, VERIF_REPO=WT, VFW_NO_EVIDENCE="1")
            r = subprocess.run(cmd, capture_output=True, text=True, env=env, cwd=HOME)
            sigs = [l.strip() for l in r.stdout.splitlines() if l.strip().startswith("violated:")]
            res[seed] = {"exit": r.returncode, "wall_s": round(time.time() - t0, 1), "signatures": [s[10:110] for s in sigs][:4]}
            print(f"{m['id']} ({m['prop']}) seed={seed}: exit={r.returncode} {res[seed]['wall_s']}s {res[seed]['signatures'][:2]}")
            if r.returncode == 2:
                print(r.stderr[-1500:])
        km[m["id"]] = {"prop": m["prop"], "note": m.get("note", ""), "file": m["file"], "repo_head": head[:7],
                       "killed": all(v["exit"] == 1 for v in res.values()), "runs": res}
    sh("git", "-C", WT, "checkout", "-q", "--", ".")
    json.dump(km, open(km_path, "w"), indent=1, sort_keys=True)
    # remove run-time replay files produced against mutants
    for pr in sorted({m["prop"] for m in muts}):
      for root, _, files in os.walk(os.path.join(HOME, "replays", pr)):
        for f in files:
            if f.startswith("new-"):
                os.remove(os.path.join(root, f))
    if not args.keep:
        sh("git", "-C", "/repo", "worktree", "remove", "--force", WT)


if __name__ == "__main__":
    main()
