#!/venv/bin/python
"""Maintenance tool (never run by a check): integrate a builder's work for one property.
  tools/integrate.py CXX [--no-patches]
Reads scratch/integration_CXX.json:
 {"patches":[{"file","message","fixes_signatures":[prefix..],"tests":"pytest args"}...],   (apply order)
  "manifest":{"text","note","technique","category"}}
For each patch: git apply in /repo, run the named tests, commit ("fix: ..."); then merges scratch/proposed_findings_CXX.json into
known_findings.json (entries whose signature starts with a fixed prefix become status=fixed with that commit), updates
tools/manifest_src.json and regenerates MANIFEST.json."""
import json, os, subprocess, sys
HOME = os.path.dirname(os.path.dirname(os.path.abspath(__file__)))
prop = sys.argv[1]
plan = json.load(open(os.path.join(HOME, "scratch", f"integration_{prop}.json")))
fixed = []
if "--no-patches" not in sys.argv:
    for p in plan.get("patches", []):
        path = os.path.join(HOME, p["file"])
        r = subprocess.run(["git", "-C", "/repo", "apply", "--check", path], capture_output=True, text=True)
        if r.returncode:
            sys.exit(f"patch does not apply: {p['file']}\n{r.stderr}")
        subprocess.run(["git", "-C", "/repo", "apply", path], check=True)
        if p.get("tests"):
            t = subprocess.run(f"cd /repo && /venv/bin/python -m pytest -q -p no:cacheprovider -x -q {p['tests']} 2>&1 | tail -3", shell=True,
                               capture_output=True, text=True)
            print(p["file"], "tests:", t.stdout.strip().splitlines()[-1:] )
            if "failed" in t.stdout or "error" in t.stdout.lower():
                print(t.stdout)
                subprocess.run(["git", "-C", "/repo", "checkout", "--", "."])
                sys.exit("tests failed; patch reverted")
        msg = p["message"]
        assert msg.startswith("fix:"), msg
        subprocess.run(["git", "-C", "/repo", "add", "-A"], check=True)
        subprocess.run(["git", "-C", "/repo", "commit", "-q", "-m", msg], check=True)
        h = subprocess.run(["git", "-C", "/repo", "rev-parse", "--short", "HEAD"], capture_output=True, text=True).stdout.strip()
        print("committed", h, msg.splitlines()[0])
        for s in p.get("fixes_signatures", []):
            fixed.append(f"{s}={h}")
if os.path.exists(os.path.join(HOME, "scratch", f"proposed_findings_{prop}.json")):
    subprocess.run([os.path.join(HOME, "tools", "merge_findings.py"), prop] + fixed, check=True)
src_p = os.path.join(HOME, "tools", "manifest_src.json")
src = json.load(open(src_p))
src["checks"][prop] = plan["manifest"]
json.dump(src, open(src_p, "w"), indent=1)
subprocess.run([os.path.join(HOME, "tools", "gen_manifest.py")], check=True)
