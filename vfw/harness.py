"""Shared harness building blocks used by the per-property modules.

Everything here lives in the *check process*; nothing is patched in the tree under test except
instance attributes of objects the harness itself created (one heap's ``push``) and the module
attribute ``random`` of protocol modules (see ``RandomShim``), both restored after the case.
"""
from __future__ import annotations

import logging
import random as _random
from contextlib import contextmanager

TICK = 1953125            # 1/512 s in ns: exact both as float seconds and as integer ns


def ticks(n) -> float:
    """n ticks as float seconds (exact)."""
    return n / 512


class SpinAbort(Exception):
    """Raised by the probe when more than ``max_per_instant`` events are processed at one clock value."""


class BudgetAbort(Exception):
    """Raised by the probe when the total event budget is exhausted (inconclusive, not a verdict)."""


class _TT(logging.Handler):
    def __init__(self):
        super().__init__(level=logging.WARNING)
        self.records = []

    def emit(self, record):
        try:
            msg = record.getMessage()
        except Exception:  # noqa: BLE001
            return
        if "Time travel" in msg:
            self.records.append(msg[:300])


class SimProbe:
    """Observes one Simulation through its public control surface.

    * ``deliveries``: list of (time_ns, event_type, target_name) for every processed event
      (set ``log=False`` to skip building it);
    * spin guard: > ``max_per_instant`` processed events at one clock value -> ``spin_at`` set, run aborted;
    * total budget: > ``max_events`` -> ``budget_hit`` set, run aborted;
    * heap-push monitor (``monitor_pushes=True``): ``past_pushes`` lists (now_ns, event_time_ns, type, target)
      for every push made while running whose timestamp is earlier than the clock;
    * "Time travel detected" warnings of the engine are captured in ``time_travel``;
    * ``on_event(event)`` / ``on_advance(instant)`` user callbacks (called after each processed event /
      before the first event of a new instant, i.e. at the end of the previous instant).
    """

    def __init__(self, sim, max_per_instant=20000, max_events=400000, log=True, monitor_pushes=False,
                 on_event=None, on_advance=None):
        self.sim = sim
        self.deliveries = []
        self.spin_at = None
        self.budget_hit = False
        self.past_pushes = []
        self.time_travel = []
        self.n = 0
        self._at = None
        self._count_at = 0
        self._max_i = max_per_instant
        self._max_n = max_events
        self._log = log
        self._user_event = on_event
        self._user_adv = on_advance
        ctl = sim.control
        ctl.on_event(self._on_event)
        if on_advance is not None:
            ctl.on_time_advance(on_advance)
        if monitor_pushes:
            heap = sim._event_heap
            orig = heap.push
            clock = sim._clock

            def push(events, _orig=orig):
                if sim._is_running:
                    now = clock.now.nanoseconds
                    for e in (events if isinstance(events, list) else [events]):
                        if e.time.nanoseconds < now:
                            self.past_pushes.append((now, e.time.nanoseconds, e.event_type,
                                                     getattr(e.target, "name", type(e.target).__name__)))
                return _orig(events)
            heap.push = push

    def _on_event(self, event):
        self.n += 1
        t = event.time.nanoseconds
        if self._log:
            self.deliveries.append((t, event.event_type, getattr(event.target, "name", type(event.target).__name__)))
        if t == self._at:
            self._count_at += 1
            if self._count_at > self._max_i:
                self.spin_at = t
                raise SpinAbort(f"{self._count_at} events at t={t}ns")
        else:
            self._at, self._count_at = t, 1
        if self.n > self._max_n:
            self.budget_hit = True
            raise BudgetAbort(f"{self.n} events")
        if self._user_event is not None:
            self._user_event(event)

    def run(self):
        """Run to completion (or to an abort). Returns 'done' | 'spin' | 'budget'."""
        lg = logging.getLogger("happysimulator.core.simulation")
        h = _TT()
        old_prop = lg.propagate
        lg.addHandler(h)
        lg.propagate = False
        try:
            self.summary = self.sim.run()
            return "done"
        except SpinAbort:
            return "spin"
        except BudgetAbort:
            return "budget"
        finally:
            lg.removeHandler(h)
            lg.propagate = old_prop
            self.time_travel = h.records


class RandomShim:
    """Stands in for the ``random`` module inside protocol modules: every draw comes from a PRNG seeded
    by the case (plus an optional explicit script of unit-interval floats consumed first), so a run is a
    pure function of the case. Supports the subset of the ``random`` API used by the tree."""

    def __init__(self, seed, script=None):
        self._r = _random.Random(seed)
        self._script = list(script or [])
        self.draws = 0

    def random(self):
        self.draws += 1
        if self._script:
            return min(max(float(self._script.pop(0)), 0.0), 0.999999999)
        return self._r.random()

    def uniform(self, a, b):
        return a + (b - a) * self.random()

    def randint(self, a, b):
        return a + int(self.random() * (b - a + 1))

    def randrange(self, *a):
        r = range(*a)
        return r[int(self.random() * len(r))]

    def choice(self, seq):
        return seq[int(self.random() * len(seq))]

    def shuffle(self, x):
        for i in reversed(range(1, len(x))):
            j = int(self.random() * (i + 1))
            x[i], x[j] = x[j], x[i]

    def sample(self, pop, k):
        pop = list(pop)
        self.shuffle(pop)
        return pop[:k]

    def choices(self, population, weights=None, k=1):
        return self._r.choices(population, weights=weights, k=k)

    def expovariate(self, lambd):
        import math
        return -math.log(1.0 - self.random()) / lambd

    def gauss(self, mu, sigma):
        return self._r.gauss(mu, sigma)

    normalvariate = gauss

    def seed(self, *a, **k):
        pass

    def __getattr__(self, name):   # anything else: the seeded PRNG's method
        return getattr(self._r, name)


@contextmanager
def patched_random(shim, *modules):
    """Replace the attribute ``random`` of the given (already imported) modules by ``shim``."""
    saved = []
    for m in modules:
        if hasattr(m, "random"):
            saved.append((m, m.random))
            m.random = shim
    try:
        yield shim
    finally:
        for m, old in saved:
            m.random = old


def seed_globals(seed):
    """'The same seeds': module-level RNGs are seeded from the case at the top of every execution."""
    _random.seed(seed)
    try:
        import numpy
        numpy.random.seed(seed % (2**32))
    except Exception:  # noqa: BLE001
        pass


def scripted_latency(delays_s, default_s, seed=0):
    """A LatencyDistribution whose samples come from ``delays_s`` (float seconds), then from a PRNG choice
    over the same list (or ``default_s``). Built lazily so importing this module does not import the tree."""
    from happysimulator.distributions.latency_distribution import LatencyDistribution
    from happysimulator.core.temporal import Duration

    class Scripted(LatencyDistribution):
        def __init__(self):
            super().__init__(default_s)
            self._q = list(delays_s)
            self._pool = list(delays_s) or [default_s]
            self._r = _random.Random(seed)
            self.served = []

        def get_latency(self, current_time=None):
            d = self._q.pop(0) if self._q else self._r.choice(self._pool)
            d += self._mean_latency - default_s     # honours `dist + extra` (used by InjectLatency)
            self.served.append(d)
            return Duration.from_seconds(max(d, 0.0))

    return Scripted()
