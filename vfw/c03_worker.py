"""C03 worker: runs a list of catalogue scenarios in *this* interpreter and prints one JSON line per run.

Started by ``vfw/props/c03.py`` as ``/venv/bin/python -m vfw.c03_worker`` with a chosen ``PYTHONHASHSEED``.
Job description on stdin (JSON):

    {"runs": [{"slot": int, "tag": str, "case": {...}}, ...],   # executed in this order
     "preamble": [case, ...],                                   # unrelated scenarios run first (not reported)
     "alloc": int}                                               # throw-away allocations kept alive during the runs

Environment ``C03_SLEEP=1``: sleep a few ms between scenarios and 1 ms every 20 deliveries (inside the
public ``control.on_event`` hook).  Nothing is monkeypatched: a component that reads the wall clock sees a
different clock, everything else is unaffected.

Per run the line carries: SHA-256 of the delivery log ``(time_ns, event_type, target name)``, SHA-256 of the
canonical JSON of ``Scenario.stats()`` (floats via repr), the number of deliveries, the outcome
(done / spin / budget / exception type) and short prefixes of both for diagnostics.
"""
from __future__ import annotations

import hashlib
import json
import os
import sys
import time


def canon(obj) -> str:
    return json.dumps(obj, sort_keys=True, separators=(",", ":"), default=repr)


def run_one(case, sleep):
    from . import scenarios
    from .harness import SimProbe
    out = {"family": None, "n": 0, "outcome": "done"}
    h = hashlib.sha256()
    head = []
    cnt = [0]

    def on_event(event):
        t = event.time.nanoseconds
        line = f"{t}|{event.event_type}|{getattr(event.target, 'name', type(event.target).__name__)}"
        h.update(line.encode("utf-8", "backslashreplace"))
        h.update(b"\n")
        if len(head) < 200:
            head.append(line)
        cnt[0] += 1
        if sleep and cnt[0] % 20 == 0:
            time.sleep(0.001)

    try:
        sc = scenarios.build(case)
    except Exception as e:  # noqa: BLE001  (reported to the parent, which treats it as a harness error)
        import traceback
        out.update(family=case.get("family"), outcome=f"build-exception:{type(e).__name__}", ddig="", sdig="", dhead=[],
                   stats=traceback.format_exc()[-1500:], later=False)
        return out
    out["family"] = sc.family + (f".{sc.variant}" if getattr(sc, "variant", "") else "")
    out["base_family"] = sc.family
    w = max(1, sc.workload_size)
    probe = SimProbe(sc.sim, max_per_instant=max(20000, 200 * w), max_events=400000, log=False, on_event=on_event)
    try:
        out["outcome"] = probe.run()
    except Exception as e:  # noqa: BLE001  (a crash of the model is compared like any other outcome)
        out["outcome"] = f"exception:{type(e).__name__}"
    out["n"] = probe.n
    out["later"] = bool(head) and any(l.split("|", 1)[0] != head[0].split("|", 1)[0] for l in head[1:])
    h.update(out["outcome"].encode())
    out["ddig"] = h.hexdigest()
    out["dhead"] = head
    try:
        st = canon(sc.stats())
    except Exception as e:  # noqa: BLE001
        st = canon({"stats-error": type(e).__name__})
    out["sdig"] = hashlib.sha256(st.encode("utf-8", "backslashreplace")).hexdigest()
    out["stats"] = st if len(st) <= 20000 else st[:20000]
    return out


def main():
    job = json.load(sys.stdin)
    sleep = os.environ.get("C03_SLEEP") == "1"
    junk = []
    for i in range(int(job.get("alloc", 0))):
        junk.append({"k%d" % i: [i, str(i)]} if i % 3 == 0 else (object() if i % 3 == 1 else "s%d" % i))
    for case in job.get("preamble", []):
        try:
            run_one(case, False)
        except Exception:  # noqa: BLE001
            pass
    for r in job["runs"]:
        if sleep:
            time.sleep(0.003)
        res = run_one(r["case"], sleep)
        res["slot"], res["tag"] = r["slot"], r["tag"]
        sys.stdout.write(json.dumps(res) + "\n")
        sys.stdout.flush()
    del junk


if __name__ == "__main__":
    main()
