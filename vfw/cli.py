"""./check <Cxx> [--tier quick|thorough] [--replay FILE] [--seed N] [--jobs N] [--only OBL]"""
from __future__ import annotations

import argparse
import json
import math
import multiprocessing as mp
import os
import re
import sys
import time
from collections import Counter
from concurrent.futures import ProcessPoolExecutor

from . import runner
from .runner import HOME, REPO, HarnessError, canon, case_hash

LEVELS = {}  # property -> evidence level, filled from MANIFEST when present


def _level(prop_id):
    try:
        man = json.load(open(os.path.join(HOME, "MANIFEST.json")))
        for c in man.get("checks", []):
            if c["property_id"] == prop_id:
                return c["level_claimed"]["category"]
    except Exception:  # noqa: BLE001
        pass
    return "exploration"


def load_known(prop_id):
    p = os.path.join(HOME, "known_findings.json")
    if not os.path.exists(p):
        return []
    data = json.load(open(p))
    found = [e for e in data.get("findings", []) if e["property"] == prop_id]
    extra = os.environ.get("VFW_EXTRA_KNOWN")      # development aid only: never set by a registered command
    if extra and os.path.exists(extra):
        found += [e for e in json.load(open(extra)).get("findings", []) if e["property"] == prop_id]
    return found


def sig_matches(pattern: str, sig: str) -> bool:
    if pattern.endswith("*"):
        return sig.startswith(pattern[:-1])
    return pattern == sig


def slug(s):
    return re.sub(r"[^A-Za-z0-9]+", "-", s).strip("-")[:80]


def assert_tree():
    import happysimulator
    f = os.path.realpath(happysimulator.__file__)
    if not f.startswith(REPO + os.sep):
        print(f"harness error: happysimulator imported from {f}, expected under {REPO}", file=sys.stderr)
        sys.exit(2)


def replay_file(prop_id, path, obls, quiet=False):
    data = json.load(open(path))
    oname = data["obligation"]
    obl = next((o for o in obls if o.name == oname), None)
    if obl is None:
        raise HarnessError(f"replay {path}: unknown obligation {oname}")
    res = runner.safe_execute(prop_id, obl, data["case"], 120.0)
    sigs = {v.sig: v.detail for v in res.violations}
    if not quiet:
        print(f"replay {path}: obligation={oname} signatures={sorted(sigs)}")
        for s, d in sigs.items():
            print(f"  {s}: {d}")
    return sigs


def _replay_task(args):
    """(prop_id, path) -> (path, {sig: detail}) ; runs in a worker process."""
    prop_id, path = args
    try:
        return path, replay_file(prop_id, path, runner.get_obligations(prop_id), quiet=True), None
    except HarnessError as e:
        return path, {}, str(e)


def replay_many(prop_id, paths, jobs):
    """Replay committed witnesses (in parallel when there are several: some replays start interpreters or run long schedules)."""
    paths = list(dict.fromkeys(paths))
    if not paths:
        return {}
    if jobs <= 1 or len(paths) < 3:
        out = [_replay_task((prop_id, p)) for p in paths]
    else:
        ctx = mp.get_context("fork")
        with ProcessPoolExecutor(max_workers=min(jobs, len(paths)), mp_context=ctx) as ex:
            out = list(ex.map(_replay_task, [(prop_id, p) for p in paths], chunksize=1))
    for p, sigs, err in out:
        if err:
            raise HarnessError(err)
    return {p: sigs for p, sigs, err in out}


def write_replay(prop_id, oname, sig, case, detail, seed, tier, prefix="new"):
    d = os.path.join(HOME, "replays", prop_id)
    os.makedirs(d, exist_ok=True)
    path = os.path.join(d, f"{prefix}-{slug(sig.split('/', 1)[-1])}-{case_hash(case)}.json")
    with open(path, "w") as f:
        json.dump({"property": prop_id, "obligation": oname, "signature": sig, "seed": seed,
                   "tier": tier, "detail": detail, "case": case}, f, indent=1, sort_keys=True)
    return path


def main(argv=None):
    ap = argparse.ArgumentParser()
    ap.add_argument("prop")
    ap.add_argument("--tier", default=os.environ.get("VERIF_TIER", "quick"), choices=["quick", "thorough"])
    ap.add_argument("--replay")
    ap.add_argument("--seed", type=int, default=None)
    ap.add_argument("--jobs", type=int, default=int(os.environ.get("VFW_JOBS", "16")))
    ap.add_argument("--only", default=None, help="run only obligations whose name contains this")
    ap.add_argument("--scale", type=float, default=float(os.environ.get("VFW_SCALE", "1.0")))
    ap.add_argument("--save-witness", default=None,
                    help="(maintenance) save smallest witness of every signature under replays/ with this prefix")
    args = ap.parse_args(argv)
    prop_id = args.prop.upper()
    seed = args.seed if args.seed is not None else int(os.environ.get("VERIF_SEED", "1") or "1")
    tier = args.tier
    t0 = time.time()
    try:
        assert_tree()
        obls = runner.get_obligations(prop_id)
        if args.replay:
            sigs = replay_file(prop_id, args.replay, obls)
            known = [e for e in load_known(prop_id) if e.get("status") == "open"]
            new = [s for s in sigs if not any(sig_matches(e["signature"], s) for e in known)]
            for s in sigs:
                if s not in new:
                    print(f"KNOWN-FINDING: property={prop_id} {s}")
            if new:
                print(f"VIOLATION property={prop_id} replay={os.path.abspath(args.replay)}")
                return 1
            return 0
        return run_check(prop_id, obls, tier, seed, args, t0)
    except HarnessError as e:
        print(f"HARNESS-ERROR {e}", file=sys.stderr)
        return 2


def run_check(prop_id, obls, tier, seed, args, t0):
    if args.only:
        obls = [o for o in obls if args.only in o.name]
    known_all = load_known(prop_id)
    open_known = [e for e in known_all if e.get("status") == "open"]
    fixed_known = [e for e in known_all if e.get("status") == "fixed"]
    out_lines = []
    violations = []      # (sig, path)
    stale = []

    # ---- replay tier: committed witnesses --------------------------------------------------
    replayed = 0
    active_known = []
    rdir = os.path.join(HOME, "replays", prop_id)
    seeds_files = [os.path.join(rdir, fn) for fn in sorted(os.listdir(rdir))
                   if fn.startswith("seed-") and fn.endswith(".json")] if os.path.isdir(rdir) else []
    wpath = lambda e: os.path.join(HOME, e["witness"]) if e.get("witness") and os.path.exists(os.path.join(HOME, e["witness"])) else None
    todo = [wpath(e) for e in open_known + fixed_known if wpath(e)] + seeds_files
    replays = replay_many(prop_id, todo, args.jobs)
    replayed = len(replays)
    for e in open_known:
        w = wpath(e)
        if w:
            if any(sig_matches(e["signature"], s) for s in replays[w]):
                active_known.append(e)
            else:
                stale.append(e)
                print(f"NOTE: known finding no longer reproduces (not excluded in this run): {e['signature']}")
        else:
            active_known.append(e)
    for w in [wpath(e) for e in fixed_known if wpath(e)] + seeds_files:
        for s_, d_ in replays[w].items():
            if not any(sig_matches(k["signature"], s_) for k in active_known):
                violations.append((s_, w, d_))

    # ---- search tier -----------------------------------------------------------------------
    tasks = []
    for o in obls:
        n = int(math.ceil(o.budget.get(tier, o.budget.get("quick", 100)) * args.scale))
        if n > 0:
            shards = max(1, min(o.max_shards, args.jobs, n // max(1, o.min_cases_per_shard) or 1))
            per = int(math.ceil(n / shards))
            for s in range(shards):
                tasks.append((prop_id, o.name, tier, seed, per, s, "gen"))
        if o.enumerate is not None:
            k = min(args.jobs, 16)
            for s in range(k):
                tasks.append((prop_id, o.name, tier, seed, (s, k), s, "enum"))
    results = []
    try:    # import once in the parent so that forked workers inherit the modules instead of importing them 16 times
        import hypothesis  # noqa: F401
        import hypothesis.strategies  # noqa: F401
        from hypothesis.internal.conjecture import engine as _e  # noqa: F401
    except Exception:  # noqa: BLE001
        pass
    import gc
    gc.collect()
    gc.freeze()      # keep the parent's heap out of the children's collections (avoids copy-on-write page faults after fork)
    if args.jobs <= 1:
        results = [runner.worker(t) for t in tasks]
    else:
        ctx = mp.get_context("fork")
        with ProcessPoolExecutor(max_workers=min(args.jobs, len(tasks)) or 1, mp_context=ctx) as ex:
            results = list(ex.map(runner.worker, tasks, chunksize=1))
    errs = [r["error"] for r in results if r.get("error")]
    if errs:
        print("HARNESS-ERROR in worker:\n" + errs[0], file=sys.stderr)
        return 2

    # ---- aggregate -------------------------------------------------------------------------
    per_obl = {}
    for r in results:
        a = per_obl.setdefault(r["oname"], {"evaluations": 0, "labels": Counter(), "nt": set(), "samples": [],
                                            "nt_samples": [], "viol": {}, "inconclusive": 0, "enumerated": 0})
        a["evaluations"] += r["evaluations"]
        if r["mode"] == "enum":
            a["enumerated"] += r["evaluations"]
        a["labels"].update(r["labels"])
        a.setdefault("counters", Counter()).update(r.get("counters", {}))
        a["nt"].update(r["nt"])
        a["inconclusive"] += r["inconclusive"]
        for c in r.get("inconclusive_cases", []):
            write_replay(prop_id, r["oname"], f"{prop_id}/{r['oname']}/inconclusive-timeout", c, "case hit the per-case time limit", seed, tier,
                         prefix="inconclusive")
        a["samples"] += r["samples"][:1]
        a["nt_samples"] += r["nt_samples"][:1]
        for sig, v in r["viol"].items():
            cur = a["viol"].get(sig)
            if cur is None:
                a["viol"][sig] = dict(v)
            else:
                cur["count"] += v["count"]
                if v["size"] < cur["size"]:
                    cur.update(case=v["case"], size=v["size"], detail=v["detail"])

    excluded = Counter()
    obl_by_name = {o.name: o for o in obls}
    shrink_cap = 20.0 if tier == "quick" else 90.0
    new_sigs = 0
    for oname, a in per_obl.items():
        for sig, v in sorted(a["viol"].items()):
            k = next((e for e in active_known if sig_matches(e["signature"], sig)), None)
            if k is not None:
                excluded[k["signature"]] += v["count"]
                if args.save_witness:
                    small, detail = runner.shrink(prop_id, obl_by_name[oname], v["case"], sig, shrink_cap)
                    write_replay(prop_id, oname, sig, small, detail, seed, tier, prefix=args.save_witness)
                continue
            new_sigs += 1
            if new_sigs <= 6:
                small, detail = runner.shrink(prop_id, obl_by_name[oname], v["case"], sig, shrink_cap)
            else:
                small, detail = v["case"], v["detail"]
            path = write_replay(prop_id, oname, sig, small, detail or v["detail"], seed, tier,
                                prefix=args.save_witness or "new")
            violations.append((sig, path, detail or v["detail"]))

    for e in active_known:
        print(f"KNOWN-FINDING: property={prop_id} {e['signature']} {e.get('what', '')} "
              f"(hit {excluded.get(e['signature'], 0)}x in this run; witness {e.get('witness')})")

    total_eval = sum(a["evaluations"] for a in per_obl.values()) + replayed
    total_nt = sum(len(a["nt"]) for a in per_obl.values())
    total_inconc = sum(a["inconclusive"] for a in per_obl.values())
    samples = []
    for oname, a in per_obl.items():
        for c in (a["nt_samples"][:2] + a["samples"][:1])[:2]:
            s = canon(c)
            samples.append({"obligation": oname, "case": c if len(s) < 4000 else s[:4000] + "...(truncated)"})
    labels = {o: dict(a["labels"].most_common(260)) for o, a in per_obl.items()}
    evidence = {
        "property_id": prop_id,
        "tier": tier,
        "seed": seed,
        "level": _level(prop_id),
        "coverage": {
            "evaluations": total_eval,
            "distinct_nontrivial": total_nt,
            "rule": " || ".join(f"[{o.name}] {o.rule}" for o in obls),
            "samples": samples[:12],
            "per_obligation": {o: {"evaluations": a["evaluations"], "distinct_nontrivial": len(a["nt"]),
                                "enumerated_subspace": a["enumerated"], "inconclusive": a["inconclusive"],
                                "signatures": {s: v["count"] for s, v in a["viol"].items()}}
                            for o, a in per_obl.items()},
            "classes": labels,
            "counters": {o: dict(a.get("counters", {})) for o, a in per_obl.items() if a.get("counters")},
            "excluded_known": dict(excluded),
            "stale_known": [e["signature"] for e in stale],
            "witnesses_replayed": replayed,
            "inconclusive": total_inconc,
            "exhaustive": False,
        },
        "assumptions": list(getattr(runner._load(prop_id), "ASSUMPTIONS", [])),
        "wall_s": round(time.time() - t0, 2),
        "violations": len(violations),
    }
    os.makedirs(os.path.join(HOME, "evidence"), exist_ok=True)
    if not args.only and not os.environ.get("VFW_NO_EVIDENCE"):
        with open(os.path.join(HOME, "evidence", f"{prop_id}.json"), "w") as f:
            json.dump(evidence, f, indent=1, sort_keys=True, default=str)

    print(f"{prop_id} tier={tier} seed={seed}: {total_eval} cases, {total_nt} distinct non-trivial, "
          f"{total_inconc} inconclusive, {len(violations)} violation signature(s), "
          f"{sum(excluded.values())} known-finding hits, {evidence['wall_s']}s")
    for o, a in per_obl.items():
        print(f"  [{o}] eval={a['evaluations']} nt={len(a['nt'])} labels={dict(a['labels'].most_common(8))}")
    if total_eval and total_inconc > max(3, 0.02 * total_eval):
        print(f"HARNESS-ERROR too many inconclusive cases ({total_inconc}/{total_eval})", file=sys.stderr)
        return 2
    if violations:
        for sig, path, detail in violations:
            print(f"  violated: {sig}: {detail}")
        for sig, path, detail in violations:
            print(f"VIOLATION property={prop_id} replay={path}")
        return 1
    return 0


if __name__ == "__main__":
    sys.exit(main())
