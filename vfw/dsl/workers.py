"""Worker-process harness (DESIGN 3.3).

A *workload* is a JSON list of workers ``{"start": ticks, "ops": [...]}``.  Every worker is run as a
generator process inside its own harness ``Entity``; for every op it calls ``op_fn(run, worker, j, op)``
(a generator function that drives the component's generator / future API with ``yield from`` / ``yield``)
and the harness logs ``(worker, op#, start_ns, end_ns, result | documented exception)`` in ``run.oplog``.
Op functions add their own fine-grained records to ``run.trace`` through ``run.ev(kind, **fields)``; every
record gets the current clock value and a global sequence number, so the trace is a total order of what
the workers observed.

The component's internal ``yield``s are the only preemption points, so every interleaving the engine can
produce is reachable by choosing start offsets, hold times and the order of the worker list.

Everything here is harness code in the check process; nothing in the tree under test is patched.
"""
from __future__ import annotations

from ..harness import TICK, SimProbe


def stepwise(gen, after_first):
    """``yield from gen`` that calls ``after_first()`` once ``gen`` has executed its first step
    (i.e. has yielded for the first time or has returned without yielding)."""
    send = None
    first = True
    while True:
        try:
            y = gen.send(send)
        except StopIteration as e:
            if first:
                after_first()
            return e.value
        if first:
            first = False
            after_first()
        send = yield y


class _AllDone(Exception):
    """Raised from the probe hook once every worker has finished (``stop_when_done``)."""


class WorkerRun:
    """Build and run one simulation: ``components`` + one harness entity per worker.

    ``op_fn(run, worker, j, op)`` -> generator performing one op, its return value is the op's result.
    ``documented`` -> exception classes that are normal outcomes of an op (logged as ``{"exc": name}``).
    ``after_event(run)`` is called after every processed event, ``on_advance(run)`` whenever the clock is
    about to move (state = end of the previous instant, no same-instant work pending)."""

    def __init__(self, components, workers, op_fn, documented=(), end_ticks=4000, after_event=None,
                 on_advance=None, max_per_instant=20000, max_events=300000, extra_events=(), stop_when_done=False):
        from happysimulator import Entity, Event, Instant, Simulation

        self.trace = []
        self.oplog = []
        self.op_fn = op_fn
        self.documented = tuple(documented)
        self._seq = 0
        run = self

        class Worker(Entity):
            def __init__(self, i, spec):
                super().__init__(f"w{i}")
                self.i = i
                self.ops = list(spec.get("ops") or [])
                self.done = False
                self.cur = None          # index of the op in progress

            def handle_event(self, event):
                for j, op in enumerate(self.ops):
                    self.cur = j
                    rec = {"w": self.i, "j": j, "start": self.now.nanoseconds, "end": None, "res": None}
                    run.oplog.append(rec)
                    if run.documented:
                        try:
                            res = yield from run.op_fn(run, self, j, op)
                        except run.documented as e:
                            res = {"exc": type(e).__name__}
                    else:
                        res = yield from run.op_fn(run, self, j, op)
                    rec["end"] = self.now.nanoseconds
                    rec["res"] = res
                self.cur = None
                self.done = True

        self.workers = [Worker(i, w) for i, w in enumerate(workers)]
        self.sim = Simulation(entities=list(components) + self.workers, end_time=Instant(int(end_ticks) * TICK))
        self.clock = self.sim._clock
        for wk, spec in zip(self.workers, workers):
            self.sim.schedule(Event(time=Instant(int(spec.get("start", 0)) * TICK), event_type="go", target=wk))
        for ev in extra_events:
            self.sim.schedule(ev)
        def _after(_e):
            if after_event:
                after_event(run)
            if stop_when_done and all(w.done for w in run.workers):
                raise _AllDone()          # housekeeping events of the component (idle timers...) are not waited for

        self.probe = SimProbe(
            self.sim, max_per_instant=max_per_instant, max_events=max_events, log=False,
            on_event=_after if (after_event or stop_when_done) else None,
            on_advance=(lambda t: on_advance(run)) if on_advance else None,
        )
        self.status = None

    # -- observation helpers -----------------------------------------------------------------
    @property
    def t(self):
        return self.clock.now.nanoseconds

    def ev(self, kind, **kw):
        kw["k"] = kind
        kw["t"] = self.t
        kw["seq"] = self._seq
        self._seq += 1
        self.trace.append(kw)
        return kw

    def run(self):
        try:
            self.status = self.probe.run()
        except _AllDone:
            self.status = "done"
        return self.status

    @property
    def all_done(self):
        return all(w.done for w in self.workers)

    def unfinished(self):
        return [(w.i, w.cur) for w in self.workers if not w.done and w.cur is not None]
