"""Worker-process harness + interval oracle for map-like stores (DESIGN 3.3 / 3.4).

A *workload* is a list of workers ``{"start": ticks, "ops": [...]}``.  Every worker is run by its own
harness ``Entity`` as a generator process that calls the component's generator API through a
property-supplied ``do_op(worker_entity, op, rec)`` generator and logs one ``OpRec`` per operation:
``(worker, idx, kind, key, value, start_ns, end_ns, result)``.  Start offsets and gaps come from the
case (tick grid), so operations of different workers overlap in simulated time; the component's own
``yield``s are the only preemption points.

``WorkerHarness.run(stop_after=k)`` abandons the simulation after exactly ``k`` processed events (a
crash kills every in-flight process); operations in flight then keep ``end = None``.

The interval oracle (``IntervalOracle``): a read ``R(k) -> v`` is accepted iff ``v`` is the value of
a write ``w`` on ``k`` (deletes write ABSENT; the initial state is a write that precedes everything)
that is not *definitely after* R and not *definitely superseded* before R:

    before(a, b)  :=  a.end < b.start   or   (same worker and a.idx < b.idx)
    acceptable(w) :=  not before(R, w)  and  not exists w': before(w, w') and before(w', R)

Timestamp ties between different workers are resolved in the permissive direction (tie = concurrent).
Nothing in this module imports the tree at import time.
"""
from __future__ import annotations

from ..harness import TICK, BudgetAbort, SimProbe, SpinAbort

ABSENT = None          # every store API of the tree uses None for "no such key"
INF = float("inf")


class StopAt(Exception):
    """Raised by the harness hook to abandon the run after k processed events."""


class OpRec:
    __slots__ = ("worker", "idx", "kind", "key", "value", "start", "end", "result", "aux", "ctx")

    def __init__(self, worker, idx, kind, key=None, value=None, start=None):
        self.worker, self.idx, self.kind, self.key, self.value = worker, idx, kind, key, value
        self.start, self.end, self.result, self.aux, self.ctx = start, None, None, None, None

    @property
    def done(self):
        return self.end is not None

    def brief(self):
        return f"w{self.worker}#{self.idx} {self.kind}({self.key}{'' if self.value is None else '=' + repr(self.value)}) " \
               f"[{self.start},{self.end}] -> {self.result!r}"

    __repr__ = brief


class Span:
    """A logged internal activity of the component (flush, compaction...) with its interval."""
    __slots__ = ("name", "start", "end", "aux")

    def __init__(self, name, start):
        self.name, self.start, self.end, self.aux = name, start, None, None

    def overlaps(self, rec):
        e = INF if self.end is None else self.end
        re = INF if rec.end is None else rec.end
        return self.start <= re and rec.start <= e


def span_generator(obj, attr, spans, now_ns, name=None):
    """Wrap the *instance attribute* ``obj.attr`` (a generator method of an object the harness created)
    so that every call logs a Span [start, end].  Behaviour is unchanged (pure ``yield from``)."""
    orig = getattr(obj, attr)

    def wrapped(*a, **k):
        s = Span(name or attr, now_ns())
        spans.append(s)
        r = yield from orig(*a, **k)
        s.end = now_ns()
        return r
    setattr(obj, attr, wrapped)


def mark_function(obj, attr, marks, now_ns, name=None):
    """Same for a plain method: logs (name, time) per call."""
    orig = getattr(obj, attr)

    def wrapped(*a, **k):
        marks.append((name or attr, now_ns()))
        return orig(*a, **k)
    setattr(obj, attr, wrapped)


_WORKER = []


def _worker_class():
    """The harness Entity running one worker's script (defined once, lazily: importing this module must not import the tree)."""
    if _WORKER:
        return _WORKER[0]
    from happysimulator import Entity

    class Worker(Entity):
        def __init__(self, wid, ops, harness, do_op, gap_of):
            super().__init__(f"worker{wid}")
            self.wid, self.script = wid, ops
            self.finished = False
            self._h, self._do_op, self._gap_of = harness, do_op, gap_of

        def handle_event(self, event):
            do_op, gap_of, log = self._do_op, self._gap_of, self._h.ops
            for idx, op in enumerate(self.script):
                g = gap_of(op)
                if g > 0:
                    yield g / 512
                rec = OpRec(self.wid, idx, "?", start=self.now.nanoseconds)
                log.append(rec)
                rec.result = yield from do_op(self, op, rec)
                rec.end = self.now.nanoseconds
            self.finished = True

    _WORKER.append(Worker)
    return Worker


class WorkerHarness:
    """Builds one Simulation of ``entities`` plus one worker entity per workload worker.

    ``do_op(worker_entity, op, rec)`` is a generator; it fills ``rec.kind/key/value`` and returns the
    operation's result.  ``op_gap(op)`` gives the idle ticks before the operation (0 = same instant).
    """

    def __init__(self, entities, workers, do_op, op_gap=None, setup=None, max_events=200_000, max_per_instant=20_000,
                 after_event=None, start_ns=0):
        from happysimulator import Event, Instant, Simulation

        self.ops = []           # OpRec in order of operation start (global execution order)
        self.n_events = 0
        self.status = None
        self._stop_after = None
        self._after_event = after_event      # optional sampler called after every processed event (before a stop)
        harness = self
        gap_of = op_gap or (lambda op: 0)

        Worker = _worker_class()
        self.workers = [Worker(i, list(w.get("ops") or []), harness, do_op, gap_of) for i, w in enumerate(workers)]
        # start_ns > 0: a later "epoch" on entities that already lived through an earlier (abandoned) simulation
        self.sim = Simulation(start_time=Instant(int(start_ns)), entities=list(entities) + self.workers)
        if setup is not None:
            setup(self.sim)
        for wk, w in zip(self.workers, workers):
            self.sim.schedule(Event(time=Instant(int(start_ns) + abs(int(w.get("start") or 0)) % 4096 * TICK), event_type="go", target=wk))
        self.probe = SimProbe(self.sim, max_per_instant=max_per_instant, max_events=max_events, log=False,
                              on_event=self._on_event)

    def now_ns(self):
        return self.sim._clock.now.nanoseconds

    def _on_event(self, event):
        self.n_events += 1
        if self._after_event is not None:
            self._after_event(self)
        if self._stop_after is not None and self.n_events >= self._stop_after:
            raise StopAt()

    def run(self, stop_after=None):
        """Returns 'done' | 'stopped' | 'spin' | 'budget'.  ``stop_after=0`` runs nothing."""
        self._stop_after = stop_after
        if stop_after is not None and stop_after <= 0:
            self.status = "stopped"
            return self.status
        try:
            self.status = self.probe.run()
        except StopAt:
            self.status = "stopped"
        return self.status

    @property
    def all_finished(self):
        return all(w.finished for w in self.workers)


# ----------------------------------------------------------------------------------- interval oracle
class _W:
    __slots__ = ("worker", "idx", "start", "end", "value", "rec")

    def __init__(self, worker, idx, start, end, value, rec=None):
        self.worker, self.idx, self.start, self.end, self.value, self.rec = worker, idx, start, end, value, rec


def before(a, b):
    """a definitely completed before b began."""
    if a.worker is not None and a.worker == b.worker:
        return a.idx < b.idx
    ae = INF if a.end is None else a.end
    return ae < b.start


class IntervalOracle:
    """Per-key write histories with intervals; judges reads by the rule in the module docstring."""

    def __init__(self, initial=None):
        self.writes = {}     # key -> list[_W]
        self.initial = dict(initial or {})

    def _hist(self, key):
        h = self.writes.get(key)
        if h is None:
            # the initial state precedes every operation
            h = self.writes[key] = [_W(None, -1, -INF, -INF, self.initial.get(key, ABSENT))]
        return h

    def add_preload(self, key, value, seq):
        """a write applied synchronously before the run (in sequence ``seq``): precedes every operation, ordered among preloads"""
        self._hist(key).append(_W("preload", seq, -INF, -INF, value))

    def add_write(self, key, value, rec):
        self._hist(key).append(_W(rec.worker, rec.idx, rec.start, rec.end, value, rec))

    def acceptable(self, key, r):
        """Writes whose value a read with interval ``r`` (anything with worker/idx/start/end) may return."""
        hist = self._hist(key)
        cand = [w for w in hist if not before(r, w)]
        prior = [w for w in cand if before(w, r)]
        out = []
        for w in cand:
            if any(w2 is not w and before(w, w2) for w2 in prior):
                continue
            out.append(w)
        return out

    def judge(self, key, r, got):
        """None if ``got`` is acceptable, else (clause, detail) with a root-cause-level clause:
        invented-value | read-misses-key | deleted-key-resurrected | stale-value."""
        acc = self.acceptable(key, r)
        if any(w.value == got for w in acc):
            return None
        hist = self._hist(key)
        exp = sorted({repr(w.value) for w in acc})
        if got is ABSENT:
            return ("read-misses-key", f"key {key}: got absent, acceptable {exp}")
        src = [w for w in hist if w.value == got]
        if not src:
            return ("invented-value", f"key {key}: got {got!r}, never written to this key; acceptable {exp}")
        if any(before(r, w) for w in src) and not any(not before(r, w) for w in src):
            return ("value-from-the-future", f"key {key}: got {got!r}, written only after the read ended")
        for s in src:
            for d in hist:
                if d.value is ABSENT and d.rec is not None and before(s, d) and before(d, r):
                    return ("deleted-key-resurrected",
                            f"key {key}: got {got!r} although delete {d.rec.brief()} completed before the read began; acceptable {exp}")
        return ("stale-value", f"key {key}: got {got!r}, definitely overwritten before the read began; acceptable {exp}")


class FinalRead:
    """Pseudo-read issued after everything has stopped (every completed op is before it)."""
    worker, idx = None, -1
    start = end = INF

    def __init__(self, at=None):
        if at is not None:
            self.start = self.end = at


def judge_scan(oracle, keys_in_range, r, result):
    """``result`` is the list of (key, value) a scan returned; judged key by key (missing = ABSENT) and
    for order/uniqueness/range.  Returns list of (clause, detail, key-or-None)."""
    out = []
    try:
        ks = [kv[0] for kv in result]
        vs = {kv[0]: kv[1] for kv in result}
    except Exception:  # noqa: BLE001
        return [("scan-malformed", repr(result)[:200], None)]
    if any(a >= b for a, b in zip(ks, ks[1:])):
        out.append(("scan-not-strictly-sorted", f"keys {ks}", None))
    extra = [k for k in ks if k not in keys_in_range]
    if extra:
        out.append(("scan-key-outside-range", f"{extra} not in requested range", None))
    for k in keys_in_range:
        j = oracle.judge(k, r, vs.get(k, ABSENT))
        if j:
            out.append((j[0], j[1], k))
    return out
