"""Helpers shared by the real executor and the reference interpreter (pure data access)."""
NOOP = {"imm": [], "shape": "none"}


def beh_of(prog, ent, kind):
    """handlers[ent][kind] is either a behaviour dict or an index into the pool prog["behs"]."""
    hs = prog.get("handlers") or []
    if not hs:
        return NOOP
    row = hs[ent % len(hs)]
    if not row:
        return NOOP
    b = row[kind % len(row)]
    if isinstance(b, int):
        pool = prog.get("behs") or []
        if not pool:
            return NOOP
        return pool[b % len(pool)]
    return b
