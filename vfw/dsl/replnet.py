"""Scripted replication network for C17.

Everything here lives in the check process.  A *scripted network* is a real
``Network`` whose real ``NetworkLink``s carry a ``LatencyDistribution`` subclass that serves
per-message delays (in ticks of 1/512 s) from the generated case, so that two replication
messages for one key overtake each other whenever the case says so.  There is no loss, no
partition and no bandwidth limit.  The peer choice of multi-leader anti-entropy
(``random.choice(self._peers)``) is served by ``PeerShim`` (scripted picks first, then a strict
per-node round-robin so that "anti-entropy has run" means every node has synchronised with every
peer several times).

Observation is through the public control hook only (``SimProbe`` -> ``sim.control.on_event``):
after every processed event the watcher samples the replicas' stores (``KVStore.keys`` /
``get_sync``) and the reply futures (``SimFuture.is_resolved``); nothing in the tree is patched
except the ``random`` attribute of ``replication.multi_leader`` (restored after the case).
"""
from __future__ import annotations

from ..harness import TICK, RandomShim, SimProbe, ticks

DMAX = 16          # largest scripted one-way delay (ticks)
ABSENT = None      # KVStore API: None means "no value"


def _n(x, lo, hi, default=None):
    """Clamp arbitrary JSON to an int in [lo, hi] (executors are total over shrunk cases)."""
    if isinstance(x, bool) or not isinstance(x, (int, float)):
        x = lo if default is None else default
    return max(lo, min(hi, int(x)))


def _lst(x):
    return x if isinstance(x, list) else []


def cyc(lst, i, default):
    lst = _lst(lst)
    return lst[i % len(lst)] if lst else default


# ------------------------------------------------------------------------------ latency
def cycle_latency(delay_ticks, default_ticks=1, calm_after=None, calm_ticks=1):
    """LatencyDistribution serving ``delay_ticks[i % len]`` for the i-th message of the link.
    After ``calm_after`` messages (if given) every message takes ``calm_ticks`` (used for the
    anti-entropy tail phase of the multi-leader runs)."""
    from happysimulator.core.temporal import Duration
    from happysimulator.distributions.latency_distribution import LatencyDistribution

    seq = [_n(d, 0, DMAX) for d in _lst(delay_ticks)]

    class Cycle(LatencyDistribution):
        def __init__(self):
            super().__init__(ticks(default_ticks))
            self.i = 0
            self.calm = False
            self.served = []

        def get_latency(self, current_time=None):
            if self.calm or (calm_after is not None and self.i >= calm_after):
                d = calm_ticks
            else:
                d = seq[self.i % len(seq)] if seq else default_ticks
            self.i += 1
            self.served.append(d)
            return Duration.from_seconds(ticks(d))

    return Cycle()


class Net:
    """Real Network + one real NetworkLink per directed pair, latencies scripted by the case."""

    def __init__(self, delays, default_ticks=1):
        from happysimulator.components.network.network import Network
        self.net = Network(name="net")
        self.delays = delays if isinstance(delays, dict) else {}
        self.default = default_ticks
        self.links = {}
        self.lat = {}

    def link(self, a, b):
        from happysimulator.components.network.link import NetworkLink
        key = f"{a.name}>{b.name}"
        if key in self.links:
            return
        lat = cycle_latency(self.delays.get(key), self.default)
        ln = NetworkLink(name=key, latency=lat)
        self.net.add_link(a, b, ln)
        self.links[key] = ln
        self.lat[key] = lat

    def calm(self):
        for lat in self.lat.values():
            lat.calm = True


# ------------------------------------------------------------------------------ RNG shim
class PeerShim(RandomShim):
    """``random`` stand-in for replication.multi_leader: ``choice(peers)`` serves the scripted
    picks of the case first (index modulo), then a strict round-robin per peer list."""

    def __init__(self, seed, picks):
        super().__init__(seed)
        self._picks = [_n(p, 0, 7) for p in _lst(picks)]
        self._rr = {}
        self.choices = 0

    def choice(self, seq):
        self.choices += 1
        if self._picks:
            return seq[self._picks.pop(0) % len(seq)]
        k = id(seq)
        i = self._rr.get(k, 0)
        self._rr[k] = i + 1
        return seq[i % len(seq)]


# ------------------------------------------------------------------------------ observation
class Watch:
    """Per-replica, per-key value history sampled after every processed event, plus the instants at
    which the watched futures resolved."""

    def __init__(self, stores, keys):
        self.stores = stores                    # name -> KVStore
        self.keys = list(keys)
        self.hist = {n: {k: [(0, ABSENT)] for k in self.keys} for n in stores}
        self.futs = []                          # [tag, future, resolved_at_ns | None, snapshot]
        self.on_resolved = None
        self._open = None                       # unresolved futures (built at the first event)

    def watch_future(self, tag, fut):
        self.futs.append([tag, fut, None, None])
        if self._open is not None:
            self._open.append(self.futs[-1])

    def current(self, name, key):
        return self.hist[name][key][-1][1]

    def snapshot(self, key):
        return {n: self.hist[n][key][-1][1] for n in self.stores}

    def on_event(self, event):
        t = event.time.nanoseconds
        for n, s in self.stores.items():
            h = self.hist[n]
            for k in self.keys:
                v = s.get_sync(k)
                if h[k][-1][1] != v:
                    h[k].append((t, v))
        if self._open is None:
            self._open = list(self.futs)
        done = [f for f in self._open if f[1].is_resolved]
        if done:
            self._open = [f for f in self._open if not f[1].is_resolved]
            for f in done:
                f[2] = t
                if self.on_resolved is not None:
                    self.on_resolved(f, t)

    def values_until(self, name, key, t_ns):
        return [v for (t, v) in self.hist[name][key] if t <= t_ns]

    def first_time(self, name, key, value):
        for t, v in self.hist[name][key]:
            if v == value:
                return t
        return None


def keeper():
    """Entity that does nothing; a non-daemon event addressed to it keeps the run alive until then."""
    from happysimulator.core.entity import Entity

    class Keeper(Entity):
        def handle_event(self, event):
            return None

    return Keeper("keeper")


def ev(t_ticks, etype, target, **meta):
    from happysimulator import Event, Instant
    return Event(time=Instant(int(t_ticks) * TICK), event_type=etype, target=target,
                 context={"metadata": dict(meta)})


def kv(name, r, w, d=None):
    from happysimulator.components.datastore.kv_store import KVStore
    return KVStore(name, read_latency=ticks(r), write_latency=ticks(w),
                   delete_latency=None if d is None else ticks(d))


def run(sim, watch, n_items):
    """Run under spin guard and event budget. Returns 'done' | 'spin' | 'budget'."""
    probe = SimProbe(sim, max_per_instant=max(20000, 200 * n_items), max_events=200000,
                     log=False, on_event=watch.on_event)
    return probe.run(), probe


def inversions(arrivals):
    """arrivals: list of (key, seq) in arrival order at one replica -> keys with an inverted pair."""
    best = {}
    inv = set()
    for k, s in arrivals:
        if s < best.get(k, 0):
            inv.add(k)
        best[k] = max(best.get(k, 0), s)
    return inv
