"""Worker-process harness for map-like cache layers (C16) and the interval oracle of DESIGN 3.4.

A *workload* is a list of workers ``{"start": ticks, "ops": [[op, key, gap], ...]}``.  Every worker is a
generator process inside one harness Entity; it sleeps ``gap`` ticks, then calls the component's generator API
(``yield from cache.get(k)`` ...) and logs ``(worker, op#, op, key, value, start_ns, end_ns, result)``.  Start
offsets and gaps come from a tiny tick grid, so operations of different workers overlap in simulated time; the
component's internal ``yield``s are the only preemption points.

All times are integer nanoseconds on the dyadic tick grid (harness.TICK).
"""
from __future__ import annotations

from ..harness import TICK

ABSENT = None          # stores use None for "no value"
NEG_INF = -(1 << 62)
POS_INF = 1 << 62


class Op:
    __slots__ = ("w", "i", "op", "key", "val", "start", "end", "res", "exc", "extra", "ss", "se")

    def __init__(self, w, i, op, key, val):
        self.w, self.i, self.op, self.key, self.val = w, i, op, key, val
        self.start = self.end = None
        self.ss = self.se = None            # global sequence numbers of start / end (exact event order, for classification)
        self.res = None
        self.exc = None
        self.extra = None

    def done(self):
        return self.end is not None

    def __repr__(self):
        return (f"w{self.w}#{self.i} {self.op}({self.key}{'' if self.val is None else ',' + str(self.val)})"
                f"@[{self.start / TICK if self.start is not None else '?':g},"
                f"{self.end / TICK if self.end is not None else '?':g}]->{self.res!r}")


class Seq:
    """Global sequence counter: exact order of harness-visible actions inside one run."""

    def __init__(self):
        self.n = 0

    def __call__(self):
        self.n += 1
        return self.n


def seq_overlap(a_s, a_e, b_s, b_e):
    """overlap in exact event order (None end = still open)"""
    a_e = a_e if a_e is not None else POS_INF
    b_e = b_e if b_e is not None else POS_INF
    return a_s < b_e and b_s < a_e


def build_harness(name, workers, run_op, after_op=None, seq=None):
    """Return (entity, log, start_events_factory).

    ``workers``: list of dicts {"start": ticks, "ops": [(op, key, val, gap_ticks), ...]} (already normalised);
    ``run_op(op: Op)``: returns either a generator (driven with ``yield from``) or a plain value (synchronous API);
    ``after_op(op)``: called right after the op completed (same instant)."""
    from happysimulator import Entity, Event, Instant

    log = []
    seq = seq or Seq()

    class Harness(Entity):
        def handle_event(self, event):
            w = event.context["w"]
            for i, (op, key, val, gap) in enumerate(workers[w]["ops"]):
                if gap:
                    yield gap / 512
                rec = Op(w, i, op, key, val)
                rec.start = self.now.nanoseconds
                rec.ss = seq()
                log.append(rec)
                out = run_op(rec)
                if hasattr(out, "__next__"):
                    out = yield from out
                rec.res = out
                rec.end = self.now.nanoseconds
                rec.se = seq()
                if after_op is not None:
                    after_op(rec)
            return None

    h = Harness(name)

    def start_events():
        return [Event(time=Instant(int(wk["start"]) * TICK), event_type="worker", target=h, context={"w": idx})
                for idx, wk in enumerate(workers)]

    return h, log, start_events


# ------------------------------------------------------------------------------------------ interval oracle
class Write:
    __slots__ = ("key", "val", "start", "end", "src")

    def __init__(self, key, val, start, end, src=None):
        self.key, self.val, self.start, self.end, self.src = key, val, start, end, src


def acceptable_values(writes, r_start, r_end, by_completion=False):
    """Values a read [r_start, r_end] of one key may return (DESIGN 3.4): the value of any write overlapping the
    read, or of a completed write that is not *definitely* superseded by another write completed before the read
    began (``by_completion``: or that completed strictly later, for write-through layers over a store with one uniform
    write latency, where cache order = start order = completion order = store order).  ``writes`` includes the initial state as Write(start=end=NEG_INF).  Unfinished writes have end=POS_INF.
    Returns (set of acceptable values, list of the latest completed writes)."""
    ok = []
    for w in writes:
        if w.start <= r_end and r_start <= w.end:
            ok.append(w)                                      # overlaps the read
        elif w.end <= r_start:
            if by_completion:
                # stores that apply every write at its completion with one uniform latency: completion order IS the
                # write order, also between overlapping writes (ties still permissive)
                sup = any(w.end < x.end and x.end < r_start for x in writes if x is not w)
            else:
                sup = any(w.end < x.start and x.end < r_start for x in writes if x is not w)   # strict: ties are permissive
            if not sup:
                ok.append(w)
    return ok


def judge_read(writes, val, r_start, r_end):
    """None if acceptable, else a short explanation."""
    ok = acceptable_values(writes, r_start, r_end)
    if any(w.val == val for w in ok):
        return None
    older = [w for w in writes if w.val == val]
    kind = "stale" if older else "never-written"
    return kind, ok
