"""Scripted network and fault schedule for protocol clusters (C11 Raft, C13 membership; reusable for C12/C17).

Everything that is random in a real deployment is an explicit, shrinkable part of the generated *net case*
(plain JSON):

    {"delays": [int ...],          # per-message one-way delay in `unit` (default ms), consumed in *send order*
                                   # over all links; afterwards a PRNG seeded by "seed" picks from the same list
     "loss":   [0|1 ...],          # per-message loss bit in send order (1 = drop); afterwards: no loss
     "parts":  [{"t","dur","mask"}],     # partition windows: nodes whose bit is set in mask <-X-> the others
     "crashes":[{"node","t","dur","rearm"}],   # CrashNode windows (dur<=0: permanent); rearm: call on_restart
     "slow":   [{"src","dst","t","dur","delay"}],   # one-way slow link: messages *sent* src->dst in [t, t+dur) take `delay`
     "seed":   int}

The real code does the work: delays go through a ``LatencyDistribution`` subclass on real ``NetworkLink``s
(``harness.scripted_latency``), loss through ``NetworkLink.packet_loss_rate`` whose coin is the ``random``
attribute of ``network.link`` (replaced in the check process by a shim that serves the bits), partitions through
``Network.partition()`` / ``Partition.heal()``, crashes through ``FaultSchedule`` + ``CrashNode``.  The global RNG
used by protocol modules (``random.uniform`` election timeouts, ``random.shuffle`` probe orders, ...) is replaced
by ``harness.RandomShim`` whose first draws come from the case.
"""
from __future__ import annotations

from contextlib import ExitStack, contextmanager

from hypothesis import strategies as st

from .. import harness

MS = 1e-3


# ------------------------------------------------------------------------------------------- generation
def net_strategy(*, delay_values, max_delays=80, loss=True, max_loss=40, n_bits=5, max_parts=3, max_crashes=2,
                 t_max=3000, dur_max=1500, max_slow=0, slow_delays=(800, 1500, 2500)):
    """Hypothesis strategy for a net case.  ``delay_values``: strategy (or list) of delay units."""
    if isinstance(delay_values, (list, tuple)):
        delay_values = st.sampled_from(list(delay_values))
    part = st.fixed_dictionaries({"t": st.integers(0, t_max), "dur": st.integers(1, dur_max),
                                  "mask": st.integers(1, 2 ** n_bits - 2)})
    crash = st.fixed_dictionaries({"node": st.integers(0, n_bits - 1), "t": st.integers(0, t_max),
                                   "dur": st.integers(0, dur_max), "rearm": st.booleans()})
    slow = st.fixed_dictionaries({"src": st.integers(0, n_bits - 1), "dst": st.integers(0, n_bits - 1),
                                  "t": st.integers(0, t_max), "dur": st.integers(1, dur_max),
                                  "delay": st.sampled_from(list(slow_delays))})
    return st.fixed_dictionaries({
        "slow": st.lists(slow, max_size=max_slow) if max_slow else st.just([]),
        "delays": st.lists(delay_values, max_size=max_delays),
        "loss": st.lists(st.sampled_from([0, 0, 0, 1]), max_size=max_loss) if loss else st.just([]),
        "parts": st.lists(part, max_size=max_parts) if max_parts else st.just([]),
        "crashes": st.lists(crash, max_size=max_crashes) if max_crashes else st.just([]),
        "seed": st.integers(0, 2 ** 16),
    })


def _int(x, lo=0, hi=None, default=0):
    try:
        v = int(x)
    except (TypeError, ValueError):
        v = default
    if v < lo:
        v = lo
    if hi is not None and v > hi:
        v = hi
    return v


# ------------------------------------------------------------------------------------------- loss coin
class LossCoin:
    """Stands in for ``random`` inside ``network.link``: ``random()`` answers the link's single question
    (``random.random() < packet_loss_rate`` with rate 0.5) from the generated bit list."""

    def __init__(self, bits):
        self._bits = [1 if b else 0 for b in bits]
        self.asked = 0
        self.dropped = 0

    def random(self):
        self.asked += 1
        if self._bits and self._bits.pop(0):
            self.dropped += 1
            return 0.0
        return 0.999

    def __getattr__(self, name):      # the link module uses nothing else; be loud if that changes
        raise AttributeError(f"LossCoin: network.link asked for random.{name}")


# ------------------------------------------------------------------------------------------- assembly
class ScriptedNet:
    """A real ``Network`` with one real ``NetworkLink`` per ordered pair of ``nodes``, all sharing one scripted
    latency source, plus the control events (partition/heal, re-arm after restart) and the ``FaultSchedule``
    described by the net case.  Use::

        sn = ScriptedNet(net_case, unit=MS, default_delay=5)
        nodes = [... built with sn.network ...]
        sn.connect(nodes)
        sim = Simulation(entities=[sn.network, *nodes], fault_schedule=sn.fault_schedule(on_restart), end_time=...)
        for e in sn.control_events(): sim.schedule(e)
        with sn.installed(protocol_module, rng=RandomShim(...)): sim.run()
    """

    def __init__(self, case, *, unit=MS, default_delay=5, max_delay=None, name="net"):
        from happysimulator.components.network.network import Network
        case = case if isinstance(case, dict) else {}
        self.unit = unit
        d = [_int(x, 0, max_delay) for x in (case.get("delays") or []) if isinstance(x, (int, float))]
        self.delays = d
        self.seed = _int(case.get("seed"), 0)
        self.latency = harness.scripted_latency([x * unit for x in d], _int(default_delay, 0, max_delay) * unit,
                                                seed=self.seed)
        self.coin = LossCoin(case.get("loss") or [])
        self.lossy = any(self.coin._bits)
        self.parts = [p for p in (case.get("parts") or []) if isinstance(p, dict)]
        self.crashes = [c for c in (case.get("crashes") or []) if isinstance(c, dict)]
        self.slow = [c for c in (case.get("slow") or []) if isinstance(c, dict)]
        self.max_delay = max_delay
        self.network = Network(name=name)
        self.nodes = []
        self.links = []
        self.log = []                 # (t_unit, what, detail) as scheduled

    # -- topology
    def connect(self, nodes):
        from happysimulator.components.network.link import NetworkLink
        self.nodes = list(nodes)
        n = len(self.nodes)
        windows = {}
        for w in self.slow:
            i, j = _int(w.get("src"), 0) % n, _int(w.get("dst"), 0) % n
            if i != j:
                t0 = _int(w.get("t"), 0)
                windows.setdefault((i, j), []).append((t0 * self.unit, (t0 + _int(w.get("dur"), 1)) * self.unit,
                                                       _int(w.get("delay"), 0, self.max_delay) * self.unit))
        for i, a in enumerate(self.nodes):
            for j, b in enumerate(self.nodes):
                if a is not b:
                    lat = self.latency if (i, j) not in windows else _windowed(self.latency, windows[(i, j)])
                    link = NetworkLink(name=f"{a.name}>{b.name}", latency=lat,
                                       packet_loss_rate=0.5 if self.lossy else 0.0)
                    self.network.add_link(a, b, link)
                    self.links.append(link)

    # -- crashes: the real FaultSchedule/CrashNode
    def crash_windows(self):
        """[(node_index, t_unit, restart_unit | None, rearm)] after clamping to the cluster."""
        out = []
        n = len(self.nodes)
        for c in self.crashes:
            if not n:
                break
            i = _int(c.get("node"), 0) % n
            t = _int(c.get("t"), 0)
            dur = _int(c.get("dur"), 0)
            out.append((i, t, (t + dur) if dur > 0 else None, bool(c.get("rearm"))))
        return out

    def fault_schedule(self):
        from happysimulator.faults.node_faults import CrashNode
        from happysimulator.faults.schedule import FaultSchedule
        fs = FaultSchedule()
        for i, t, rt, _ in self.crash_windows():
            fs.add(CrashNode(self.nodes[i].name, at=t * self.unit,
                             restart_at=None if rt is None else rt * self.unit))
            self.log.append((t, "crash", self.nodes[i].name))
            if rt is not None:
                self.log.append((rt, "restart", self.nodes[i].name))
        return fs

    # -- partitions and re-arming: plain callback events
    def control_events(self, on_restart=None):
        """Events to ``sim.schedule``: partition/heal windows through the real Network API and, for crash
        windows with ``rearm``, a call of ``on_restart(node) -> events`` one microsecond after the restart."""
        from happysimulator import Event, Instant
        evs = []
        n = len(self.nodes)
        net = self.network
        for p in self.parts:
            if n < 2:
                break
            mask = _int(p.get("mask"), 0) % (2 ** n)
            a = [x for i, x in enumerate(self.nodes) if mask >> i & 1]
            b = [x for i, x in enumerate(self.nodes) if not mask >> i & 1]
            if not a or not b:
                continue
            t = _int(p.get("t"), 0)
            dur = _int(p.get("dur"), 1, None, 1)
            h = {}

            def cut(e, a=a, b=b, h=h):
                h["p"] = net.partition(a, b)

            def heal(e, h=h):
                if "p" in h:
                    h["p"].heal()

            evs.append(Event.once(time=Instant.from_seconds(t * self.unit), event_type="net.partition", fn=cut,
                                  daemon=True))
            evs.append(Event.once(time=Instant.from_seconds((t + dur) * self.unit), event_type="net.heal", fn=heal,
                                  daemon=True))
            self.log.append((t, "partition", [x.name for x in a]))
            self.log.append((t + dur, "heal", [x.name for x in a]))
        if on_restart is not None:
            for i, t, rt, rearm in self.crash_windows():
                if rt is None or not rearm:
                    continue
                node = self.nodes[i]

                def go(e, node=node):
                    if getattr(node, "_crashed", False):     # an overlapping window still holds it down
                        return None
                    return on_restart(node)

                evs.append(Event.once(time=Instant(int(round(rt * self.unit * 1e9)) + 1000),
                                      event_type="net.rearm", fn=go, daemon=True))
        return evs

    # -- RNG shims
    @contextmanager
    def installed(self, *protocol_modules, rng=None):
        """Patch ``random`` of ``network.link`` (loss coin) and of the given protocol modules (``rng``)."""
        import happysimulator.components.network.link as link_mod
        with ExitStack() as es:
            es.enter_context(harness.patched_random(self.coin, link_mod))
            if rng is not None and protocol_modules:
                es.enter_context(harness.patched_random(rng, *protocol_modules))
            yield self

    # -- summary for labels
    def features(self):
        f = []
        if self.coin.dropped:
            f.append("loss")
        if self.parts:
            f.append("partition")
        if self.crashes:
            f.append("crash")
        if self.slow:
            f.append("slow-link")
        return f


def _windowed(shared, windows):
    """Latency of one directed link: the shared script, except that a message sent inside a slow window takes that
    window's delay (the shared script is still advanced, so the other links see the same sequence either way)."""
    from happysimulator.core.temporal import Duration
    from happysimulator.distributions.latency_distribution import LatencyDistribution

    class Windowed(LatencyDistribution):
        def __init__(self):
            super().__init__(shared._mean_latency)

        def get_latency(self, current_time=None):
            d = shared.get_latency(current_time)
            if current_time is not None:
                t = current_time.to_seconds()
                for t0, t1, delay in windows:
                    if t0 <= t < t1:
                        return Duration.from_seconds(delay)
            return d

    return Windowed()


def is_continuation(event) -> bool:
    return type(event).__name__ == "ProcessContinuation"
