"""Scripted cluster network for the consensus-family checks (C12).

A *net case* is plain JSON::

    {"delays": [ticks...],      # per-message one-way delays (1 tick = 1/512 s), consumed in global send order;
                                #   when exhausted: PRNG choice over the same list, seeded by "seed"
     "loss": permille,          # packet_loss_rate of every link (0 = reliable)
     "drops": [0|1...],         # scripted loss decisions (1 = drop), consumed per routed message while loss > 0;
                                #   when exhausted: PRNG draws against the loss rate
     "parts": [[at, dur, mask], ...],   # Network.partition(nodes in mask, the others) at tick `at`, healed after `dur`
     "seed": int}

Everything the real code draws at random is served from the case: link loss through a ``harness.RandomShim``
patched over ``network.link.random``, protocol jitter through a second shim patched over the protocol
modules' ``random``; delays through ``harness.scripted_latency`` (one shared script for all links, so that
"which message is slow" is an explicit, shrinkable list).

Observation needs no hook in the tree: ``ObsNetwork`` is a harness-side subclass of ``Network`` whose ``send``
records the message events a handler creates; the cluster's ``on_event`` hook attributes them to the event
whose handler created them (the hook runs right after that handler), so the order "received m, then sent
s1..sk" is exact even when several events share one instant.
"""
from __future__ import annotations

from hypothesis import strategies as st

from ..harness import TICK, RandomShim, SimProbe, patched_random, scripted_latency

MAX_DELAY_TICKS = 4096


# ------------------------------------------------------------------------------ total JSON access
def as_int(x, default=0):
    if isinstance(x, bool):
        return int(x)
    if isinstance(x, int):
        return x
    if isinstance(x, float) and x == x and abs(x) < 1e15:
        return int(x)
    return default


def clampi(x, lo, hi, default=None):
    v = as_int(x, lo if default is None else default)
    return lo if v < lo else hi if v > hi else v


def as_list(x):
    return x if isinstance(x, list) else []


def field(row, i, default=0):
    """row[i] of a JSON list row, total."""
    if isinstance(row, list) and len(row) > i:
        return row[i]
    return default


# ------------------------------------------------------------------------------ strategies
DELAY_TABLE = [0, 0, 1, 1, 1, 2, 2, 3, 4, 5, 6, 8, 10, 12, 16, 20, 24, 32, 40, 48, 64, 80, 96, 128, 160, 200, 250, 300]


def delay_ticks(maxd=300):
    """Skewed table of delays (ticks): mostly a few ticks, sometimes long enough to straddle retries/timeouts."""
    return st.sampled_from([d for d in DELAY_TABLE if d <= maxd] or [0, 1])


def net_strategy(tier, lossy=True, parts=True, maxd=300, horizon=1024, n_delays=None):
    big = tier == "thorough"
    nd = n_delays or (90 if big else 50)
    d = {
        "delays": st.lists(delay_ticks(maxd), min_size=1, max_size=nd),
        "seed": st.integers(0, 2**16),
        "loss": st.sampled_from([0, 0, 0, 100, 250, 400]) if lossy else st.just(0),
        "drops": st.lists(st.integers(0, 1), max_size=30) if lossy else st.just([]),
        "parts": (st.lists(st.tuples(st.integers(0, horizon), st.integers(1, horizon), st.integers(1, 30)).map(list),
                           max_size=2) if parts else st.just([])),
    }
    return st.fixed_dictionaries(d)


def quiet_net_strategy(tier, maxd=8):
    """Fault-free network with bounded delays (liveness obligations)."""
    return st.fixed_dictionaries({
        "delays": st.lists(st.integers(0, maxd), min_size=1, max_size=40),
        "seed": st.integers(0, 2**16),
        "loss": st.just(0), "drops": st.just([]), "parts": st.just([]),
    })


# ------------------------------------------------------------------------------ cluster
_OBS = {}


def obs_network_class():
    """Harness-side Network subclass that records the events created through send()."""
    if "cls" not in _OBS:
        from happysimulator.components.network.network import Network

        class ObsNetwork(Network):
            def send(self, source, destination, event_type, payload=None, daemon=False):
                ev = Network.send(self, source, destination, event_type, payload, daemon)
                self._vf_out.append(ev)
                return ev

        _OBS["cls"] = ObsNetwork
    return _OBS["cls"]


class Cluster:
    """n protocol nodes fully connected through one scripted network inside one Simulation."""

    def __init__(self, netcase, n, make_node, end_ticks, extra_entities=()):
        from happysimulator import Event, Instant, Simulation
        from happysimulator.components.network.link import NetworkLink

        netcase = netcase if isinstance(netcase, dict) else {}
        self.Event, self.Instant = Event, Instant
        self.n = n
        self.net = obs_network_class()(name="net")
        self.net._vf_out = []
        self.nodes = [make_node(i, f"n{i}", self.net) for i in range(n)]
        self.index = {x.name: i for i, x in enumerate(self.nodes)}
        seed = clampi(netcase.get("seed"), 0, 2**31)
        delays = [clampi(d, 0, MAX_DELAY_TICKS) / 512 for d in as_list(netcase.get("delays"))]
        self.max_delay_ticks = max([clampi(d, 0, MAX_DELAY_TICKS) for d in as_list(netcase.get("delays"))] or [2])
        self.lat = scripted_latency(delays, 2 / 512, seed)
        self.loss = clampi(netcase.get("loss"), 0, 900) / 1000
        for a in self.nodes:
            for b in self.nodes:
                if a is not b:
                    self.net.add_link(a, b, NetworkLink(name=f"{a.name}>{b.name}", latency=self.lat,
                                                        packet_loss_rate=self.loss))
        script = [0.0 if as_int(b) else 0.999999 for b in as_list(netcase.get("drops"))]
        self.loss_shim = RandomShim(seed + 1, script)
        self.end_ns = end_ticks * TICK
        self.sim = Simulation(entities=[self.net, *self.nodes, *extra_entities], end_time=Instant(self.end_ns))
        self.parts_applied = 0
        for row in as_list(netcase.get("parts"))[:4]:
            at, dur, mask = clampi(field(row, 0), 0, end_ticks), clampi(field(row, 1), 1, end_ticks), as_int(field(row, 2))
            ga = [x for i, x in enumerate(self.nodes) if (mask >> i) & 1]
            gb = [x for i, x in enumerate(self.nodes) if not (mask >> i) & 1]
            if not ga or not gb:
                continue
            self.parts_applied += 1
            handle = []

            def cut(ev, ga=ga, gb=gb, handle=handle):
                handle.append(self.net.partition(ga, gb))

            def heal(ev, handle=handle):
                for h in handle:
                    h.heal()

            self.at(at, "vf-partition", cut, daemon=True)
            self.at(at + dur, "vf-heal", heal, daemon=True)
        self.status = None
        self.events = 0

    def at(self, tick, kind, fn, daemon=False):
        """Schedule a harness callback at ``tick`` (its return value is scheduled by the engine)."""
        self.sim.schedule(self.Event.once(time=self.Instant(clampi(tick, 0, 10**7) * TICK), event_type=kind, fn=fn,
                                          daemon=daemon))

    def now_ns(self):
        return self.sim._clock.now.nanoseconds

    def run(self, on_step, proto_shim=None, proto_modules=(), max_events=8000):
        """Run to the end time / event budget. ``on_step(event, sent)`` is called after every processed event
        that is not internal to the network, with the list of message events its handler created through
        ``Network.send``. Returns 'done' | 'budget' | 'spin' (the latter two: history is a prefix)."""
        import happysimulator.components.network.link as link_mod
        net = self.net

        def hook(ev):
            if ev.target is net:
                return
            out = net._vf_out
            if out:
                net._vf_out = []
            on_step(ev, out)

        probe = SimProbe(self.sim, max_per_instant=max_events + 1, max_events=max_events, log=False, on_event=hook)
        shim = proto_shim or RandomShim(0)
        with patched_random(self.loss_shim, link_mod), patched_random(shim, *proto_modules):
            self.status = probe.run()
        self.events = probe.n
        return self.status


def meta(ev):
    m = ev.context.get("metadata") if isinstance(ev.context, dict) else None
    return m if isinstance(m, dict) else {}
