"""Program DSL: JSON programs executed on the real engine (RealRun) and on the reference
interpreter (vfw/ref/engine.py).

program = {
  "n": entities, "nfut": futures, "fuel": int,
  "handlers": [[behaviour x 3 kinds] x n],
  "initial": [{"t": tick, "j": ns jitter, "tgt", "kind", "daemon", "cancel", "c": creation rank,
               "h": handle|None, "hooks": [[emit..]..]}],
  "batch": bool  (schedule the initial events as one list or one by one)
}
behaviour = {"imm": [emit..], "shape": "none|one|list|shared", "resolve": [[fid, val]..], "cancel": [handle..]}
          | {"proc": [step..]}
step = ["delay", ticks] | ["delaye", ticks] | ["delayfx", ticks, [emit..]] | ["wait", fid] | ["waitc", tree]
     | ["resolve", fid, val] | ["cancel", handle] | ["call", [step..]] | ["ret", [emit..]]
     | ["addhook", handle|None, [emit..]]   (attach a completion hook now: to the process's own event or to the event behind a handle)
tree = fid | ["any"|"all", [tree, tree, ..]]
emit = {"dt": ticks (may be negative), "j": ns, "tgt", "kind", "daemon", "h": handle|None, "hooks": [[emit..]..]}
"""
from __future__ import annotations

import logging

from hypothesis import strategies as st

from ..ref.engine import EVENT_CAP, TICK
from .common import beh_of

KINDS = ["a", "b", "c"]
_SHARED_EMPTY = []      # yielded as the side-effect list by every "delaye" step of every process (never mutated by the harness)
VALS = st.one_of(st.integers(0, 9), st.integers(0, 9), st.integers(0, 9), st.none())   # resolved values; None is a legal value


# ------------------------------------------------------------------------------ strategies
def emit_strategy(n, with_hooks=True, dts=(0, 0, 0, 1, 1, 2, 3, -1, -2), jitter=True, handles=3):
    base = {
        "dt": st.sampled_from(list(dts)),
        "tgt": st.integers(0, n - 1),
        "kind": st.integers(0, 2),
        "daemon": st.sampled_from([False, False, False, False, True]),
    }
    opt = {}
    opt["via"] = st.sampled_from([0, 0, 0, 0, 1])     # 1: handed to sim.schedule() from inside the handler instead of being returned
    if jitter:
        opt["j"] = st.sampled_from([0, 0, 0, 0, 0, 1, -1])
    if handles:
        opt["h"] = st.one_of(st.none(), st.none(), st.integers(0, handles - 1))
    if with_hooks:
        inner = emit_strategy(n, with_hooks=False, dts=dts, jitter=jitter, handles=0)
        opt["hooks"] = st.one_of(st.just([]), st.just([]), st.just([]),
                                 st.lists(st.lists(inner, max_size=2), min_size=1, max_size=2))
    return st.fixed_dictionaries(base | opt)


def tree_strategy(nfut, depth=2):
    leaf = st.integers(0, max(0, nfut - 1))
    if depth <= 0:
        return leaf
    sub = st.one_of(leaf, leaf, tree_strategy(nfut, depth - 1))
    return st.tuples(st.sampled_from(["any", "all"]), st.lists(sub, min_size=2, max_size=3)).map(list)


def steps_strategy(n, nfut, depth, emits, max_steps=5, futures=True, combinators=True, cancels=True, heavy=False, hook_emits=None):
    delay = st.tuples(st.just("delay"), st.sampled_from([0, 0, 1, 1, 2, 3])).map(list)
    delayfx = st.tuples(st.just("delayfx"), st.sampled_from([0, 0, 1, 2]), st.lists(emits, min_size=1, max_size=2)).map(list)
    delaye = st.tuples(st.just("delaye"), st.sampled_from([0, 1, 1, 2])).map(list)   # yield d, <one shared empty list object>
    alts = [delay, delay, delayfx, delaye]
    if futures and nfut:
        alts.append(st.tuples(st.just("wait"), st.integers(0, nfut - 1)).map(list))
        alts.append(st.tuples(st.just("resolve"), st.integers(0, nfut - 1), VALS).map(list))
        alts.append(st.tuples(st.just("resolve"), st.integers(0, nfut - 1), VALS).map(list))
        if combinators and nfut >= 2:
            alts.append(st.tuples(st.just("waitc"), tree_strategy(nfut)).map(list))
            if heavy:
                alts.append(st.tuples(st.just("waitc"), tree_strategy(nfut)).map(list))
                alts.append(st.tuples(st.just("wait"), st.integers(0, nfut - 1)).map(list))
    if cancels:
        alts.append(st.tuples(st.just("cancel"), st.integers(0, 2)).map(list))
    if hook_emits is not None:
        # attach a completion hook late: to the process's own event (None) or to the event behind a handle
        alts.append(st.tuples(st.just("addhook"), st.one_of(st.none(), st.none(), st.integers(0, 2)),
                              st.lists(hook_emits, max_size=2)).map(list))
    if depth > 0:
        alts.append(st.tuples(st.just("call"),
                              steps_strategy(n, nfut, depth - 1, emits, 3, futures, combinators, cancels, heavy, hook_emits)).map(list))
    return st.lists(st.one_of(*alts), max_size=max_steps)


@st.composite
def program_strategy(draw, tier="quick", procs=True, futures=True, combinators=True, cancels=True,
                     hooks=True, max_entities=5, past=True, jitter=True, heavy=False, stash=False):
    n = draw(st.integers(1, max_entities))
    nfut = draw(st.integers(2 if heavy else 0, 4)) if (futures and procs) else 0
    dts = (0, 0, 0, 1, 1, 2, 3, -1, -2) if past else (0, 0, 0, 1, 1, 2, 3)
    emits = emit_strategy(n, with_hooks=hooks, dts=dts, jitter=jitter, handles=3 if cancels else 0)
    imm = st.fixed_dictionaries({
        "imm": st.lists(emits, max_size=3),
        # "shared": like "list", but a handler with nothing to emit returns one module-level empty list (a `_NOTHING = []` constant)
        "shape": st.sampled_from(["none", "one", "list", "list", "shared"]),
        "resolve": st.lists(st.tuples(st.integers(0, max(0, nfut - 1)), VALS).map(list),
                            max_size=2 if nfut else 0),
        "cancel": st.lists(st.integers(0, 2), max_size=1 if cancels else 0),
        # stash: keep the received Event object (as a queue keeps a payload); flush: re-emit every held object, re-stamped to now.
        # Only understood by RealRun (not by the reference interpreter), so only metamorphic checks (C04) switch it on.
        **({"stash": st.sampled_from([False, True]), "flush": st.sampled_from([False, True, True])} if stash else {}),
    })
    if procs:
        hk = emit_strategy(n, False, dts, jitter, 0) if hooks else None
        proc = st.tuples(steps_strategy(n, nfut, 2, emits, 5, futures, combinators, cancels, heavy, hk),
                         st.lists(emits, max_size=2)).map(lambda t: {"proc": t[0] + [["ret", t[1]]]})
        beh = st.one_of(imm, proc)
    else:
        beh = imm
    behs = draw(st.lists(beh, min_size=1, max_size=4))
    handlers = draw(st.lists(st.lists(st.integers(0, len(behs) - 1), min_size=3, max_size=3), min_size=n, max_size=n))
    init = st.fixed_dictionaries({
        "t": st.sampled_from([0, 1, 1, 2, 2, 2, 3, 5]),
        "j": st.sampled_from([0, 0, 0, 0, 1, -1]) if jitter else st.just(0),
        "tgt": st.integers(0, n - 1), "kind": st.integers(0, 2),
        "daemon": st.sampled_from([False, False, False, True]),
        "cancel": st.sampled_from([False] * 9 + [True]),
        "c": st.integers(0, 3),
        "h": st.one_of(st.none(), st.integers(0, 2)) if cancels else st.none(),
        "hooks": (st.one_of(st.just([]), st.just([]),
                            st.lists(st.lists(emit_strategy(n, False, dts, jitter, 0), max_size=2), min_size=1, max_size=2))
                  if hooks else st.just([])),
    })
    initial = draw(st.lists(init, min_size=1, max_size=12 if tier == "thorough" else 8))
    return {"n": n, "nfut": nfut, "fuel": draw(st.sampled_from([2, 3, 3, 4])), "handlers": handlers, "behs": behs,
            "initial": initial, "batch": draw(st.booleans()),
            "start": draw(st.sampled_from([0, 0, 0, 0, 1, 2])),      # Simulation(start_time=start ticks): earlier pre-run events are not live
            "dur": draw(st.booleans())}                               # give the end of the run as duration= instead of end_time= (when it is whole ticks)


# ------------------------------------------------------------------------------ real execution
class _TimeTravelCounter(logging.Handler):
    def __init__(self):
        super().__init__(level=logging.WARNING)
        self.count = 0

    def emit(self, record):
        if "Time travel" in record.getMessage():
            self.count += 1


def jsonable(v):
    if isinstance(v, tuple):
        return [jsonable(x) for x in v]
    if isinstance(v, list):
        return [jsonable(x) for x in v]
    return v


class RealRun:
    """Builds the program on the real engine. ``log`` has the same entry shapes as the reference:
    ("D", t_ns, entity, kind, uid) delivery; ("R", t_ns, pid, tag, value) process resumption;
    ("F", t_ns, pid) process finished; ("H", t_ns, owner uid) completion hook fired."""

    def __init__(self, prog, end_ns=None, trace_recorder=None, sim_kwargs=None):
        from happysimulator import Entity, Event, Instant, Simulation
        from happysimulator.core.sim_future import SimFuture, all_of, any_of
        self.prog = prog
        del _SHARED_EMPTY[:]          # no state may leak between cases
        self.log = []
        self.anomalies = []
        self.Event, self.Instant = Event, Instant
        run = self
        n = prog["n"]
        nfut = prog["nfut"]
        self.futs = [SimFuture() for _ in range(nfut)]
        self.waited = set()
        self.stash = {}
        self.handles = {}
        self.uid = 0
        self.cancelled_uids = set()
        self.delivered = []
        self.born = {}

        def build(tree):
            if isinstance(tree, int):
                return run.futs[tree % nfut]
            op, subs = tree
            ins = [build(s) for s in subs]
            return any_of(*ins) if op == "any" else all_of(*ins)

        class PEnt(Entity):
            def __init__(self, idx):
                super().__init__(f"e{idx}")
                self.idx = idx
                self.mod3 = 0          # public observation counter (deliveries mod 3), read by MetricBreakpoint; never used by handlers

            def handle_event(self, event):
                self.mod3 = (self.mod3 + 1) % 3
                ctx = event.context
                if "uid" not in ctx:               # event re-created by control.reset(): only metadata survives
                    ctx = ctx.get("metadata") or {}
                uid = ctx.get("uid")
                now = self.now.nanoseconds
                run.log.append(("D", now, self.idx, KINDS.index(event.event_type), uid))
                if event.time.nanoseconds != now:
                    run.anomalies.append(("clock-not-event-time", uid, now, event.time.nanoseconds))
                if event.cancelled:
                    run.anomalies.append(("cancelled-delivered", uid, now))
                fuel = ctx.get("fuel", 0)
                md = event.context.get("metadata")
                if isinstance(md, dict) and "fuel" in md:
                    md["fuel"] = 0     # handlers may annotate the events they receive: this one marks the budget as consumed
                if fuel <= 0:
                    return None
                beh = beh_of(prog, self.idx, KINDS.index(event.event_type))
                if "imm" in beh:
                    for fid, val in beh.get("resolve", []):
                        if nfut:
                            run.futs[fid % nfut].resolve(val)
                    evs = run.route(beh["imm"], [run.mk(em, fuel - 1, now) for em in beh["imm"]])
                    for h in beh.get("cancel", []):
                        run.cancel(h)
                    if beh.get("flush"):
                        for held in run.stash.pop(self.idx, []):
                            hc = held.context
                            f = hc.get("fuel", 0) - 1
                            if f < 0:
                                continue
                            run.uid += 1
                            hc["uid"], hc["fuel"] = run.uid, f
                            hc["metadata"] = {"uid": run.uid, "fuel": f}
                            held.time = run.Instant(now)       # same object, same creation index, new timestamp
                            run.born[run.uid] = (now, now)
                            evs.append(held)
                    if beh.get("stash"):
                        run.stash.setdefault(self.idx, []).append(event)
                    shape = beh.get("shape", "list")
                    if shape == "none":
                        return None
                    if shape == "one":
                        return evs[0] if evs else None
                    if shape == "shared" and not evs:
                        return _SHARED_EMPTY         # the same list object every time; nobody may write into it
                    return evs
                return self.proc(beh["proc"], fuel, uid, event)

            def proc(self, steps, fuel, pid, event):
                res = yield from self.steps(steps, fuel, pid, [], event)
                run.log.append(("F", self.now.nanoseconds, pid))
                return res[1] if res is not None else None

            def steps(self, steps, fuel, pid, path, event=None):
                for i, st_ in enumerate(steps):
                    op = st_[0]
                    tag = path + [i]
                    if op == "delay":
                        v = yield st_[1] / 512
                        run.log.append(("R", self.now.nanoseconds, pid, tag, jsonable(v)))
                    elif op == "delaye":
                        v = yield st_[1] / 512, _SHARED_EMPTY     # the same (empty) list object every time, as a constant would be
                        run.log.append(("R", self.now.nanoseconds, pid, tag, jsonable(v)))
                    elif op == "delayfx":
                        now = self.now.nanoseconds
                        v = yield st_[1] / 512, [run.mk(em, fuel - 1, now) for em in st_[2]]
                        run.log.append(("R", self.now.nanoseconds, pid, tag, jsonable(v)))
                    elif op == "wait":
                        if not nfut or ((st_[1] % nfut) in run.waited and not run.futs[st_[1] % nfut].is_resolved):
                            continue        # one parked process per future; a resolved future may be yielded again
                        run.waited.add(st_[1] % nfut)
                        v = yield run.futs[st_[1] % nfut]
                        run.log.append(("R", self.now.nanoseconds, pid, tag, jsonable(v)))
                    elif op == "waitc":
                        if not nfut:
                            continue
                        v = yield build(st_[1])
                        run.log.append(("R", self.now.nanoseconds, pid, tag, jsonable(v)))
                    elif op == "resolve":
                        if nfut:
                            run.futs[st_[1] % nfut].resolve(st_[2])
                    elif op == "cancel":
                        run.cancel(st_[1])
                    elif op == "addhook":
                        tgt_ev = event if st_[1] is None else run.handles.get(st_[1])
                        if tgt_ev is not None:
                            c = tgt_ev.context if "uid" in tgt_ev.context else (tgt_ev.context.get("metadata") or {})
                            tgt_ev.add_completion_hook(run._hook(c.get("uid"), list(st_[2]), c.get("fuel", 0)))
                    elif op == "call":
                        r = yield from self.steps(st_[1], fuel, pid, tag, event)
                        if r is not None:
                            return r
                    elif op == "ret":
                        now = self.now.nanoseconds
                        return ("RET", [run.mk(em, fuel - 1, now) for em in st_[1]])
                return None

        self.ents = [PEnt(i) for i in range(n)]
        kw = dict(sim_kwargs or {})
        if prog.get("start"):
            kw["start_time"] = Instant(int(prog["start"]) * TICK)
        if end_ns is not None:
            start_ns = int(prog.get("start", 0) or 0) * TICK
            if prog.get("dur") and end_ns >= start_ns and (end_ns - start_ns) % TICK == 0:
                kw["duration"] = (end_ns - start_ns) / 1e9        # the same end expressed as a run length (exact: whole ticks of 1/512 s)
            else:
                kw["end_time"] = Instant(end_ns)
        if trace_recorder is not None:
            kw["trace_recorder"] = trace_recorder
        self.sim = Simulation(entities=list(self.ents), **kw)
        order = sorted(range(len(prog["initial"])), key=lambda i: (prog["initial"][i].get("c", 0), i))
        created = {}
        for i in order:
            ie = prog["initial"][i]
            t = max(0, ie["t"] * TICK + ie.get("j", 0))
            ev = self.new_event(t, ie, prog["fuel"])
            if ie.get("cancel"):
                ev.cancel()
                self.cancelled_uids.add(ev.context["uid"])
            created[i] = ev
        evs = [created[i] for i in range(len(prog["initial"]))]
        if prog.get("batch"):
            self.sim.schedule(evs)
        else:
            for e in evs:
                self.sim.schedule(e)
        self.tt = _TimeTravelCounter()

    def new_event(self, t_ns, em, fuel):
        self.uid += 1
        uid = self.uid
        if uid > EVENT_CAP:
            fuel = 0
        self.born[uid] = (self.sim._clock.now.nanoseconds if hasattr(self, "sim") else 0, t_ns)
        ev = self.Event(time=self.Instant(t_ns), event_type=KINDS[em["kind"] % 3],
                        target=self.ents[em["tgt"] % self.prog["n"]], daemon=bool(em.get("daemon")),
                        context={"uid": uid, "fuel": fuel, "metadata": {"uid": uid, "fuel": fuel}})
        for hk in (em.get("hooks") or []):
            ev.add_completion_hook(self._hook(uid, list(hk), fuel))
        if em.get("h") is not None:
            self.handles[em["h"]] = ev
        return ev

    def _hook(self, uid, emits, fuel):
        def hook(time):
            now = time.nanoseconds
            self.log.append(("H", now, uid))
            return [self.mk(em, fuel - 1, now) for em in emits]
        return hook

    def mk(self, em, fuel, now_ns):
        return self.new_event(max(0, now_ns + em["dt"] * TICK + em.get("j", 0)), em, fuel)

    def route(self, emits, evs):
        """Events whose emit says via=1 are handed to sim.schedule() right away (from inside the handler); the rest is returned."""
        out = []
        for em, ev in zip(emits, evs):
            if em.get("via"):
                self.sim.schedule(ev)
            else:
                out.append(ev)
        return out

    def cancel(self, h):
        ev = self.handles.get(h)
        if ev is not None:
            ev.cancel()
            self.cancelled_uids.add(ev.context["uid"])

    def run(self):
        lg = logging.getLogger("happysimulator.core.simulation")
        old_level = lg.level
        lg.addHandler(self.tt)
        old_prop = lg.propagate
        lg.propagate = False
        try:
            self.summary = self.sim.run()
        finally:
            lg.removeHandler(self.tt)
            lg.propagate = old_prop
            lg.setLevel(old_level)
        return self


def norm_log(log):
    return [tuple(jsonable(list(e))) if False else tuple(_n(x) for x in e) for e in log]


def _n(x):
    if isinstance(x, (list, tuple)):
        return tuple(_n(y) for y in x)
    return x
