"""Scenario catalogue shared by C03 (reproducibility) and C07 (no past emission / no spin).

``SCENARIOS[family](case) -> Scenario`` builds a small, finite simulation out of *real* library
components.  A case is JSON ``{"family": str, "seed": int, "k": [8 small ints]}``; every knob is taken
modulo its range so any ints work (the shrinker halves them).  A builder is a pure function of the case:
``build(case)`` first calls ``harness.seed_globals(seed)`` ("the same seeds") and builders pass explicit
seeds wherever a component accepts one.  The only glue code are the tiny harness entities defined here
(``Proc``, ``Relay``, ``Replier`` ...): they always stamp emitted events with the *current* clock and never
poll, so any past emission or frozen-clock spin seen in a scenario comes from library code.

Conventions used by every builder (C07 generator requirements):
* every latency is non-zero and lies on the dyadic tick grid (1/512 s) unless a component draws it from
  its own distribution;
* every pool / lock / queue has >= 2 concurrent users;
* every scenario has an ``end_time`` (sources keep ticking after ``stop_after``) and is sized to stay
  below ~2000 deliveries.
"""
from __future__ import annotations

import dataclasses
import enum
import json
import random as _random

from .harness import TICK, seed_globals, ticks

# ----------------------------------------------------------------------------------------- helpers
DROP_FIELDS = {
    # wall-clock / identity fields removed by name from statistics snapshots
    "wall_clock_seconds", "events_per_second", "wall_time", "wall_clock", "message_id", "uuid", "hook_id",
    "breakpoint_id", "id",
}

JUNK = {}          # family -> fn(case) -> case: the same family with another value of the one parameter that must stay
                   # private to a simulation (key spelling, hashing seed); C03 runs it as junk before the batch in W1
ORIGIN = {}        # id(event) -> library class that created an event a harness worker passes on (see from_lib)
TRAITS = {}        # family -> set of {"strkeys", "modrng", "hashroute"} (C03 non-triviality declaration)
SCENARIOS = {}     # family -> builder(case) -> Scenario


class Scenario:
    def __init__(self, sim, entities=(), workload=0, extra=None, family="", variant=""):
        self.sim = sim
        self.family = family
        self.variant = variant      # configuration class relevant for root-cause signatures (C03), "" if none
        self.workload_size = int(workload)
        self._extra = extra
        self._roots = list(entities)
        self.entities = discover(sim, self._roots)
        self.classes = {n for n in (lib_class_name(e) for e in self.entities) if n}
        self.classes |= {n for n in _aux_classes(self.entities)}

    def stats(self):
        """JSON-able snapshot of the public statistics of every component of the scenario."""
        acc = {}
        for e in self.entities:
            if not _is_lib(type(e)) and not isinstance(e, _Glue):
                continue
            d = {}
            s = _public_stats(e)
            if s is not None:
                d["stats"] = s
            for attr in ("events_received", "total", "by_type", "depth", "generated_count", "done"):
                if hasattr(type(e), attr) or attr in getattr(e, "__dict__", {}):
                    try:
                        v = getattr(e, attr)
                    except Exception:  # noqa: BLE001
                        continue
                    if not callable(v):
                        d[attr] = jsonable(v)
            if d:
                acc.setdefault(f"{type(e).__name__}:{getattr(e, 'name', '')}", []).append(d)
        out = {}
        for key, ds in acc.items():
            out[key] = ds[0] if len(ds) == 1 else sorted(ds, key=lambda v: json.dumps(v, sort_keys=True, default=str))
        if self._extra is not None:
            out["extra"] = jsonable(self._extra())
        return out


def lib_class_name(obj):
    """Name of the nearest library class in the MRO of ``obj`` (a harness subclass of an abstract library
    component counts as that component); None for pure harness entities."""
    for c in type(obj).__mro__:
        if _is_lib(c):
            return None if c.__name__ in ("Entity", "ABC", "object") else c.__name__
    return None


def _is_lib(cls):
    return (getattr(cls, "__module__", "") or "").startswith("happysimulator.")


def _public_stats(e):
    try:
        s = getattr(e, "stats", None)
    except Exception as ex:  # noqa: BLE001  (a stats property that raises is reported as such)
        return {"error": type(ex).__name__}
    if s is None or callable(s):
        return None
    if dataclasses.is_dataclass(s) or isinstance(s, dict):
        return jsonable(s)
    return None


def jsonable(x, depth=0):
    """Canonical JSON-able form: dataclass -> dict (identity/wall-clock fields dropped by name),
    Instant/Duration -> ns, enum -> name, sets -> sorted, entities -> their name, other objects -> type name."""
    if depth > 8:
        return "..."
    if x is None or isinstance(x, (bool, int, str)):
        return x
    if isinstance(x, float):
        return x
    if isinstance(x, enum.Enum):
        return x.name
    if dataclasses.is_dataclass(x) and not isinstance(x, type):
        return {f.name: jsonable(getattr(x, f.name, None), depth + 1) for f in dataclasses.fields(x)
                if f.name not in DROP_FIELDS and not f.name.startswith("_")}
    if hasattr(x, "nanoseconds") and isinstance(getattr(x, "nanoseconds", None), int):
        return {"ns": x.nanoseconds}
    if isinstance(x, dict):
        items = [(k if isinstance(k, str) else json.dumps(jsonable(k, depth + 1), sort_keys=True, default=str),
                  jsonable(v, depth + 1)) for k, v in x.items() if not (isinstance(k, str) and k in DROP_FIELDS)]
        return dict(sorted(items, key=lambda kv: kv[0]))
    if isinstance(x, (set, frozenset)):
        return sorted((jsonable(v, depth + 1) for v in x), key=lambda v: json.dumps(v, sort_keys=True, default=str))
    if isinstance(x, (list, tuple)):
        return [jsonable(v, depth + 1) for v in x]
    name = getattr(x, "name", None)
    if isinstance(name, str) and hasattr(x, "handle_event"):
        return f"<{name}>"
    return f"<{type(x).__name__}>"


def discover(sim, roots=()):
    """All Entity instances reachable from the simulation's registered components (attribute walk, breadth
    first; the result is only used as a *set*: statistics are keyed by class and name)."""
    seen, order, queue = set(), [], []

    def push(o, d):
        if isinstance(o, Entity):
            if id(o) not in seen:
                seen.add(id(o))
                order.append(o)
                queue.append(o)
        elif d < 3:
            if isinstance(o, dict):
                for v in list(o.values())[:64]:
                    push(v, d + 1)
            elif isinstance(o, (list, tuple, set, frozenset)):
                for v in list(o)[:64]:
                    push(v, d + 1)
            elif _is_lib(type(o)) and hasattr(o, "__dict__") and d < 2:
                for v in list(vars(o).values()):
                    push(v, d + 1)

    for attr in ("_entities", "_sources", "_probes"):
        for e in list(getattr(sim, attr, []) or []):
            push(e, 0)
    for e in roots:
        push(e, 0)
    while queue:
        e = queue.pop(0)
        try:
            vals = list(vars(e).values())
        except TypeError:
            continue
        for v in vals:
            push(v, 0)
    return order


def _aux_classes(entities):
    """Names of library (non-Entity) helper classes held by the entities: policies, strategies, distributions."""
    out = set()
    for e in entities:
        try:
            vals = list(vars(e).values())
        except TypeError:
            continue
        for v in vals:
            c = type(v)
            m = getattr(c, "__module__", "") or ""
            if m.startswith(("happysimulator.components.", "happysimulator.load.", "happysimulator.distributions.",
                             "happysimulator.sketching.")):
                out.add(c.__name__)
    return out


def K(case, n=8):
    k = case.get("k") if isinstance(case, dict) else None
    out = []
    for x in (k if isinstance(k, list) else []):
        out.append(int(x) if isinstance(x, (int, bool)) else 0)
    out = (out + [0] * n)[:n]
    return [abs(v) for v in out]


def xseed(case, i=0):
    """Explicit component seed: 0, 1 and the case seed are all legal values and all of them are generated."""
    return [0, 1, int(case.get("seed", 0) or 0)][i % 3]


def rng_of(case, salt=0):
    return _random.Random((int(case.get("seed", 0) or 0) * 1000003 + salt) & 0xFFFFFFFF)


def family(name, *traits):
    def deco(fn):
        SCENARIOS[name] = fn
        TRAITS[name] = set(traits)
        return fn
    return deco


def build(case):
    """Seed the module-level RNGs from the case and build the scenario of ``case['family']``."""
    fams = sorted(SCENARIOS)
    fam = case.get("family") if isinstance(case, dict) else None
    if fam not in SCENARIOS:
        fam = fams[K({"k": [len(str(fam))]})[0] % len(fams)]
    seed = case.get("seed", 0) if isinstance(case, dict) else 0
    seed = int(seed) if isinstance(seed, (int, bool)) else 0
    if "noglobalseed" not in TRAITS.get(fam, ()):
        seed_globals(abs(seed))      # families whose model is seeded explicitly throughout are built on whatever state the
    ORIGIN.clear()                   # module-level generators are in: they must not consume those streams at all
    c = {"family": fam, "seed": abs(seed), "k": K(case)}
    sc = SCENARIOS[fam](c)
    sc.family = fam
    return sc


# ----------------------------------------------------------------------------------------- glue entities
from happysimulator.core.entity import Entity  # noqa: E402
from happysimulator.core.event import Event  # noqa: E402
from happysimulator.core.simulation import Simulation  # noqa: E402
from happysimulator.core.temporal import Duration, Instant  # noqa: E402
from happysimulator.core.sim_future import SimFuture, all_of, any_of  # noqa: E402


class _Glue(Entity):
    """Base of the harness entities (never counted as library classes)."""


class Proc(_Glue):
    """Runs ``fn(self, event)`` (a plain function or a generator function) for every event."""

    def __init__(self, name, fn=None):
        super().__init__(name)
        self.fn = fn
        self.log = []
        self.events_received = 0

    def handle_event(self, event):
        self.events_received += 1
        if self.fn is None:
            return None
        return self.fn(self, event)


class Relay(_Glue):
    """Forwards every event to ``nxt`` at the current instant."""

    def __init__(self, name, nxt):
        super().__init__(name)
        self.nxt = nxt
        self.events_received = 0

    def handle_event(self, event):
        self.events_received += 1
        return [Event(time=self.now, event_type=event.event_type, target=self.nxt, context=event.context)]


class Replier(_Glue):
    """A backend that takes ``delay`` (float seconds > 0, or a function of the event) and then resolves
    ``context['reply_future']`` (if present and unresolved) and forwards to ``downstream`` (if given)."""

    def __init__(self, name, delay, downstream=None, value="ok"):
        super().__init__(name)
        self.delay, self.downstream, self.value = delay, downstream, value
        self.events_received = 0
        self.done = 0

    def handle_event(self, event):
        self.events_received += 1
        d = self.delay(event) if callable(self.delay) else self.delay
        yield d
        self.done += 1
        fut = event.context.get("reply_future") if isinstance(event.context, dict) else None
        if fut is not None and not fut.is_resolved:
            fut.resolve(self.value)
        if self.downstream is not None:
            return [Event(time=self.now, event_type=event.event_type, target=self.downstream, context=event.context)]
        return None


class Collector(_Glue):
    """Counts events by type."""

    def __init__(self, name="collector"):
        super().__init__(name)
        self.events_received = 0
        self.by_type = {}

    def handle_event(self, event):
        self.events_received += 1
        self.by_type[event.event_type] = self.by_type.get(event.event_type, 0) + 1
        return None


def T(n):
    """Instant at n ticks."""
    return Instant(int(n) * TICK)


def ev(t_ticks, target, etype="Request", daemon=False, **ctx):
    return Event(time=T(t_ticks), event_type=etype, target=target, context=dict(ctx), daemon=daemon)


def _fresh(e):
    """Re-create a plain pre-run Event *after* the Simulation was constructed.  ``Simulation.__init__`` resets the
    global tie-break counter, so an Event object created before the constructor carries an index that depends on
    what was built earlier in the process (see family ``prebuilt_events``, which keeps that usage on purpose);
    every other builder hands its initial events over in list order with post-construction indices."""
    if type(e) is not Event:
        return e
    f = Event(time=e.time, event_type=e.event_type, target=e.target, daemon=e.daemon, context=e.context,
              on_complete=list(e.on_complete))
    f.context["id"] = str(f._id)
    return f


def mksim(entities, end_ticks, sources=(), events=(), probes=(), keep_prebuilt=False):
    sim = Simulation(entities=list(entities), sources=list(sources), probes=list(probes), end_time=T(end_ticks))
    for e in events:
        sim.schedule(e if keep_prebuilt else _fresh(e))
    return sim


def from_lib(component, evs):
    """A harness worker that schedules events *created by a library call* (``return topic.subscribe(...)``,
    ``evs = yield from topic.publish(msg)``) registers their origin, so that C07 attributes a stale timestamp
    to the component that stamped the event and not to the worker that merely returned it."""
    if evs is None:
        return None
    lst = evs if isinstance(evs, list) else [evs]
    name = lib_class_name(component) or type(component).__name__
    for e in lst:
        ORIGIN[id(e)] = (name, e)          # keeps the event alive, so the id stays unique during the run
    return evs


def pick(seq, i):
    return seq[i % len(seq)]


# =========================================================================================== families
from happysimulator.components.common import Counter as HCounter, Sink  # noqa: E402
from happysimulator.distributions.constant import ConstantLatency  # noqa: E402
from happysimulator.distributions.exponential import ExponentialLatency  # noqa: E402
from happysimulator.load.source import SimpleEventProvider, Source  # noqa: E402

POLICY_NAMES = ["fifo", "lifo", "priority", "deadline", "fair", "wfq", "adaptive", "codel", "red", "balking"]


def mk_policy(idx, a, b, cap, holder):
    """Queue policy number ``idx`` for events whose context carries prio / dl (ticks) / flow.
    ``holder['e']`` must be set to an entity attached to the simulation (clock for CoDel / deadline)."""
    from happysimulator.components import queue_policies as qp
    from happysimulator.components.industrial.balking import BalkingQueue
    from happysimulator.components.queue_policy import FIFOQueue, LIFOQueue, PriorityQueue
    name = pick(POLICY_NAMES, idx)
    a, b = 1 + a % 4, 1 + b % 4
    inf = float("inf")
    c = cap if cap else inf
    cn = cap if cap else None
    clock = lambda: holder["e"].now  # noqa: E731
    prio = lambda e: e.context.get("prio", 0)  # noqa: E731
    flow = lambda e: f"f{e.context.get('flow', 0)}"  # noqa: E731
    if name == "fifo":
        return FIFOQueue(c)
    if name == "lifo":
        return LIFOQueue(c)
    if name == "priority":
        return PriorityQueue(c, key=prio)
    if name == "deadline":
        return qp.DeadlineQueue(get_deadline=lambda e: Instant(e.context.get("dl_ns", 0)), capacity=cn, clock_func=clock)
    if name == "fair":
        return qp.FairQueue(get_flow_id=flow, max_flows=None, per_flow_capacity=(b + 1 if cap else None))
    if name == "wfq":
        return qp.WeightedFairQueue(get_flow_id=flow, get_weight=lambda f: 1 + (int(f[1:]) * a) % 3, capacity=cn,
                                    per_flow_capacity=(b + 1 if cap else None))
    if name == "adaptive":
        return qp.AdaptiveLIFO(congestion_threshold=a, capacity=cn)
    if name == "codel":
        return qp.CoDelQueue(target_delay=ticks(a), interval=ticks(4 * b), capacity=cn, clock_func=clock)
    if name == "red":
        return qp.REDQueue(min_threshold=a, max_threshold=a + b + 1, max_probability=0.5,
                           capacity=(a + b + 2 + cap) if cap else None, weight=0.5)
    return BalkingQueue(FIFOQueue(c), balk_threshold=a + 1, balk_probability=[1.0, 0.5][b % 2])


def req_ctx(seed, dl_ticks=8):
    """context_fn for SimpleEventProvider: created_at / request_id plus prio, flow, deadline and a string key."""
    r = _random.Random(seed)

    def fn(time, count):
        return {"created_at": time, "request_id": count, "prio": r.randrange(4), "flow": r.randrange(3),
                "dl_ns": time.nanoseconds + (1 + r.randrange(dl_ticks)) * TICK, "key": f"key-{r.randrange(12)}",
                "metadata": {"processing_time": ticks(1 + r.randrange(4)), "weight": 1,
                             "client_id": f"client-{r.randrange(9)}", "payload_size": 100 * (1 + r.randrange(8))}}
    return fn


def const_source(name, target, every_ticks, stop_ticks, seed, etype="Request"):
    prov = SimpleEventProvider(target, etype, T(stop_ticks), context_fn=req_ctx(seed))
    return Source.constant(rate=512.0 / max(1, every_ticks), name=name, event_provider=prov)


def poisson_source(name, target, rate, stop_ticks, seed, etype="Request"):
    prov = SimpleEventProvider(target, etype, T(stop_ticks), context_fn=req_ctx(seed))
    return Source.poisson(rate=rate, name=name, event_provider=prov)


# ------------------------------------------------------------------------------ sources -> servers -> sinks
@family("pipeline_const", "strkeys")
def f_pipeline_const(case):
    from happysimulator.components.server.server import Server
    k = K(case)
    holder = {}
    sink = Sink("sink")
    cnt = HCounter("counter")
    tee = Proc("tee", lambda self, e: [Event(time=self.now, event_type=e.event_type, target=sink, context=e.context),
                                       Event(time=self.now, event_type="Count", target=cnt, context={})])
    s2 = Server("s2", concurrency=1 + k[4] % 2, service_time=ConstantLatency(ticks(1 + k[5] % 3)), downstream=tee)
    cap = [None, 2, 4][k[3] % 3]
    pol = mk_policy(k[0], k[1], k[2], cap or 0, holder)
    s1 = Server("s1", concurrency=1 + k[6] % 3, service_time=ConstantLatency(ticks(1 + k[7] % 5)),
                queue_policy=pol, downstream=s2)
    holder["e"] = s1
    n = 40
    every = 1 + k[1] % 3
    src = const_source("src", s1, every, n * every, case["seed"])
    src2 = const_source("src2", s1, every + 1, n * every, case["seed"] + 1)
    sim = mksim([s1, s2, tee, sink, cnt], n * every + 200, sources=[src, src2])
    return Scenario(sim, workload=2 * n)


@family("pipeline_poisson", "modrng")
def f_pipeline_poisson(case):
    from happysimulator.components.server.server import Server
    k = K(case)
    holder = {}
    sink = Sink("sink")
    pol = mk_policy(k[0], k[1], k[2], [0, 3, 6][k[3] % 3], holder)
    s1 = Server("s1", concurrency=1 + k[4] % 3, service_time=ExponentialLatency(ticks(1 + k[5] % 6)),
                queue_policy=pol, downstream=sink)
    holder["e"] = s1
    rate = 40.0 + 20 * (k[6] % 5)
    stop = 256
    a = poisson_source("pa", s1, rate, stop, case["seed"])
    b = poisson_source("pb", s1, rate / 2, stop, case["seed"] + 7)
    sim = mksim([s1, sink], stop + 300, sources=[a, b])
    return Scenario(sim, workload=int(rate * 1.5 * stop / 512) + 10)


class _Sine:
    """Smooth periodic rate profile (a Profile implementation: get_rate(Instant) -> float)."""

    def __init__(self, base, amp):
        self.base, self.amp = base, amp

    def get_rate(self, time):
        import math
        return self.base + self.amp * math.sin(time.to_seconds() * 2.0)


@family("pipeline_profile", "modrng")
def f_pipeline_profile(case):
    from happysimulator.components.server.concurrency import DynamicConcurrency, WeightedConcurrency
    from happysimulator.components.server.server import Server
    from happysimulator.load.profile import LinearRampProfile
    k = K(case)
    cnt = HCounter("counter")
    conc = [2, DynamicConcurrency(initial=2, min_limit=1, max_limit=4), WeightedConcurrency(total_capacity=3)][k[0] % 3]
    srv = Server("srv", concurrency=conc, service_time=ExponentialLatency(ticks(1 + k[1] % 4)),
                 queue_capacity=[None, 5][k[2] % 2], downstream=cnt)
    # NOTE the library integrates the profile with adaptive Simpson at tol 1e-10 while Instant.from_seconds
    # quantises the argument to 1 ns: a profile whose slope exceeds a few units/s^2 (or any step, e.g. SpikeProfile
    # inside the horizon) makes next_arrival_time() recurse 2^50 deep (minutes of wall time, not a simulated-time
    # issue), so the generated profiles are smooth with slope <= 4/s.
    if k[3] % 2:
        r0 = 90.0 + k[4] % 30
        prof = LinearRampProfile(duration_s=2.0, start_rate=r0, end_rate=r0 + 2 + k[5] % 6)
    else:
        prof = _Sine(90.0 + k[4] % 40, 1.0 + (k[5] % 3) * 0.5)
    stop = 320
    src = Source.with_profile(prof, poisson=bool(k[6] % 2), name="prof",
                              event_provider=SimpleEventProvider(srv, "Request", T(stop), context_fn=req_ctx(case["seed"])))
    sim = mksim([srv, cnt], stop + 200, sources=[src])
    return Scenario(sim, workload=100)


@family("queue_driver_worker", "strkeys")
def f_queue_driver_worker(case):
    """Explicit Queue + QueueDriver + worker entity (the composition QueuedResource hides), every policy."""
    from happysimulator.components.queue import Queue
    from happysimulator.components.queue_driver import QueueDriver
    k = K(case)
    holder = {}
    sink = Sink("sink")
    limit = 1 + k[3] % 2

    class Worker(_Glue):
        def __init__(self, name):
            super().__init__(name)
            self.busy = 0
            self.events_received = 0

        def has_capacity(self):
            return self.busy < limit

        def handle_event(self, event):
            self.events_received += 1
            self.busy += 1
            yield event.context.get("metadata", {}).get("processing_time", ticks(1))
            self.busy -= 1
            return [Event(time=self.now, event_type="Done", target=sink, context=event.context)]
    w = Worker("worker")
    q = Queue(name="q", policy=mk_policy(k[0], k[1], k[2], [0, 3][k[4] % 2], holder))
    d = QueueDriver(name="drv", queue=q, target=w)
    q.egress = d
    holder["e"] = q
    n = 40
    src = const_source("src", q, 1 + k[5] % 2, n, case["seed"])
    src2 = poisson_source("src2", q, 100.0, n, case["seed"] + 3)
    sim = mksim([q, d, w, sink], n + 250, sources=[src, src2])
    return Scenario(sim, workload=2 * n)


@family("thread_pool", "strkeys")
def f_thread_pool(case):
    from happysimulator.components.server.thread_pool import ThreadPool
    k = K(case)
    holder = {}
    pool = ThreadPool("pool", num_workers=1 + k[0] % 3, queue_policy=mk_policy(k[1], k[2], k[3], 0, holder),
                      default_processing_time=ticks(1 + k[4] % 3))
    holder["e"] = pool
    pool2 = ThreadPool("pool2", num_workers=1 + k[6] % 2, queue_capacity=[0, 1, 3][k[7] % 3],
                       processing_time_extractor=lambda e: ticks(1 + e.context.get("prio", 0)))
    n = 40
    src = const_source("src", pool, 1 + k[5] % 2, n, case["seed"])
    src2 = const_source("src2", pool2, 1, n, case["seed"] + 1)
    src3 = poisson_source("src3", pool, 80.0, n, case["seed"] + 2)
    sim = mksim([pool, pool2], n + 250, sources=[src, src2, src3])
    return Scenario(sim, workload=3 * n)


@family("async_server", "modrng")
def f_async_server(case):
    from happysimulator.components.server.async_server import AsyncServer
    k = K(case)
    sink = Sink("sink")

    def io(event):
        yield ticks(1 + event.context.get("prio", 0))
        return [Event(time=srv.now, event_type="Done", target=sink, context=event.context)]
    io_list = lambda event: [Event(time=srv.now, event_type="Done", target=sink, context=event.context)]   # noqa: E731
    io_one = lambda event: Event(time=srv.now, event_type="Done", target=sink, context=event.context)      # noqa: E731
    handler = [None, io, io, io_list, io_one, (lambda event: None)][k[3] % 6]       # every documented handler shape
    srv = AsyncServer("async", max_connections=[2 + k[0] % 6, 10000][k[4] % 2], cpu_work_distribution=[ConstantLatency(ticks(1 + k[1] % 2)), ExponentialLatency(ticks(1)), None][k[2] % 3],
                      io_handler=handler)
    n = 50
    src = const_source("src", srv, 1, n, case["seed"])
    src2 = poisson_source("src2", srv, 150.0, n, case["seed"] + 5)
    sim = mksim([srv, sink], n + 200, sources=[src, src2])
    return Scenario(sim, workload=2 * n)


# ------------------------------------------------------------------------------ industrial
@family("industrial_line", "modrng")
def f_industrial_line(case):
    from happysimulator.components import industrial as ind
    k = K(case)
    good, bad_a, bad_b, other = Sink("good"), Sink("scrap_a"), Sink("scrap_b"), Sink("other")
    router = ind.ConditionalRouter.by_context_field("router", "flow", {0: bad_a, 1: bad_b}, default=other)
    pooled = ind.PooledCycleResource("pooled", pool_size=1 + k[0] % 3, cycle_time=ticks(1 + k[1] % 4), downstream=good,
                                     queue_capacity=[0, 2, 6][k[2] % 3])
    batch = ind.BatchProcessor("batch", pooled, batch_size=1 + k[3] % 5, process_time=ticks([0, 1 + k[4] % 3, 9][k[4] % 3]),
                               timeout_s=[0.0, ticks(1), ticks(3), ticks(7)][k[5] % 4])
    holder = {}
    insp = ind.InspectionStation("inspect", pass_target=batch, fail_target=router, inspection_time=ticks(1 + k[6] % 2),
                                 pass_rate=[1.0, 0.95, 0.7, 0.5, 0.0][k[7] % 5], policy=[None, mk_policy(k[5], k[6], k[7], 3, holder)][k[6] % 2])
    holder["e"] = insp
    belt = ind.ConveyorBelt("belt", insp, transit_time=ticks(1 + k[1] % 5), capacity=[0, 3][k[0] % 2])
    appts = ind.AppointmentScheduler("appts", belt, [ticks(2 * i + 1) for i in range(20)], no_show_rate=[0.0, 0.3][k[2] % 2])
    n = 40
    src = const_source("src", belt, 1 + k[3] % 2, n, case["seed"])
    src2 = poisson_source("walkin", belt, 90.0, n, case["seed"] + 11)
    sim = mksim([belt, insp, batch, pooled, router, appts, good, bad_a, bad_b, other], n + 300, sources=[src, src2],
                events=appts.start_events())
    return Scenario(sim, workload=2 * n + 20)


@family("industrial_gate_shift", "modrng")
def f_industrial_gate_shift(case):
    from happysimulator.components import industrial as ind
    k = K(case)
    sink = Sink("sink")
    shifts, t0 = [], 0
    for i in range(4):
        ln = 4 + (k[i] % 12)
        shifts.append(ind.Shift(ticks(t0), ticks(t0 + ln), (k[(i + 1) % 8] + i) % 3))
        t0 += ln + (k[i + 4] % 3) * 2
    holder = {}
    srv = ind.ShiftedServer("shifted", ind.ShiftSchedule(shifts, default_capacity=k[7] % 2), service_time=ticks([1 + k[6] % 3, 14][k[6] % 4 == 0]),
                            downstream=sink, policy=[None, mk_policy(k[1], k[2], k[3], 4, holder)][k[0] % 2])
    holder["e"] = srv
    gate = ind.GateController("gate", srv, schedule=[(ticks(10 + k[0] % 5), ticks(30 + k[1] % 9)), (ticks(50), ticks(70 + k[2] % 9))],
                              initially_open=bool(k[3] % 2), queue_capacity=[0, 4][k[4] % 2])
    brk = ind.BreakdownScheduler("breakdown", srv, mean_time_to_failure=ticks([2, 20 + k[5] % 20][k[5] % 3 > 0]), mean_repair_time=ticks([3 + k[6] % 5, 40][k[6] % 3 == 0]))
    n = 60
    src = const_source("src", gate, 1 + k[5] % 2, n, case["seed"])
    src2 = poisson_source("src2", gate, 100.0, n, case["seed"] + 1)
    sim = mksim([gate, srv, brk, sink], n + 250, sources=[src, src2], events=gate.start_events() + [brk.start_event()])
    return Scenario(sim, workload=2 * n)


@family("industrial_inventory", "modrng")
def f_industrial_inventory(case):
    from happysimulator.components import industrial as ind
    k = K(case)
    ful, out, waste, sup = Sink("fulfilled"), Sink("stockout"), Sink("waste"), Sink("supplier")
    rnd = rng_of(case, 92)
    opt = lambda x: x if rnd.randrange(3) else None      # noqa: E731  (optional collaborators present / absent)
    inv = ind.InventoryBuffer("inv", initial_stock=[0, 3 + k[0] % 10][rnd.randrange(4) > 0], reorder_point=k[1] % 5, order_quantity=1 + k[2] % 9,
                              lead_time=ticks(rnd.choice([1, 2 + k[3] % 10, 40])), supplier=opt(sup), downstream=opt(ful), stockout_target=opt(out))
    sweep = ticks(3 + k[6] % 6)
    per = ind.PerishableInventory("perish", initial_stock=[0, 3 + k[4] % 10][rnd.randrange(4) > 0], shelf_life_s=sweep * rnd.choice([0.5, 1.0, 2.5, 8.0]),
                                  spoilage_check_interval_s=sweep, reorder_point=k[1] % 5,
                                  order_quantity=1 + k[2] % 9, lead_time=ticks(rnd.choice([1, 2 + k[7] % 10, 40])), downstream=opt(ful), waste_target=opt(waste),
                                  initial_stock_time=rnd.choice([None, 0.0]))
    n = 60
    a = const_source("ca", inv, 1 + k[0] % 3, n, case["seed"], etype="Consume")
    b = poisson_source("cb", per, 120.0, n, case["seed"] + 2, etype="Consume")
    c = poisson_source("cc", inv, 60.0, n, case["seed"] + 3, etype="Consume")
    sim = mksim([inv, per, ful, out, waste, sup], n + 200, sources=[a, b, c], events=[per.start_event()])
    return Scenario(sim, workload=3 * n)


@family("industrial_split_preempt", "strkeys")
def f_industrial_split_preempt(case):
    from happysimulator.components import industrial as ind
    k = K(case)
    merged, reneged, served = Sink("merged"), Sink("reneged"), Sink("served")
    workers = [Replier(f"w{i}", ticks(1 + (k[i] + i) % 5), value=f"r{i}") for i in range(2 + k[3] % 2)]
    sm = ind.SplitMerge("split", workers, merged)
    res = ind.PreemptibleResource("machine", capacity=1 + k[4] % 2)

    def user(self, e):
        pr = float(e.context.get("prio", 0))
        hit = []
        g = yield res.acquire(1, priority=pr, preempt=bool(k[5] % 2), on_preempt=lambda: hit.append(1))
        yield ticks(1 + k[6] % 4)
        if not g.preempted:
            g.release()
        self.log.append((pr, bool(hit)))
    users = [Proc(f"user{i}", user) for i in range(3)]

    class Teller(ind.RenegingQueuedResource):
        def _handle_served_event(self, event):
            yield ticks(1 + k[7] % 4)
            return [Event(time=self.now, event_type="Served", target=served, context=event.context)]
    teller = Teller("teller", reneged_target=reneged, default_patience_s=ticks(2 + k[0] % 6))
    n = 30
    srcs = [const_source("s_split", sm, 2, n, case["seed"]), poisson_source("s_tell", teller, 150.0, n, case["seed"] + 1)]
    srcs += [const_source(f"s_u{i}", u, 2 + i, n, case["seed"] + 2 + i) for i, u in enumerate(users)]
    sim = mksim([sm, res, teller, merged, reneged, served] + workers + users, n + 200, sources=srcs)
    return Scenario(sim, workload=5 * n, extra=lambda: {"users": [u.log for u in users]})


# ------------------------------------------------------------------------------ rate limiting
def mk_rl_policy(idx, a, b, decimal=False):
    """Rate-limiter policy number ``idx``; ``decimal`` selects window sizes / rates that are not dyadic (0.1 s,
    0.05 s ...), where arrivals fall exactly on window boundaries that floats cannot represent."""
    from happysimulator.components.rate_limiter import policy as rp
    a, b = a % 8, b % 8
    i = idx % 5
    if decimal:
        w = [0.1, 0.05, 0.025, 0.2][a % 4]
        if i == 0:
            return rp.TokenBucketPolicy(capacity=float(1 + a % 3), refill_rate=[10.0, 30.0, 70.0][b % 3], initial_tokens=0.0)
        if i == 1:
            return rp.LeakyBucketPolicy(leak_rate=[10.0, 30.0, 70.0][b % 3])
        if i == 2:
            return rp.SlidingWindowPolicy(window_size_seconds=w, max_requests=1 + b % 3)
        if i == 3:
            return rp.FixedWindowPolicy(requests_per_window=1 + b % 3, window_size=w)
        return rp.AdaptivePolicy(initial_rate=30.0 + 10 * a, min_rate=5.0, max_rate=200.0, window_size=w)
    if i == 0:
        return rp.TokenBucketPolicy(capacity=float(1 + a % 4), refill_rate=64.0 + 32 * b, initial_tokens=float(a % 2))
    if i == 1:
        return rp.LeakyBucketPolicy(leak_rate=64.0 + 32 * b)
    if i == 2:
        return rp.SlidingWindowPolicy(window_size_seconds=ticks(4 + 2 * a), max_requests=1 + b % 4)
    if i == 3:
        return rp.FixedWindowPolicy(requests_per_window=1 + b % 4, window_size=ticks(4 + 2 * a))
    return rp.AdaptivePolicy(initial_rate=100.0 + 20 * a, min_rate=20.0, max_rate=400.0, window_size=ticks(8 + 4 * b))


@family("rate_limited_entity", "strkeys")
def f_rate_limited_entity(case):
    from happysimulator.components.rate_limiter import NullRateLimiter, RateLimitedEntity
    from happysimulator.components.server.server import Server
    k = K(case)
    sink = Sink("sink")
    srv = Server("srv", concurrency=2, service_time=ConstantLatency(ticks(1 + k[3] % 3)), downstream=sink)
    dec = bool(k[6] % 2)
    rl = RateLimitedEntity("limiter", srv, mk_rl_policy(k[0], k[1], k[2], decimal=dec), queue_capacity=[1000, 5, 1][k[4] % 3])
    null = NullRateLimiter("null", rl)
    n = 50
    if dec:      # arrivals every 25 ms / 50 ms: they hit the decimal window boundaries exactly
        a = Source.constant(rate=[40.0, 20.0][k[5] % 2], name="a", event_provider=SimpleEventProvider(rl, "Request", T(n * 4), context_fn=req_ctx(case["seed"])))
        b = Source.constant(rate=40.0, name="b", event_provider=SimpleEventProvider(null, "Request", T(n * 4), context_fn=req_ctx(case["seed"] + 1)))
        sim = mksim([rl, null, srv, sink], n * 4 + 600, sources=[a, b])
        return Scenario(sim, workload=2 * n)
    a = const_source("a", rl, 1 + k[5] % 2, n, case["seed"])
    b = poisson_source("b", null, 120.0, n, case["seed"] + 1)
    sim = mksim([rl, null, srv, sink], n + 400, sources=[a, b])
    return Scenario(sim, workload=2 * n)


@family("inductor", "modrng")
def f_inductor(case):
    from happysimulator.components.rate_limiter import Inductor
    from happysimulator.components.server.server import Server
    k = K(case)
    sink = Sink("sink")
    srv = Server("srv", concurrency=2, service_time=ConstantLatency(ticks(1 + k[1] % 3)), downstream=sink)
    ind = Inductor("inductor", srv, time_constant=[ticks(4 + k[0] % 40), ticks(1) / 64, 2.0][k[0] % 3], queue_capacity=[10000, 6, 1][k[2] % 3])
    n = 60
    a = const_source("a", ind, 2 + k[3] % 3, n, case["seed"])
    burst = poisson_source("burst", ind, 200.0 + 50 * (k[4] % 4), n // 2, case["seed"] + 1)
    evs = []
    if k[5] % 2:      # same-instant bursts and microsecond gaps (several clients firing together)
        for j in range(4):
            t0 = (9 * j) * TICK          # the first group precedes every source arrival
            for d in (0, 0, 1000 * (1 + k[6] % 3), 1000 * (1 + k[6] % 3)):
                evs.append(Event(time=Instant(t0 + d), event_type="Request", target=ind, context={"created_at": Instant(t0 + d), "prio": 0}))
    sim = mksim([ind, srv, sink], n + 400, sources=[a, burst], events=evs)
    return Scenario(sim, workload=2 * n + len(evs))


@family("distributed_rate_limiter", "strkeys")
def f_distributed_rate_limiter(case):
    from happysimulator.components.datastore import KVStore
    from happysimulator.components.rate_limiter import DistributedRateLimiter
    k = K(case)
    sink = Sink("sink")
    redis = KVStore("redis", read_latency=ticks(1 + k[0] % 3), write_latency=ticks(1 + k[1] % 3))
    lims = [DistributedRateLimiter(f"lim{i}", sink, redis, global_limit=2 + k[2] % 8, window_size=ticks(8 + 4 * (k[3] % 6)),
                                   local_threshold=[0.8, 0.5][k[4] % 2]) for i in range(2 + k[5] % 2)]
    n = 40
    srcs = [const_source(f"s{i}", lim, 1 + (k[6] + i) % 3, n, case["seed"] + i) for i, lim in enumerate(lims)]
    srcs.append(poisson_source("p", lims[0], 100.0, n, case["seed"] + 9))
    sim = mksim(lims + [redis, sink], n + 200, sources=srcs)
    return Scenario(sim, workload=len(srcs) * n)


# ------------------------------------------------------------------------------ network
def symmetric_jitter(width_s, seed):
    """Zero-mean jitter, uniform in [-width, +width] from its own seeded generator: samples can be negative and, with a
    width above the base latency, push the sum below zero -- NetworkLink documents that it clamps the total delay."""
    from happysimulator.distributions.latency_distribution import LatencyDistribution

    class _Sym(LatencyDistribution):
        def __init__(self):
            super().__init__(0.0)
            self._r = _random.Random(seed)

        def get_latency(self, current_time=None):
            return Duration.from_seconds(self._mean_latency + self._r.uniform(-width_s, width_s))
    return _Sym()


def mk_link(name, idx, a, b):
    from happysimulator.components.network import conditions as nc
    from happysimulator.components.network.link import NetworkLink
    i = idx % 8
    if i == 6:       # symmetric jitter wider than the base latency (+ transmission time)
        return NetworkLink(name, latency=ConstantLatency(ticks(1 + a % 3)), jitter=symmetric_jitter(ticks(2 + a % 3 + b % 4), 1000 * a + b),
                           bandwidth_bps=[None, 1_000_000.0][b % 2])
    if i == 7:       # a constant jitter shifted below zero with the documented `dist - seconds` arithmetic
        return NetworkLink(name, latency=ConstantLatency(ticks(1 + a % 3)), jitter=ConstantLatency(ticks(1)) - ticks(2 + a % 3 + b % 4),
                           packet_loss_rate=[0.0, 0.1][b % 2])
    if i == 0:
        return NetworkLink(name, latency=ConstantLatency(ticks(1 + a % 5)))
    if i == 1:
        return NetworkLink(name, latency=ConstantLatency(ticks(1 + a % 5)), jitter=ExponentialLatency(ticks(1 + b % 3)),
                           packet_loss_rate=[0.0, 0.1, 0.3][b % 3], bandwidth_bps=1_000_000.0)
    if i == 2:
        return nc.lossy_network([0.05, 0.2, 0.5][a % 3], name=name, base_latency=ticks(1 + b % 4))
    if i == 3:
        return nc.slow_network(ticks(3 + a % 8), name=name)
    if i == 4:
        return nc.local_network(name)
    return nc.datacenter_network(name)


@family("network_pingpong", "modrng", "strkeys")
def f_network_pingpong(case):
    from happysimulator.components.network.network import Network
    k = K(case)
    net = Network("net", default_link=mk_link("default", k[7], k[0], k[1]) if k[6] % 2 else None)
    nodes = []

    def node_fn(self, e):
        md = e.context.get("metadata", {})
        if e.event_type == "Kick":
            peers = [p for p in nodes if p is not self]
            dst = peers[(md.get("i", 0) + self.events_received) % len(peers)]
            return [net.send(self, dst, "Ping", payload={"hops": 2 + k[5] % 3, "payload_size": 200})]
        if e.event_type in ("Ping", "Pong"):
            self.log.append((e.event_type, md.get("source")))
            hops = md.get("hops", 0)
            if hops > 0:
                src = next((p for p in nodes if p.name == md.get("source")), None)
                if src is not None:
                    return [net.send(self, src, "Pong" if e.event_type == "Ping" else "Ping", payload={"hops": hops - 1})]
        return None
    nodes += [Proc(f"n{i}", node_fn) for i in range(3 + k[4] % 2)]
    for i, a in enumerate(nodes):
        for j, b in enumerate(nodes):
            if i < j and (i + j + k[3]) % 4 != 0:
                net.add_bidirectional_link(a, b, mk_link(f"l{i}{j}", k[(i + j) % 3] + i, k[0] + j, k[1] + i))
            elif i < j and not k[6] % 2:
                net.add_link(a, b, mk_link(f"l{i}{j}", 0, k[2], 0))
                net.add_link(b, a, mk_link(f"l{j}{i}", 0, k[2] + 1, 0))
    evs = []
    n = 40
    for t in range(n):
        evs.append(Event(time=T(1 + 2 * t), event_type="Kick", target=nodes[t % len(nodes)], context={"metadata": {"i": t}}))
    held = {}
    evs.append(Event.once(T(20 + k[2] % 10), "Partition",
                          lambda e: held.setdefault("p", net.partition(nodes[:1], nodes[1:], asymmetric=bool(k[3] % 2))) and None))
    evs.append(Event.once(T(45 + k[2] % 10), "Heal", lambda e: held["p"].heal() if "p" in held else None))
    sim = mksim([net] + nodes, 2 * n + 200, events=evs)
    return Scenario(sim, workload=n, extra=lambda: {"matrix": net.traffic_matrix(), "routed": net.events_routed,
                                                      "dropped_partition": net.events_dropped_partition,
                                                      "dropped_no_route": net.events_dropped_no_route,
                                                      "logs": [p.log for p in nodes]})


@family("network_link_pipeline", "modrng")
def f_network_link_pipeline(case):
    from happysimulator.components.random_router import RandomRouter
    from happysimulator.components.server.server import Server
    k = K(case)
    sink = Sink("sink")
    srvs = [Server(f"srv{i}", concurrency=1 + i, service_time=ConstantLatency(ticks(1 + (k[i] % 3))), downstream=sink) for i in range(2)]
    links = [mk_link(f"wire{i}", k[2 + i], k[4], k[5]) for i in range(2)]
    for l, s in zip(links, srvs):
        l.egress = s
    router = RandomRouter("router", targets=links)
    n = 50
    a = const_source("a", router, 1 + k[6] % 2, n, case["seed"])
    b = poisson_source("b", links[0], 100.0, n, case["seed"] + 1)
    sim = mksim([router, sink] + links + srvs, n + 300, sources=[a, b])
    return Scenario(sim, workload=2 * n, extra=lambda: {l.name: l.link_stats for l in links})


# ------------------------------------------------------------------------------ load balancing
LB_STRATEGIES = ["RoundRobin", "WeightedRoundRobin", "Random", "LeastConnections", "WeightedLeastConnections",
                 "LeastResponseTime", "IPHash", "ConsistentHash", "PowerOfTwoChoices"]


@family("load_balancer", "hashroute", "strkeys", "modrng")
def f_load_balancer(case):
    from happysimulator.components.load_balancer import strategies as ls
    from happysimulator.components.load_balancer.health_check import HealthChecker
    from happysimulator.components.load_balancer.load_balancer import LoadBalancer
    from happysimulator.components.server.server import Server
    k = K(case)
    sink = Sink("sink")
    name = pick(LB_STRATEGIES, k[0])
    if name == "ConsistentHash":
        strat = ls.ConsistentHash(virtual_nodes=1 + k[1] % 20)
    elif name == "LeastResponseTime":
        strat = ls.LeastResponseTime(alpha=[0.3, 0.8][k[1] % 2])
    else:
        strat = getattr(ls, name)()
    nb = 2 + k[2] % 3
    rnd = rng_of(case, 91)
    fleet = rnd.choice(["mixed", "mixed", "all_slow", "recovering", "manual"])     # health of the fleet over time
    mode = rnd.choice(["reject", "queue"])                                         # every accepted on_no_backend value
    h_timeout = ticks(3 + k[1] % 5)
    evs = []
    if fleet in ("mixed", "manual"):
        backends = [Server(f"be{i}", concurrency=1 + (k[3] + i) % 2, service_time=ExponentialLatency(ticks(1 + (k[4] + i) % 4)),
                           downstream=sink) for i in range(nb)]
        slow = [Replier("be_slow", ticks(12 + k[5] % 20), downstream=sink)]
    elif fleet == "all_slow":          # every probe times out: the whole fleet is marked unhealthy
        backends = [Replier(f"be{i}", ticks(9 + (k[4] + 3 * i) % 12), downstream=sink) for i in range(nb)]
        slow = []
    else:                              # slow until tick 50, fast afterwards: unhealthy, then recovering
        holder = {}
        backends = [Replier(f"be{i}", (lambda e, i=i: ticks(9 + i) if holder["lb"].now.nanoseconds < 50 * TICK else ticks(1 + i % 2)),
                            downstream=sink) for i in range(nb)]
        slow = []
    members = backends + slow
    if rnd.randrange(2):
        lb = LoadBalancer("lb", backends=list(members), strategy=strat, on_no_backend=mode)
        for i, b in enumerate(members):
            lb.add_backend(b, weight=1 + (k[6] + i) % 3)       # documented: updates the weight of a registered backend
    else:
        lb = LoadBalancer("lb", strategy=strat, on_no_backend=mode)
        for i, b in enumerate(members):
            lb.add_backend(b, weight=1 + (k[6] + i) % 3)
    if fleet == "recovering":
        holder["lb"] = lb
    hc = HealthChecker("hc", lb, interval=ticks(8 + k[7] % 8), timeout=h_timeout, healthy_threshold=1 + k[2] % 2,
                       unhealthy_threshold=1 + k[3] % 2, check_event_type=rnd.choice(["health_check", "ping"]))
    if fleet == "manual":              # an operator drains the whole fleet and brings it back
        evs.append(Event.once(T(20 + k[5] % 10), "Drain", lambda e: [lb.mark_unhealthy(b) for b in lb.all_backends] and None))
        evs.append(Event.once(T(60 + k[5] % 10), "Restore", lambda e: [lb.mark_healthy(b) for b in lb.all_backends] and None))
        evs.append(Event.once(T(80), "Remove", lambda e: lb.remove_backend(members[-1]) and None))
    n = 36
    a = const_source("a", lb, 1 + k[4] % 2, n, case["seed"])
    b = poisson_source("b", lb, 120.0, n, case["seed"] + 1)
    sim = mksim([lb, hc, sink] + members, n + 200, sources=[a, b], events=evs)
    if fleet != "manual" or rnd.randrange(2):
        sim.schedule(hc.start())
    return Scenario(sim, workload=2 * n, extra=lambda: {"healthy": sorted(b.name for b in lb.healthy_backends),
                                                          "per_backend": {b.name: lb.get_backend_info(b).total_requests for b in lb.all_backends}},
                    variant=f"{mode}-{fleet}")


# ------------------------------------------------------------------------------ clients
def mk_retry(idx, a, b):
    from happysimulator.components.client import retry as rt
    i = idx % 4
    if i == 0:
        return rt.NoRetry()
    if i == 1:
        return rt.FixedRetry(max_attempts=2 + a % 3, delay=ticks(1 + b % 4))
    if i == 2:
        return rt.ExponentialBackoff(max_attempts=2 + a % 3, initial_delay=ticks(1 + b % 3), max_delay=ticks(16),
                                     multiplier=2.0, jitter=[0.0, 0.5][a % 2])
    return rt.DecorrelatedJitter(max_attempts=2 + a % 3, base_delay=ticks(1 + b % 3), max_delay=ticks(16))


@family("client_retry", "modrng")
def f_client_retry(case):
    from happysimulator.components.client.client import Client
    from happysimulator.components.server.server import Server
    k = K(case)
    outcomes = Collector("outcomes")
    rnd = rng_of(case, 3)
    backend = Replier("backend", lambda e: ticks(1 + rnd.randrange(2 + k[0] % 10)))
    srv = Server("srv", concurrency=1, service_time=ConstantLatency(ticks(1 + k[1] % 4)))
    counts = {"ok": 0, "fail": 0}
    ok = lambda req, resp: counts.__setitem__("ok", counts["ok"] + 1)  # noqa: E731
    fail = lambda req, why: counts.__setitem__("fail", counts["fail"] + 1)  # noqa: E731
    c1 = Client("c1", backend, timeout=ticks([1, 2 + k[2] % 6, 40][k[2] % 3]), retry_policy=[mk_retry(k[3], k[4], k[5]), None][k[3] % 5 == 4],
                on_success=[ok, None][k[4] % 3 == 0], on_failure=[fail, None][k[5] % 3 == 0])
    c2 = Client("c2", srv, timeout=[None, ticks(1), ticks(3 + k[6] % 5)][k[7] % 3], retry_policy=mk_retry(k[3] + 1, k[5], k[4]),
                on_success=ok, on_failure=fail)
    users = [Proc(f"user{i}", (lambda c: lambda self, e: [c.send_request(payload={"n": self.events_received}, event_type="GetUser")])(c))
             for i, c in enumerate([c1, c2, c1])]
    n = 36
    srcs = [const_source(f"s{i}", u, 1 + (k[i] % 3), n, case["seed"] + i, etype="Go") for i, u in enumerate(users)]
    sim = mksim([c1, c2, backend, srv, outcomes] + users, n + 300, sources=srcs)
    return Scenario(sim, workload=3 * n, extra=lambda: dict(counts))


@family("pooled_client", "modrng")
def f_pooled_client(case):
    from happysimulator.components.client.connection_pool import ConnectionPool
    from happysimulator.components.client.pooled_client import PooledClient
    k = K(case)
    rnd = rng_of(case, 5)
    backend = Replier("backend", lambda e: ticks(1 + rnd.randrange(1 + k[0] % 6)))
    maxc = 1 + k[2] % 3
    cb_log = []
    pool = ConnectionPool("pool", backend, min_connections=[0, 1, maxc][k[1] % 3], max_connections=maxc,
                          connection_timeout=ticks([2, 10 + k[3] % 30][k[3] % 2]), idle_timeout=ticks([1, 2 + k[4] % 12][k[4] % 3 > 0]),
                          connection_latency=[None, ConstantLatency(ticks(1 + k[5] % 3)), ExponentialLatency(ticks(2))][k[5] % 3],
                          on_acquire=[None, lambda c: cb_log.append("acq")][k[0] % 2], on_release=[None, lambda c: cb_log.append("rel")][k[1] % 2],
                          on_timeout=[None, lambda: cb_log.append("timeout")][k[2] % 2])
    counts = {"ok": 0, "fail": 0}
    pc = PooledClient("pc", pool, timeout=[None, ticks(1), ticks(3 + k[6] % 8)][k[6] % 3], retry_policy=mk_retry(k[7], k[0], k[1]),
                      on_success=[None, lambda req, resp: counts.__setitem__("ok", counts["ok"] + 1)][k[4] % 2],
                      on_failure=[None, lambda req, why: counts.__setitem__("fail", counts["fail"] + 1)][k[5] % 2])

    def direct(self, e):
        try:
            conn = yield from pool.acquire()
        except TimeoutError:
            self.log.append("timeout")
            return None
        yield ticks(1 + k[0] % 3)
        self.log.append("used")
        return pool.release(conn)
    users = [Proc("u_pc", lambda self, e: [pc.send_request(payload=self.events_received, event_type="Query")]),
             Proc("u_direct", direct), Proc("u_direct2", direct)]
    n = 24
    srcs = [const_source(f"s{i}", u, 1 + (k[i + 2] % 3), n, case["seed"] + i, etype="Go") for i, u in enumerate(users)]
    sim = mksim([pc, pool, backend] + users, n + 300, sources=srcs,
                events=[Event.once(T(n + 250), "Teardown", lambda e: pool.close_all())] if k[7] % 2 else [])
    if k[1] % 3 and k[3] % 4 != 3:
        sim.schedule(pool.warmup())
    return Scenario(sim, workload=3 * n, extra=lambda: {"direct": [u.log for u in users[1:]], "cb": len(cb_log), **counts})


# ------------------------------------------------------------------------------ resilience wrappers
@family("resilience_chain", "modrng")
def f_resilience_chain(case):
    """source -> Fallback(primary = Timeout(CircuitBreaker(Bulkhead(backend))), fallback = backend2); Hedge beside it."""
    from happysimulator.components import resilience as rs
    k = K(case)
    rnd = rng_of(case, 7)
    backend = Replier("backend", lambda e: ticks(1 + rnd.randrange(1 + k[0] % 12)))
    backend2 = Replier("backend2", ticks(1 + k[1] % 3))
    missed = Collector("missed")
    changes = []
    bh = rs.Bulkhead("bulkhead", backend, max_concurrent=1 + k[2] % 3, max_wait_queue=k[3] % 4,
                     max_wait_time=[None, ticks(1), ticks(2 + k[4] % 6)][k[4] % 3])
    cb = rs.CircuitBreaker("breaker", bh, failure_threshold=1 + k[5] % 3, success_threshold=1 + k[6] % 2, timeout=ticks([1, 6 + k[7] % 20][k[7] % 2]),
                           half_open_max_requests=1 + k[0] % 2, failure_predicate=[None, lambda e: e.context.get("prio", 0) == 3][k[0] % 3 > 0],
                           on_state_change=[None, lambda a, b: changes.append((a.name, b.name))][k[1] % 2])
    tw = rs.TimeoutWrapper("timeout", cb, timeout=ticks([1, 2 + k[1] % 8, 30][k[1] % 3]),
                           on_timeout=[None, lambda e: Event(time=tw.now, event_type="TimedOut", target=missed, context=e.context),
                                       lambda e: None][k[2] % 3])
    fallbacks = [backend2, (lambda e: None), (lambda e: Event(time=fb.now, event_type="Degraded", target=missed, context=e.context))]
    fb = rs.Fallback("fallback", tw, fallbacks[k[2] % 3], timeout=[None, ticks(1), ticks(3 + k[3] % 6)][k[5] % 3],
                     failure_predicate=[None, lambda e: e.context.get("prio", 0) == 2][k[3] % 2])
    hedged = Replier("hedged_backend", lambda e: ticks(1 + rnd.randrange(1 + k[4] % 10)))
    hg = rs.Hedge("hedge", hedged, hedge_delay=ticks([1, 1 + k[6] % 5, 20][k[6] % 3]), max_hedges=1 + k[7] % 3)
    n = 40
    srcs = [const_source("a", fb, 1 + k[0] % 2, n, case["seed"]), poisson_source("b", fb, 150.0, n, case["seed"] + 1),
            const_source("c", hg, 1 + k[1] % 3, n, case["seed"] + 2), poisson_source("d", bh, 80.0, n, case["seed"] + 3)]
    ops = [Event.once(T(30 + k[0] % 20), "ForceOpen", lambda e: cb.force_open()), Event.once(T(70 + k[0] % 20), "ForceClose", lambda e: cb.force_close())] if k[4] % 4 == 0 else []
    sim = mksim([fb, tw, cb, bh, hg, backend, backend2, hedged, missed], n + 300, sources=srcs, events=ops)
    return Scenario(sim, workload=4 * n, extra=lambda: {"cb_state": cb.state, "changes": changes})


# ------------------------------------------------------------------------------ sync primitives + Resource
def _rel(evs):
    """Schedule the events a release() returned (documented: 'return mutex.release()')."""
    return evs if evs else None


def _sync_sim(case, prims, worker_fn, nworkers, rounds, extra=None):
    k = K(case)
    rounds = 3 * rounds
    workers = [Proc(f"w{i}", worker_fn) for i in range(nworkers)]
    evs = []
    for i, w in enumerate(workers):
        for r in range(rounds):
            evs.append(ev(1 + r * (6 + k[7] % 6) + (i * (1 + k[6] % 3)) % 5, w, "Work", i=i, r=r))
    sim = mksim(list(prims) + workers, rounds * 12 + 300, events=evs)
    return Scenario(sim, workload=nworkers * rounds,
                    extra=lambda: {"logs": [w.log for w in workers], **(extra() if extra else {})})


@family("sync_mutex")
def f_sync_mutex(case):
    from happysimulator.components.sync import Mutex
    k = K(case)
    m = Mutex("mutex")

    def work(self, e):
        yield ticks(e.context["i"] % 2)         # staggered arrival (0 or 1 tick)
        if (e.context["i"] + e.context["r"] + k[3]) % 4 == 0:      # non-blocking attempt first
            if not m.try_acquire(owner=self.name):
                self.log.append("busy")
                yield from m.acquire(owner=self.name)
        else:
            yield from m.acquire(owner=self.name)
        yield ticks(1 + (k[0] + e.context["i"]) % 4)
        self.log.append(("cs", self.now.nanoseconds // TICK))
        return _rel(m.release())
    return _sync_sim(case, [m], work, 2 + k[1] % 3, 2 + k[2] % 4)


@family("sync_semaphore")
def f_sync_semaphore(case):
    from happysimulator.components.sync import Semaphore
    k = K(case)
    cap = 1 + k[0] % 3
    s = Semaphore("sem", initial_count=cap)

    def work(self, e):
        c = 1 + (e.context["i"] + k[3]) % cap
        yield from s.acquire(c)
        yield ticks(1 + (k[1] + e.context["r"]) % 4)
        self.log.append(("held", c, self.now.nanoseconds // TICK))
        return _rel(s.release(c))
    return _sync_sim(case, [s], work, 3 + k[2] % 2, 2 + k[4] % 3)


@family("sync_rwlock")
def f_sync_rwlock(case):
    from happysimulator.components.sync import RWLock
    k = K(case)
    lock = RWLock("rwlock", max_readers=[None, 2][k[0] % 2])

    def work(self, e):
        writer = (e.context["i"] + e.context["r"] + k[1]) % 3 == 0
        if writer:
            yield from lock.acquire_write()
            yield ticks(1 + k[2] % 3)
            self.log.append(("w", self.now.nanoseconds // TICK))
            return _rel(lock.release_write())
        yield from lock.acquire_read()
        yield ticks(1 + k[3] % 3)
        self.log.append(("r", self.now.nanoseconds // TICK))
        return _rel(lock.release_read())
    return _sync_sim(case, [lock], work, 3 + k[4] % 2, 2 + k[5] % 3)


@family("sync_barrier")
def f_sync_barrier(case):
    from happysimulator.components.sync import Barrier
    k = K(case)
    parties = 2 + k[0] % 3
    b = Barrier("barrier", parties=parties)

    def work(self, e):
        yield ticks(1 + (e.context["i"] * (1 + k[1] % 3)) % 5)
        idx = yield from b.wait()
        self.log.append((idx, self.now.nanoseconds // TICK))
        yield ticks(1)
    return _sync_sim(case, [b], work, parties, 2 + k[2] % 3)


@family("sync_condition")
def f_sync_condition(case):
    from happysimulator.components.sync import Condition, Mutex
    k = K(case)
    m = Mutex("cv_mutex")
    cv = Condition("not_empty", lock=m)
    box = []

    def work(self, e):
        i = e.context["i"]
        if i % 2 == 0:                                   # consumer (documented pattern)
            yield ticks(1)
            yield from m.acquire()
            if k[4] % 3 == 0:
                while not box:
                    yield from cv.wait()
            else:
                ok = yield from cv.wait_for(lambda: bool(box), timeout=[None, ticks(3)][k[4] % 3 - 1])
                if not ok or not box:
                    self.log.append("gave-up")
                    return _rel(m.release())
            self.log.append(("got", box.pop(0), self.now.nanoseconds // TICK))
            return _rel(m.release())
        yield ticks(2 + (k[0] + i) % 4)                  # producer: one item per consumer round
        yield from m.acquire()
        box.append((i, e.context["r"]))
        evs = cv.notify(1 + k[5] % 2) if k[1] % 2 else cv.notify_all()
        return _rel(m.release() + evs)
    return _sync_sim(case, [m, cv], work, 2 * (1 + k[2] % 2), 2 + k[3] % 3, extra=lambda: {"left": list(box)})


@family("resource_contention")
def f_resource_contention(case):
    from happysimulator.components.resource import Resource
    k = K(case)
    cap = 2 + k[0] % 3
    res = Resource("cpu", capacity=cap)

    def work(self, e):
        amt = 1 + (e.context["i"] + k[1]) % cap
        g = yield res.acquire(amount=amt)
        yield ticks(1 + (k[2] + e.context["r"]) % 4)
        g.release()
        self.log.append((amt, self.now.nanoseconds // TICK))
        t = res.try_acquire(amount=1)
        if t is not None:
            yield ticks(1)
            t.release()
    return _sync_sim(case, [res], work, 4 + k[3] % 3, 5 + k[4] % 4)


# ------------------------------------------------------------------------------ messaging
@family("message_queue", "strkeys")
def f_message_queue(case):
    from happysimulator.components.messaging import DeadLetterQueue, MessageQueue
    k = K(case)
    dlq = DeadLetterQueue("dlq", capacity=[None, 1, 5][k[0] % 3], retention_period=[None, ticks(2), ticks(40)][k[1] % 3])
    q = MessageQueue("mq", delivery_latency=ticks([1 + k[2] % 4, 9][k[2] % 5 == 0]), redelivery_delay=ticks([1, 2 + k[3] % 6, 30][k[3] % 3]),
                     max_redeliveries=1 + k[4] % 3, capacity=[None, 2, 8][k[5] % 3], dead_letter_queue=[dlq, dlq, None][k[6] % 3])
    rnd = rng_of(case, 11)

    def consume(self, e):
        if e.event_type != "message_delivery":
            return None
        mid = e.context["message_id"]
        yield ticks(1 + rnd.randrange(3))
        roll = rnd.randrange(10)
        out = [Event(time=self.now, event_type="poll", target=q)]
        if roll < 6:
            q.acknowledge(mid)
            self.log.append("ack")
        elif roll < 8:
            q.reject(mid, requeue=bool(roll % 2))
            self.log.append("reject")
        else:
            ev_ = from_lib(q, q.schedule_redelivery(mid))
            self.log.append("timeout")
            if ev_ is not None:
                out.append(ev_)
        return out
    cons = [Proc(f"cons{i}", consume) for i in range(2 + k[6] % 2)]
    for c in cons:
        q.subscribe(c)

    def produce(self, e):
        try:
            yield from q.publish(Event(time=self.now, event_type="payload", target=self, context={"n": self.events_received}))
        except RuntimeError:
            self.log.append("full")
            return None
        return [Event(time=self.now, event_type="poll", target=q)]
    prods = [Proc(f"prod{i}", produce) for i in range(2)]

    def admin(self, e):
        return from_lib(dlq, dlq.reprocess_all(q)) + [Event(time=self.now, event_type="cleanup", target=dlq)]
    adm = Proc("admin", admin)
    n = 30
    srcs = [const_source(f"s{i}", p, 1 + (k[7] + i) % 3, n, case["seed"] + i, etype="Go") for i, p in enumerate(prods)]
    srcs.append(const_source("poller", q, 3, n + 60, case["seed"] + 5, etype="poll"))
    srcs.append(const_source("adm", adm, 17, n + 60, case["seed"] + 6, etype="Go"))
    sim = mksim([q, dlq, adm] + cons + prods, n + 300, sources=srcs)
    return Scenario(sim, workload=3 * n, extra=lambda: {"cons": [sorted(c.log) for c in cons], "dlq": dlq.message_count})


@family("topic_pubsub", "strkeys")
def f_topic_pubsub(case):
    from happysimulator.components.messaging import Topic
    k = K(case)
    topic = Topic("topic", delivery_latency=ticks(1 + k[0] % 4), max_subscribers=[None, 2, 8][k[7] % 3])
    if k[1] % 2:
        topic.set_retain_messages(True, max_history=2 + k[2] % 5)
    subs = [Collector(f"sub{i}") for i in range(2 + k[3] % 3)]
    for sb in subs[:-1]:
        try:
            topic.subscribe(sb)
        except RuntimeError:          # documented: raised when max_subscribers is reached
            pass

    def pub(self, e):
        msg = Event(time=self.now, event_type="payload", target=self, context={"n": self.events_received})
        mode = (self.events_received + k[4]) % 3
        if mode == 0:
            evs = yield from topic.publish(msg)
            return from_lib(topic, evs)
        if mode == 1:
            return from_lib(topic, topic.publish_sync(msg))
        return [Event(time=self.now, event_type="publish", target=topic, context={"payload": msg})]
    pubs = [Proc(f"pub{i}", pub) for i in range(2)]

    def churn(self, e):
        sb = subs[self.events_received % len(subs)]
        if self.events_received % 2:
            topic.unsubscribe(sb)
            return None
        try:
            return from_lib(topic, topic.subscribe(sb, replay_history=bool(k[5] % 2)))
        except RuntimeError:          # documented: raised when max_subscribers is reached
            return None
    ch = Proc("churn", churn)
    n = 30
    srcs = [const_source(f"s{i}", p, 1 + (k[6] + i) % 3, n, case["seed"] + i, etype="Go") for i, p in enumerate(pubs)]
    srcs.append(const_source("churner", ch, 7, n, case["seed"] + 4, etype="Go"))
    sim = mksim([topic, ch] + subs + pubs, n + 200, sources=srcs)
    return Scenario(sim, workload=3 * n)


# ------------------------------------------------------------------------------ streaming
@family("event_log_group", "strkeys", "hashroute")
def f_event_log_group(case):
    from happysimulator.components.streaming import consumer_group as cg
    from happysimulator.components.streaming.event_log import EventLog, SizeRetention, TimeRetention
    k = K(case)
    from happysimulator.components.datastore import sharded_store as _ss
    pol = [None, TimeRetention(max_age_s=ticks([2, 20 + k[0] % 20][k[0] % 2])), SizeRetention(max_records=1 + k[0] % 8)][k[1] % 3]
    shard = [None, _ss.HashSharding(), _ss.RangeSharding(), _ss.ConsistentHashSharding(virtual_nodes=4, seed=xseed(case, k[0]))][k[7] % 4]
    log = EventLog("log", num_partitions=1 + k[2] % 4, sharding_strategy=shard, retention_policy=pol, append_latency=ticks(1 + k[3] % 3),
                   read_latency=ticks(1), retention_check_interval=ticks([2, 8 + k[4] % 8, 60][k[4] % 3]))
    strat = [None, cg.RangeAssignment(), cg.RoundRobinAssignment(), cg.StickyAssignment()][k[5] % 4]
    group = cg.ConsumerGroup("group", log, assignment_strategy=strat, rebalance_delay=ticks([1, 1 + k[6] % 4, 12][k[6] % 3]), poll_latency=ticks(1),
                             session_timeout=[None, ticks(2), ticks(40)][k[3] % 3])
    rnd = rng_of(case, 13)

    def produce(self, e):
        rec = yield from log.append(e.context.get("key", "k"), self.events_received)
        self.log.append((rec.partition, rec.offset))

    def consume(self, e):
        if getattr(self, "busy", False):
            return None
        self.busy = True
        try:
            if not getattr(self, "joined", False):
                yield from group.join(self.name, self)
                self.joined = True
            recs = yield from group.poll(self.name, 1 + rnd.randrange(5))
            offs = {}
            for x in list(recs or []):
                offs[x.partition] = max(offs.get(x.partition, 0), x.offset + 1)
            if offs:
                yield from group.commit(self.name, offs)
            self.log.append(len(list(recs or [])))
            if rnd.randrange(8) == 0:
                yield from group.leave(self.name)
                self.joined = False
        finally:
            self.busy = False
        return None
    prods = [Proc(f"prod{i}", produce) for i in range(2)]
    cons = [Proc(f"cons{i}", consume) for i in range(2 + k[7] % 2)]

    def reader(self, e):
        recs = yield from log.read(self.events_received % log.num_partitions, 0, 4)
        self.log.append(len(recs))
    rd = Proc("reader", reader)
    n = 30
    srcs = [const_source(f"p{i}", p, 1 + i, n, case["seed"] + i, etype="Go") for i, p in enumerate(prods)]
    srcs += [const_source(f"c{i}", c, 3 + i, n + 40, case["seed"] + 4 + i, etype="Poll") for i, c in enumerate(cons)]
    srcs.append(const_source("r", rd, 5, n, case["seed"] + 9, etype="Go"))
    sim = mksim([log, group, rd] + prods + cons, n + 250, sources=srcs)
    return Scenario(sim, workload=5 * n, extra=lambda: {"hw": log.high_watermarks(), "lag": group.total_lag(),
                                                          "cons": [c.log for c in cons], "prod": [p.log for p in prods]})


@family("stream_processor", "strkeys")
def f_stream_processor(case):
    from happysimulator.components.streaming import stream_processor as sp
    k = K(case)
    out, late = Collector("windows"), Collector("late")
    wt = [sp.TumblingWindow(size_s=ticks(4 + k[0] % 8)), sp.SlidingWindow(size_s=ticks(8 + k[0] % 8), slide_s=ticks(2 + k[1] % 4)),
          sp.SessionWindow(gap_s=ticks(2 + k[1] % 5))][k[2] % 3]
    policy = [sp.LateEventPolicy.DROP, sp.LateEventPolicy.UPDATE, sp.LateEventPolicy.SIDE_OUTPUT][k[3] % 3]
    proc = sp.StreamProcessor("stream", wt, aggregate_fn=lambda recs: len(recs), downstream=out,
                              allowed_lateness_s=ticks(k[4] % 6), late_event_policy=policy, side_output=late,
                              watermark_interval_s=ticks(2 + k[5] % 6))
    rnd = rng_of(case, 17)

    def feed(self, e):
        lag = rnd.choice([0, 0, 0, 1, 3, 12, 30])
        t = max(0.0, self.now.to_seconds() - ticks(lag))
        return [Event(time=self.now, event_type="Process", target=proc,
                      context={"key": e.context.get("key", "k"), "value": self.events_received, "event_time_s": t})]
    feeder = Proc("feeder", feed)
    n = 60
    srcs = [const_source("a", feeder, 1 + k[6] % 2, n, case["seed"], etype="Go"), poisson_source("b", feeder, 100.0, n, case["seed"] + 1, etype="Go")]
    sim = mksim([proc, feeder, out, late], n + 200, sources=srcs)
    return Scenario(sim, workload=2 * n)


# ------------------------------------------------------------------------------ storage engines
KEYS = [f"key-{c}" for c in "abcdefgh"] + ["user:1", "user:22", "order/7", ""]


def kv_workers(store, case, nworkers, nops, salt, ops=("put", "put", "get", "get", "delete", "scan"), start_gap=2):
    """``nworkers`` harness workers doing ``nops`` random operations each on a map-like store through its
    generator API, with a >= 1 tick pause between operations (so operations of different workers overlap)."""
    rnd = rng_of(case, salt)
    scripts = []
    for w in range(nworkers):
        sc = []
        for i in range(nops):
            op = rnd.choice(ops)
            if op == "scan" and not hasattr(store, "scan"):
                op = "get"
            if op == "delete" and not hasattr(store, "delete"):
                op = "put"
            sc.append((op, rnd.choice(KEYS[:6 + salt % 6]), rnd.randrange(100), 1 + rnd.randrange(3)))
        scripts.append(sc)

    def run(self, e):
        for op, key, val, pause in scripts[e.context["w"]]:
            if op == "put":
                yield from store.put(key, val)
                self.log.append(("put", key))
            elif op == "get":
                v = yield from store.get(key)
                self.log.append(("get", key, v))
            elif op == "delete":
                yield from store.delete(key)
                self.log.append(("del", key))
            else:
                a, b = sorted([key, KEYS[(val) % 6]])
                rows = yield from store.scan(a, b)
                self.log.append(("scan", len(list(rows or []))))
            yield ticks(pause)
        return None
    workers = [Proc(f"worker{w}", run) for w in range(nworkers)]
    events = [ev(1 + w * start_gap, workers[w], "Start", w=w) for w in range(nworkers)]
    return workers, events


def _logs(workers):
    return lambda: {"logs": [w.log for w in workers]}


@family("kv_store", "strkeys")
def f_kv_store(case):
    from happysimulator.components.datastore import KVStore
    k = K(case)
    kv = KVStore("kv", read_latency=ticks(1 + k[0] % 3), write_latency=ticks(1 + k[1] % 4),
                 delete_latency=[None, ticks(1 + k[2] % 3)][k[2] % 2], capacity=[None, 3, 5][k[3] % 3])
    workers, evs = kv_workers(kv, case, 3 + k[4] % 2, 40, 1, ops=("put", "put", "get", "get", "delete"))
    sim = mksim([kv] + workers, 1200, events=evs)
    return Scenario(sim, workload=len(workers) * 40, extra=_logs(workers))


def mk_lsm(k, disk=None, name="lsm"):
    from happysimulator.components.storage import lsm_tree as lt
    from happysimulator.components.storage import wal as wl
    s = k[0] % 3
    strat = [lt.SizeTieredCompaction(min_sstables=2 + k[1] % 3),
             lt.LeveledCompaction(level_0_max=2 + k[1] % 3, size_ratio=2, base_size_keys=1 + k[2] % 4),
             lt.FIFOCompaction(max_total_sstables=1 + k[1] % 5)][s]
    w = k[3] % 4
    wal = None
    if w:
        pol = [None, wl.SyncEveryWrite(), wl.SyncOnBatch(2 + k[2] % 2), wl.SyncPeriodic(ticks(3))][w]
        wal = wl.WriteAheadLog(f"{name}.wal", sync_policy=pol, write_latency=ticks(1), sync_latency=ticks(1 + k[4] % 2), disk=disk)
    return lt.LSMTree(name, memtable_size=1 + k[5] % 4, compaction_strategy=strat, wal=wal, disk=disk,
                      sstable_read_latency=ticks(1), sstable_write_latency=ticks(1 + k[6] % 5), max_levels=2 + k[7] % 3)


@family("lsm_tree", "strkeys")
def f_lsm_tree(case):
    from happysimulator.components.resource import Resource
    k = K(case)
    disk = Resource("disk", capacity=1 + k[4] % 2) if k[7] % 3 == 0 else None
    lsm = mk_lsm(k, disk)
    workers, evs = kv_workers(lsm, case, 3, 30, 2)
    sim = mksim([lsm] + ([disk] if disk else []) + workers, 2500, events=evs)
    return Scenario(sim, workload=36, extra=lambda: {"logs": [w.log for w in workers], "levels": lsm.level_summary})


@family("btree", "strkeys")
def f_btree(case):
    from happysimulator.components.resource import Resource
    from happysimulator.components.storage.btree import BTree
    k = K(case)
    disk = Resource("disk", capacity=1 + k[3] % 2) if k[4] % 3 == 0 else None
    bt = BTree("btree", order=3 + k[0] % 4, disk=disk, page_read_latency=ticks(1 + k[1] % 2), page_write_latency=ticks(1 + k[2] % 3))
    workers, evs = kv_workers(bt, case, 3, 30, 3)
    sim = mksim([bt] + ([disk] if disk else []) + workers, 2500, events=evs)
    return Scenario(sim, workload=36, extra=_logs(workers))


@family("wal_memtable", "strkeys")
def f_wal_memtable(case):
    from happysimulator.components.storage import wal as wl
    from happysimulator.components.storage.memtable import Memtable
    k = K(case)
    pol = [wl.SyncEveryWrite(), wl.SyncOnBatch(2 + k[0] % 3), wl.SyncPeriodic(ticks(2 + k[1] % 5))][k[2] % 3]
    wal = wl.WriteAheadLog("wal", sync_policy=pol, write_latency=ticks(1), sync_latency=ticks(1 + k[3] % 3))
    mem = Memtable("memtable", size_threshold=3 + k[4] % 5, write_latency=ticks(1), read_latency=ticks(1))
    rnd = rng_of(case, 4)

    def writer(self, e):
        for i in range(10):
            key = rnd.choice(KEYS[:6])
            seq = yield from wal.append(key, i)
            full = yield from mem.put(key, i)
            v = yield from mem.get(rnd.choice(KEYS[:6]))
            self.log.append((seq, bool(full), v))
            if mem.is_full:
                sst = mem.flush()
                wal.truncate(seq)
                self.log.append(("flush", sst.key_count))
            yield ticks(1 + rnd.randrange(2))
    ws = [Proc(f"writer{i}", writer) for i in range(3)]
    sim = mksim([wal, mem] + ws, 500, events=[ev(1 + i, w, "Start") for i, w in enumerate(ws)])
    return Scenario(sim, workload=30, extra=lambda: {"logs": [w.log for w in ws], "synced": wal.synced_up_to})


@family("transaction_manager", "strkeys")
def f_transaction_manager(case):
    from happysimulator.components.datastore import KVStore
    from happysimulator.components.storage.btree import BTree
    from happysimulator.components.storage.transaction_manager import IsolationLevel, TransactionManager
    k = K(case)
    which = k[0] % 3
    if which == 0:
        store = KVStore("kv", read_latency=ticks(1), write_latency=ticks(1 + k[1] % 2))
    elif which == 1:
        store = mk_lsm([k[1], k[2], 1, 0, 0, k[3], 0, 1], name="txlsm")
    else:
        store = BTree("txbtree", order=4, page_read_latency=ticks(1), page_write_latency=ticks(1))
    iso = [IsolationLevel.READ_COMMITTED, IsolationLevel.SNAPSHOT_ISOLATION, IsolationLevel.SERIALIZABLE][k[4] % 3]
    tm = TransactionManager("tm", store=store, isolation=iso, deadlock_detection=bool(k[5] % 2))
    for i, key in enumerate(KEYS[:8]):
        store.put_sync(key, i)
    rnd = rng_of(case, 5)

    def txn_worker(self, e):
        for _ in range(4):
            tx = yield from tm.begin()
            for key in rnd.sample(KEYS[:8], 3 + rnd.randrange(3)):      # >= 3 distinct string keys per transaction
                if rnd.randrange(3) == 0:
                    v = yield from tx.read(key)
                    self.log.append(("r", key, v))
                else:
                    yield from tx.write(key, rnd.randrange(100))
                yield ticks(1)
            if rnd.randrange(5) == 0:
                tx.abort()
                self.log.append("abort")
            else:
                ok = yield from tx.commit()
                self.log.append(("commit", bool(ok)))
            yield ticks(1 + rnd.randrange(2))
    ws = [Proc(f"txw{i}", txn_worker) for i in range(3)]
    sim = mksim([store, tm] + ws, 800, events=[ev(1 + i, w, "Start") for i, w in enumerate(ws)])
    return Scenario(sim, workload=12 * 3, extra=_logs(ws))


# ------------------------------------------------------------------------------ caches / datastore
EVICTION_NAMES = ["LRU", "LFU", "TTL-wallclock", "TTL-simclock", "FIFO", "Random", "SLRU", "SampledLRU", "Clock", "TwoQueue"]


def mk_eviction(idx, seed, a, holder):
    from happysimulator.components.datastore import eviction_policies as ep
    name = pick(EVICTION_NAMES, idx)
    if name == "LRU":
        return ep.LRUEviction()
    if name == "LFU":
        return ep.LFUEviction()
    if name == "TTL-wallclock":
        return ep.TTLEviction(ttl=[0.002, 0.02, 30.0][a % 3])       # default clock_func (the library default)
    if name == "TTL-simclock":
        return ep.TTLEviction(ttl=ticks(4 + a % 12), clock_func=lambda: holder["e"].now.to_seconds())
    if name == "FIFO":
        return ep.FIFOEviction()
    if name == "Random":
        return ep.RandomEviction(seed=seed)
    if name == "SLRU":
        return ep.SLRUEviction(protected_ratio=[0.8, 0.5, 0.2][a % 3])
    if name == "SampledLRU":
        return ep.SampledLRUEviction(sample_size=1 + a % 3, seed=seed)
    if name == "Clock":
        return ep.ClockEviction()
    return ep.TwoQueueEviction(kin_ratio=[0.25, 0.5][a % 2])


@family("cached_store", "strkeys")
def f_cached_store(case):
    from happysimulator.components.datastore import CachedStore, CacheWarmer, KVStore
    k = K(case)
    holder = {}
    kv = KVStore("db", read_latency=ticks(2 + k[0] % 3), write_latency=ticks(2 + k[1] % 3))
    for i, key in enumerate(KEYS[:8]):
        kv.put_sync(key, i)
    cs = CachedStore("cache", kv, cache_capacity=2 + k[2] % 4, eviction_policy=mk_eviction(k[3], xseed(case, k[6]), k[4], holder),
                     cache_read_latency=ticks(1), write_through=bool(k[5] % 2))
    holder["e"] = cs
    warmer = CacheWarmer("warmer", cs, keys_to_warm=KEYS[:4 + k[6] % 4], warmup_rate=512.0 / (1 + k[7] % 3), warmup_latency=ticks(1))
    workers, evs = kv_workers(cs, case, 3, 30, 7, ops=("put", "get", "get", "get", "delete"))

    def flusher(self, e):
        n = yield from cs.flush()
        self.log.append(n)
        cs.invalidate(KEYS[self.events_received % 6])
    fl = Proc("flusher", flusher)
    evs += [ev(20 + 25 * i, fl, "Flush") for i in range(4)]
    scanner, skeys = key_stream_worker(cs, 150, 40, case)          # long stream: overflows the policies' bounded histories
    for i, key in enumerate(skeys):
        kv.put_sync(key, i)
    workers = workers + [scanner]
    evs.append(ev(3, scanner, "Start"))
    sim = mksim([kv, cs, warmer, fl] + workers, 2500, events=evs)
    sim.schedule(warmer.start_warming())
    pol = pick(EVICTION_NAMES, k[3])
    variant = "writeback" if not k[5] % 2 else (pol if pol in ("Random", "TTL-wallclock") else "")
    return Scenario(sim, workload=90, extra=lambda: {"logs": [w.log for w in workers], "cached": sorted(cs.get_cached_keys())},
                    variant=variant)


@family("multi_tier_cache", "strkeys")
def f_multi_tier_cache(case):
    from happysimulator.components.datastore import CachedStore, KVStore, MultiTierCache
    from happysimulator.components.datastore.multi_tier_cache import PromotionPolicy
    k = K(case)
    holder = {}
    kv = KVStore("db", read_latency=ticks(3), write_latency=ticks(3))
    for i, key in enumerate(KEYS[:8]):
        kv.put_sync(key, i)
    tiers = [CachedStore(f"L{i + 1}", kv, cache_capacity=1 + (k[i] + i) % 3 + i, eviction_policy=mk_eviction(k[2 + i], xseed(case, k[6] + i), k[4], holder),
                         cache_read_latency=ticks(1 + i), write_through=True) for i in range(2)]
    holder["e"] = kv
    mt = MultiTierCache("tiers", tiers=tiers, backing_store=kv,
                        promotion_policy=[PromotionPolicy.ALWAYS, PromotionPolicy.ON_SECOND_ACCESS, PromotionPolicy.NEVER][k[5] % 3])
    workers, evs = kv_workers(mt, case, 3, 30, 8, ops=("put", "get", "get", "get", "delete"))
    scanner, skeys = key_stream_worker(mt, 150, 41, case)
    for i, key in enumerate(skeys):
        kv.put_sync(key, i)
    workers = workers + [scanner]
    evs.append(ev(3, scanner, "Start"))
    sim = mksim([kv, mt] + tiers + workers, 2500, events=evs)
    pols = [pick(EVICTION_NAMES, k[2 + i]) for i in range(2)]
    variant = "Random" if "Random" in pols else ("TTL-wallclock" if "TTL-wallclock" in pols else "")
    return Scenario(sim, workload=90, extra=lambda: {"logs": [w.log for w in workers], "tier_stats": mt.get_tier_stats()}, variant=variant)


@family("soft_ttl_cache", "strkeys")
def f_soft_ttl_cache(case):
    from happysimulator.components.datastore import KVStore, SoftTTLCache
    k = K(case)
    kv = KVStore("db", read_latency=ticks(2 + k[0] % 4), write_latency=ticks(2))
    for i, key in enumerate(KEYS[:8]):
        kv.put_sync(key, i)
    soft = 3 + k[1] % 8
    sc = SoftTTLCache("softttl", kv, soft_ttl=ticks(soft), hard_ttl=Duration((soft + 2 + k[2] % 10) * TICK),
                      cache_capacity=[None, 1, 3][k[3] % 3], cache_read_latency=[0.0, ticks(1), ticks(5)][k[4] % 3])
    workers, evs = kv_workers(sc, case, 3, 40, 9, ops=("put", "get", "get", "get", "get"))
    sim = mksim([kv, sc] + workers, 1500, events=evs)
    return Scenario(sim, workload=120, extra=_logs(workers))


@family("database", "strkeys")
def f_database(case):
    from happysimulator.components.datastore import Database
    k = K(case)
    lat = {"SELECT": ticks(1 + k[0] % 3), "UPDATE": ticks(2 + k[1] % 3)}
    db = Database("db", max_connections=1 + k[2] % 4, query_latency=(lambda q: lat.get(q.split()[0], ticks(1))) if k[3] % 2 else ticks(2),
                  connection_latency=ticks(1 + k[4] % 2), commit_latency=ticks(1 + k[5] % 2), rollback_latency=ticks(1))
    db.create_table("users")
    rnd = rng_of(case, 10)

    def client(self, e):
        for i in range(5):
            if rnd.randrange(3):
                r_ = yield from db.execute(f"SELECT * FROM users WHERE id = {rnd.randrange(5)}")
                self.log.append(("q", r_ is not None))
            else:
                tx = yield from db.begin_transaction()
                yield from tx.execute(f"UPDATE users SET v = {i} WHERE id = {rnd.randrange(5)}")
                if rnd.randrange(4):
                    yield from tx.commit()
                else:
                    yield from tx.rollback()
                self.log.append("tx")
            yield ticks(1 + rnd.randrange(2))
    cs = [Proc(f"dbclient{i}", client) for i in range(4)]
    sim = mksim([db] + cs, 800, events=[ev(1 + i, c, "Start") for i, c in enumerate(cs)])
    return Scenario(sim, workload=20, extra=_logs(cs))


@family("sharded_store", "hashroute", "strkeys")
def f_sharded_store(case):
    from happysimulator.components.datastore import KVStore, ShardedStore
    from happysimulator.components.datastore import sharded_store as ss
    k = K(case)
    shards = [KVStore(f"shard{i}", read_latency=ticks(1 + (k[0] + i) % 2), write_latency=ticks(1 + (k[1] + i) % 3)) for i in range(2 + k[2] % 3)]
    strat = [ss.HashSharding(), ss.RangeSharding(), ss.RangeSharding(boundaries=["key-c", "key-f", "user"][:len(shards) - 1]),
             ss.ConsistentHashSharding(virtual_nodes=1 + k[3] % 30, seed=xseed(case, k[5]))][k[4] % 4]
    st = ShardedStore("sharded", shards, sharding_strategy=strat)
    workers, evs = kv_workers(st, case, 3, 30, 11, ops=("put", "put", "get", "get", "delete"))

    def gather(self, e):
        res = yield from st.scatter_gather(KEYS[:5])
        self.log.append(sorted((k_, v) for k_, v in res.items() if v is not None))
    g = Proc("gather", gather)
    sim = mksim([st, g] + shards + workers, 1500, events=evs + [ev(15 * (i + 1), g, "Gather") for i in range(4)])
    return Scenario(sim, workload=90, extra=lambda: {"logs": [w.log for w in workers], "sizes": st.get_shard_sizes(), "g": g.log})


@family("replicated_store", "strkeys")
def f_replicated_store(case):
    from happysimulator.components.datastore import KVStore, ReplicatedStore
    from happysimulator.components.datastore.replicated_store import ConsistencyLevel as CL
    k = K(case)
    reps = [KVStore(f"replica{i}", read_latency=ticks(1 + (k[0] + 2 * i) % 5), write_latency=ticks(1 + (k[1] + i) % 6)) for i in range(3 + k[2] % 2)]
    lv = [CL.ONE, CL.QUORUM, CL.ALL]
    rs = ReplicatedStore("replicated", reps, read_consistency=lv[k[3] % 3], write_consistency=lv[k[4] % 3],
                         read_timeout=ticks([1, 3 + k[5] % 6, 40][k[5] % 3]), write_timeout=ticks([1, 3 + k[6] % 8, 40][k[6] % 3]))
    workers, evs = kv_workers(rs, case, 3, 24, 12, ops=("put", "put", "get", "get", "delete"))
    sim = mksim([rs] + reps + workers, 1500, events=evs)
    return Scenario(sim, workload=72, extra=lambda: {"logs": [w.log for w in workers], "status": rs.get_replica_status()})


# ------------------------------------------------------------------------------ replication
def full_mesh(net, nodes, k, base=0):
    for i, a in enumerate(nodes):
        for j, b in enumerate(nodes):
            if i != j:
                net.add_link(a, b, mk_link(f"{a.name}>{b.name}", [0, 1, 0, 3, 6, 7][(k[(i + j) % 8] + base) % 6], k[i % 8] + j, k[j % 8]))


def md_ev(t_ticks, target, etype, **meta):
    return Event(time=T(t_ticks), event_type=etype, target=target, context={"metadata": dict(meta)})


def _fut_summary(futs):
    return lambda: {"resolved": sum(1 for f in futs if f.is_resolved),
                    "values": [jsonable(f.value) if f.is_resolved else None for f in futs]}


@family("primary_backup", "strkeys", "modrng")
def f_primary_backup(case):
    from happysimulator.components.datastore import KVStore
    from happysimulator.components.network.network import Network
    from happysimulator.components.replication.primary_backup import BackupNode, PrimaryNode, ReplicationMode
    k = K(case)
    net = Network("net")
    mode = [ReplicationMode.ASYNC, ReplicationMode.SEMI_SYNC, ReplicationMode.SYNC][k[0] % 3]
    backups = [BackupNode(f"backup{i}", KVStore(f"backup{i}_store", read_latency=ticks(1), write_latency=ticks(1 + (k[1] + i) % 3)),
                          net, primary=None, serve_reads=True) for i in range(1 + k[2] % 3)]
    prim = PrimaryNode("primary", KVStore("primary_store", read_latency=ticks(1), write_latency=ticks(1 + k[3] % 3)), backups, net, mode=mode)
    for b in backups:
        b._primary = prim          # the repo's own tests close the constructor cycle this way
    full_mesh(net, [prim] + backups, k)
    rnd = rng_of(case, 21)
    futs, evs = [], []
    for i in range(30):
        f = SimFuture()
        futs.append(f)
        key = rnd.choice(KEYS[:4])
        if rnd.randrange(4):
            evs.append(md_ev(1 + i * (1 + k[4] % 3), prim, "Write", key=key, value=f"v{i}", reply_future=f))
        else:
            evs.append(md_ev(1 + i * (1 + k[4] % 3), rnd.choice([prim] + backups), "Read", key=key, reply_future=f))
    sim = mksim([net, prim] + backups + [prim.store] + [b.store for b in backups], 600, events=evs)
    return Scenario(sim, workload=30 * (1 + len(backups)), extra=_fut_summary(futs))


@family("chain_replication", "strkeys", "modrng")
def f_chain_replication(case):
    from happysimulator.components.datastore import KVStore
    from happysimulator.components.network.network import Network
    from happysimulator.components.replication.chain_replication import build_chain
    k = K(case)
    net = Network("net")
    names = [f"chain{i}" for i in range(2 + k[0] % 3)]
    nodes = build_chain(names, net, lambda sn: KVStore(sn, read_latency=ticks(1 + k[1] % 2), write_latency=ticks(1 + k[2] % 3)),
                        craq_enabled=bool(k[3] % 2))
    full_mesh(net, nodes, k, base=2)
    rnd = rng_of(case, 22)
    futs, evs = [], []
    for i in range(30):
        f = SimFuture()
        futs.append(f)
        key = rnd.choice(KEYS[:4])
        if rnd.randrange(3):
            evs.append(md_ev(1 + i * (1 + k[4] % 3), nodes[0], "Write", key=key, value=f"v{i}", reply_future=f))
        else:
            tgt = rnd.choice(nodes) if k[3] % 2 else nodes[-1]
            evs.append(md_ev(1 + i * (1 + k[4] % 3), tgt, "Read", key=key, reply_future=f))
    sim = mksim([net] + nodes + [n.store for n in nodes], 600, events=evs)
    return Scenario(sim, workload=30 * len(nodes), extra=_fut_summary(futs))


@family("multi_leader", "strkeys", "modrng")
def f_multi_leader(case):
    from happysimulator.components.datastore import KVStore
    from happysimulator.components.network.network import Network
    from happysimulator.components.replication import conflict_resolver as cr
    from happysimulator.components.replication.multi_leader import LeaderNode
    k = K(case)
    net = Network("net")
    res = [lambda: cr.LastWriterWins(), lambda: cr.VectorClockMerge(),
           lambda: cr.CustomResolver(lambda key, vs: sorted(vs, key=lambda v: (str(v.value), v.writer_id))[-1])][k[0] % 3]
    leaders = [LeaderNode(f"leader{i}", store=KVStore(f"leader{i}_store", read_latency=ticks(1), write_latency=ticks(1 + (k[1] + i) % 3)),
                          network=net, conflict_resolver=res(), anti_entropy_interval=[0.0, ticks(8 + k[2] % 16)][k[3] % 2])
               for i in range(2 + k[4] % 2)]
    for ld in leaders:
        ld.add_peers([x for x in leaders if x is not ld])
    full_mesh(net, leaders, k, base=1)
    rnd = rng_of(case, 23)
    futs, evs = [], []
    for i in range(30):
        f = SimFuture()
        futs.append(f)
        ld = rnd.choice(leaders)
        key = rnd.choice(KEYS[:3])
        if rnd.randrange(4):
            evs.append(md_ev(1 + i * (1 + k[5] % 3), ld, "Write", key=key, value=f"v{i}", reply_future=f))
        else:
            evs.append(md_ev(1 + i * (1 + k[5] % 3), ld, "Read", key=key, reply_future=f))
    sim = mksim([net] + leaders + [ld.store for ld in leaders], 500, events=evs)
    for ld in leaders:
        e = ld.get_anti_entropy_event()
        if e is not None:
            sim.schedule(e)
    return Scenario(sim, workload=30 * len(leaders), extra=lambda: {**_fut_summary(futs)(), "stores": {ld.name: {key: ld.store.get_sync(key) for key in KEYS[:3]} for ld in leaders}})


# ------------------------------------------------------------------------------ consensus
def cluster_net(nodes, k, lossy=True):
    from happysimulator.components.network.link import NetworkLink
    from happysimulator.components.network.network import Network
    net = Network("net")
    return net


def wire_cluster(net, nodes, k):
    from happysimulator.components.network.link import NetworkLink
    for i, a in enumerate(nodes):
        for b in nodes[i + 1:]:
            j = nodes.index(b)
            jit = [ExponentialLatency(ticks(1)), None, None, symmetric_jitter(ticks(3 + j), 31 * i + j), ConstantLatency(ticks(1)) - ticks(5)][k[(i + j) % 8] % 5]
            loss = [0.0, 0.0, 0.05, 0.2][k[(i * j + 1) % 8] % 4]
            net.add_bidirectional_link(a, b, NetworkLink(f"link-{a.name}-{b.name}", latency=ConstantLatency(ticks(1 + k[(i + 2 * j) % 8] % 3)),
                                                         jitter=jit, packet_loss_rate=loss))


def starter(t_ticks, node, label="StartNode"):
    return Event.once(T(t_ticks), label, lambda e, n=node: from_lib(n, n.start()))


def _kvsm():
    from happysimulator.components.consensus import KVStateMachine
    return KVStateMachine()


@family("raft", "strkeys", "modrng")
def f_raft(case):
    from happysimulator.components.consensus import RaftNode
    from happysimulator.components.network.network import Network
    k = K(case)
    net = Network("net")
    sms = [_kvsm() for _ in range(3 + 2 * (k[0] % 2))]
    nodes = [RaftNode(f"node-{i + 1}", net, state_machine=sm, election_timeout_min=ticks(20 + k[1] % 10),
                      election_timeout_max=ticks(40 + k[2] % 20), heartbeat_interval=ticks([6 + k[3] % 6, 6 + k[3] % 6, 70][k[3] % 3])) for i, sm in enumerate(sms)]
    for n in nodes:
        n.set_peers(nodes)
    wire_cluster(net, nodes, k)
    evs = [starter(1 + i % 2, n) for i, n in enumerate(nodes)]
    futs = []

    def submit(e):
        ld = next((n for n in nodes if n.is_leader), nodes[e.context.get("i", 0) % len(nodes)])
        futs.append(ld.submit({"op": "set", "key": KEYS[e.context.get("i", 0) % 4], "value": e.context.get("i", 0)}))
        return None
    for i in range(10):
        evs.append(Event.once(T(90 + 12 * i + k[4] % 5), "ClientSubmit", submit, context={"i": i}))
    held = {}
    evs.append(Event.once(T(150 + k[5] % 30), "Partition", lambda e: held.setdefault("p", net.partition(nodes[:1], nodes[1:])) and None))
    evs.append(Event.once(T(230 + k[5] % 30), "Heal", lambda e: held["p"].heal() if "p" in held else None))
    sim = mksim([net] + nodes, 330, events=evs)
    return Scenario(sim, workload=10 * len(nodes) + 60,
                    extra=lambda: {"resolved": sum(f.is_resolved for f in futs), "terms": [n.current_term for n in nodes],
                                   "sm": [jsonable(getattr(sm, "_data", None)) for sm in sms]})


@family("paxos", "strkeys", "modrng")
def f_paxos(case):
    from happysimulator.components.consensus import PaxosNode
    from happysimulator.components.network.network import Network
    k = K(case)
    net = Network("net")
    nodes = [PaxosNode(f"node-{i + 1}", net, retry_delay=ticks(8 + k[1] % 10)) for i in range(3 + 2 * (k[0] % 2))]
    for n in nodes:
        n.set_peers(nodes)
    wire_cluster(net, nodes, k)
    futs = []

    def trigger(e):
        n = nodes[e.context["i"] % len(nodes)]
        futs.append(n.propose(f"value-{e.context['i']}"))
        return from_lib(n, n.start_phase1())
    evs = [Event.once(T(2 + (3 + k[2] % 4) * i), "TriggerProposal", trigger, context={"i": i}) for i in range(2 + k[3] % 3)]
    sim = mksim([net] + nodes, 300, events=evs)
    return Scenario(sim, workload=len(evs) * len(nodes) * 4,
                    extra=lambda: {"decided": [jsonable(f.value) if f.is_resolved else None for f in futs]})


@family("multi_paxos", "strkeys", "modrng")
def f_multi_paxos(case):
    from happysimulator.components.consensus import FlexiblePaxosNode, MultiPaxosNode
    from happysimulator.components.network.network import Network
    k = K(case)
    net = Network("net")
    flexible = bool(k[0] % 2)
    n = 3 + 2 * (k[1] % 2)
    sms = [_kvsm() for _ in range(n)]
    if flexible:
        q1 = 2 + k[2] % (n - 1)
        nodes = [FlexiblePaxosNode(f"node-{i + 1}", net, state_machine=sm, phase1_quorum=q1, phase2_quorum=n - q1 + 1,
                                   heartbeat_interval=ticks(8 + k[3] % 8)) for i, sm in enumerate(sms)]
    else:
        nodes = [MultiPaxosNode(f"node-{i + 1}", net, state_machine=sm, leader_lease_timeout=ticks([6, 30 + k[2] % 20][k[2] % 3 > 0]),
                                heartbeat_interval=ticks(8 + k[3] % 8)) for i, sm in enumerate(sms)]
    for nd in nodes:
        nd.set_peers(nodes)
    wire_cluster(net, nodes, k)
    evs = [starter(1, nodes[0], "StartLeader")]
    if k[4] % 2:
        evs.append(starter(3 + k[5] % 10, nodes[1], "StartRival"))
    futs = []

    def submit(e):
        ld = next((x for x in nodes if x.is_leader), nodes[0])
        futs.append(ld.submit({"op": "set", "key": KEYS[e.context["i"] % 4], "value": e.context["i"]}))
        rep = getattr(ld, "_replicate_slot", None)
        if flexible and rep is not None and ld.is_leader:       # the repo example triggers replication this way
            return from_lib(ld, rep(ld.log.last_index))
        return None
    for i in range(8):
        evs.append(Event.once(T(40 + 10 * i), "ClientSubmit", submit, context={"i": i}))
    sim = mksim([net] + nodes, 260, events=evs)
    return Scenario(sim, workload=8 * n + 40, extra=lambda: {"resolved": sum(f.is_resolved for f in futs),
                                                             "sm": [jsonable(getattr(sm, "_data", None)) for sm in sms]})


@family("membership", "strkeys", "modrng")
def f_membership(case):
    from happysimulator.components.consensus import MembershipProtocol
    from happysimulator.components.network.network import Network
    k = K(case)
    net = Network("net")
    protos = [MembershipProtocol(f"node-{i + 1}", net, probe_interval=ticks(8 + k[0] % 8), suspicion_timeout=ticks([3, 24 + k[1] % 24][k[1] % 3 > 0]),
                                 indirect_probe_count=1 + k[2] % 3, phi_threshold=[8.0, 4.0, 2.0][k[3] % 3]) for i in range(3 + k[4] % 3)]
    for p in protos:
        for o in protos:
            if o is not p:
                p.add_member(o)
    wire_cluster(net, protos, k)
    evs = [starter(1 + i % 3, p, "StartProtocol") for i, p in enumerate(protos)]
    held = {}
    evs.append(Event.once(T(80 + k[5] % 20), "Partition", lambda e: held.setdefault("p", net.partition(protos[:1], protos[1:])) and None))
    evs.append(Event.once(T(180 + k[5] % 20), "Heal", lambda e: held["p"].heal() if "p" in held else None))
    sim = mksim([net] + protos, 300, events=evs)
    return Scenario(sim, workload=len(protos) * 40,
                    extra=lambda: {p.name: {o.name: p.get_member_state(o.name) for o in protos if o is not p} for p in protos})


@family("leader_election", "strkeys", "modrng")
def f_leader_election(case):
    from happysimulator.components.consensus import BullyStrategy, LeaderElection, RandomizedStrategy, RingStrategy
    from happysimulator.components.network.network import Network
    k = K(case)
    net = Network("net")
    mk = [BullyStrategy, RingStrategy, lambda: RandomizedStrategy(ballot_range=1000)][k[0] % 3]
    els = [LeaderElection(f"node-{i + 1}", net, strategy=mk(), election_timeout=ticks(16 + k[1] % 16),
                          heartbeat_interval=ticks([5 + k[2] % 6, 5 + k[2] % 6, 40][k[2] % 3])) for i in range(3 + k[3] % 3)]
    for a in els:
        for b in els:
            a.add_member(b)
    wire_cluster(net, els, k)
    evs = [starter(1 + i % 2, e_, "StartElection") for i, e_ in enumerate(els)]
    held = {}
    evs.append(Event.once(T(100 + k[4] % 20), "Partition", lambda e: held.setdefault("p", net.partition(els[-1:], els[:-1])) and None))
    evs.append(Event.once(T(170 + k[4] % 20), "Heal", lambda e: held["p"].heal() if "p" in held else None))
    sim = mksim([net] + els, 260, events=evs)
    return Scenario(sim, workload=len(els) * 40, extra=lambda: {e_.name: (e_.current_leader, e_.current_term) for e_ in els})


@family("distributed_lock", "strkeys")
def f_distributed_lock(case):
    from happysimulator.components.consensus import DistributedLock
    k = K(case)
    lock = DistributedLock("lockmgr", lease_duration=ticks([1, 6 + k[0] % 12, 60][k[0] % 3]), max_waiters=[0, 1, 2][k[1] % 3])
    rnd = rng_of(case, 31)

    def client(self, e):
        name = ["db-lock", "cache-lock"][rnd.randrange(2)]
        grant = yield lock.acquire(name, self.name)
        if grant is None:
            self.log.append("rejected")
            return None
        out = []
        exp = getattr(lock, "_pending_expiry", None)       # the repo example schedules the lease expiry this way
        if exp is not None and exp.context.get("metadata", {}).get("fencing_token") != grant.fencing_token:
            exp = None          # somebody else's lease (e.g. granted through the event API): not ours to schedule
        if exp is not None:
            lock._pending_expiry = None
            out.append(exp)
            from_lib(lock, exp)
        hold = 1 + rnd.randrange(2 + k[2] % 14)
        yield ticks(hold), out
        ok = lock.release(name, grant.fencing_token) if rnd.randrange(4) else None
        self.log.append((name, grant.fencing_token, ok))
        return None
    clients = [Proc(f"client{i}", client) for i in range(3 + k[3] % 2)]

    def via_event(self, e):
        f = SimFuture()
        yield 0.0, [Event(time=self.now, event_type="LockAcquireRequest", target=lock,
                          context={"metadata": {"lock_name": "db-lock", "requester": self.name}, "reply_future": f})]
        grant = yield f
        if grant is not None:
            yield ticks(2)
            return [Event(time=self.now, event_type="LockReleaseRequest", target=lock,
                          context={"metadata": {"lock_name": "db-lock", "fencing_token": grant.fencing_token}})]
    evc = Proc("eventclient", via_event)
    n = 16
    srcs = [const_source(f"s{i}", c, 3 + (k[4] + i) % 4, n * 3, case["seed"] + i, etype="Go") for i, c in enumerate(clients)]
    srcs.append(const_source("se", evc, 9, n * 3, case["seed"] + 9, etype="Go"))
    sim = mksim([lock, evc] + clients, n * 3 + 200, sources=srcs)
    return Scenario(sim, workload=n * len(clients), extra=_logs(clients))


# ------------------------------------------------------------------------------ CRDT store
@family("crdt_store", "strkeys", "modrng")
def f_crdt_store(case):
    from happysimulator.components import crdt as C
    from happysimulator.components.network.network import Network
    k = K(case)
    net = Network("net")
    kind = k[0] % 3
    factory = [lambda nid: C.GCounter(nid), lambda nid: C.PNCounter(nid), lambda nid: C.ORSet(nid)][kind]
    stores = [C.CRDTStore(f"store-{c}", net, crdt_factory=factory, gossip_interval=ticks(6 + k[1] % 10)) for c in "abc"[:2 + k[2] % 2]]
    for s in stores:
        s.add_peers([o for o in stores if o is not s])
    wire_cluster(net, stores, k)
    rnd = rng_of(case, 41)
    evs, futs = [], []
    for i in range(30):
        s = rnd.choice(stores)
        key = rnd.choice(["page-views", "cart", "likes"])
        if kind == 0:
            op, val = "increment", 1 + rnd.randrange(3)
        elif kind == 1:
            op, val = rnd.choice(["increment", "decrement"]), 1 + rnd.randrange(3)
        else:
            op, val = rnd.choice(["add", "add", "remove"]), rnd.choice(["apple", "pear", "fig"])
        f = SimFuture()
        futs.append(f)
        if rnd.randrange(5):
            evs.append(md_ev(2 + 3 * i, s, "Write", key=key, operation=op, value=val, reply_future=f))
        else:
            evs.append(md_ev(2 + 3 * i, s, "Read", key=key, reply_future=f))
    sim = mksim([net] + stores, 260, events=evs)
    for s in stores:
        g = s.get_gossip_event()
        if g is not None:
            sim.schedule(g)
    return Scenario(sim, workload=30 * len(stores) + 60,
                    extra=lambda: {"values": {s.name: {key: jsonable(c.value) for key, c in sorted(s.crdts.items())} for s in stores},
                                   "resolved": sum(f.is_resolved for f in futs)})


# ------------------------------------------------------------------------------ sketching collectors (string items)
@family("sketch_collectors", "strkeys", "hashroute")
def f_sketch_collectors(case):
    from happysimulator import sketching as sk
    from happysimulator.components.sketching import QuantileEstimator, SketchCollector, TopKCollector
    from happysimulator.distributions.zipf import ZipfDistribution
    k = K(case)
    seed = xseed(case, k[7])            # 0, 1 or the case seed: every sketch / distribution seed value is legal
    item = lambda e: e.context["item"]  # noqa: E731
    cms = SketchCollector("cms", sk.CountMinSketch(width=8 + k[0] % 24, depth=2 + k[1] % 3, seed=seed), value_extractor=item)
    bloom = SketchCollector("bloom", sk.BloomFilter(size_bits=64 + 8 * (k[2] % 16), num_hashes=2 + k[3] % 3, seed=seed), value_extractor=item)
    hll = SketchCollector("hll", sk.HyperLogLog(precision=4 + k[4] % 5, seed=seed), value_extractor=item)
    topk = TopKCollector("topk", k=2 + k[5] % 5, value_extractor=item, seed=seed)
    quant = QuantileEstimator("latency", value_extractor=lambda e: e.context.get("lat"), compression=20.0 + 10 * (k[6] % 5), seed=seed)
    res = SketchCollector("reservoir", sk.ReservoirSampler(size=3 + k[7] % 6, seed=seed), value_extractor=item)
    cols = [cms, bloom, hll, topk, quant, res]
    zipf = ZipfDistribution([f"user-{i}" for i in range(30)], s=1.0 + (k[0] % 3) * 0.25, seed=seed)
    rnd = rng_of(case, 51)

    def fan(self, e):
        it = zipf.sample()
        ctx = {"item": it, "lat": rnd.random() * 0.2}
        return [Event(time=self.now, event_type="Item", target=c, context=ctx) for c in cols]
    f = Proc("fanout", fan)
    n = 120
    src = const_source("items", f, 1, n, case["seed"], etype="Go")
    src2 = poisson_source("items2", f, 120.0, n, case["seed"] + 1, etype="Go")
    sim = mksim(cols + [f], n + 50, sources=[src, src2])
    probes = [f"user-{i}" for i in range(0, 30, 3)] + ["nobody"]

    def extra():
        return {"cms": [cms.sketch.estimate(p) for p in probes], "bloom": [bloom.sketch.contains(p) for p in probes],
                "hll": hll.sketch.cardinality(), "topk": [(x.item, x.count, x.error) for x in topk.top()],
                "quant": [quant.quantile(q) for q in (0.5, 0.9, 0.99)] if quant.sample_count else [],
                "reservoir": sorted(res.sketch.sample()),
                "processed": [c.events_processed for c in cols]}
    return Scenario(sim, workload=2 * n * len(cols), extra=extra)


# ------------------------------------------------------------------------------ scheduling
@family("job_scheduler", "strkeys")
def f_job_scheduler(case):
    from happysimulator.components.scheduling import JobDefinition, JobScheduler
    k = K(case)
    sched = JobScheduler("etl", tick_interval=ticks([2 + k[0] % 4, 2 + k[0] % 4, 20][k[0] % 3]))
    ws = {n: Replier(n, ticks([1 + (k[1 + i] % 8), 25][(k[1 + i] // 8) % 3 == 0])) for i, n in enumerate(["extract", "transform", "load", "report"])}
    sched.add_job(JobDefinition(name="extract", target=ws["extract"], event_type="Extract", interval=ticks(8 + k[5] % 8), priority=10))
    sched.add_job(JobDefinition(name="transform", target=ws["transform"], event_type="Transform", interval=ticks(8 + k[5] % 8), priority=5,
                                depends_on=["extract"]))
    sched.add_job(JobDefinition(name="load", target=ws["load"], event_type="Load", interval=ticks(8 + k[6] % 8), priority=1,
                                depends_on=["transform"], context={"table": "facts"}))
    sched.add_job(JobDefinition(name="report", target=ws["report"], event_type="Report", interval=ticks(20 + k[7] % 10), enabled=bool(k[0] % 2)))
    evs = [Event.once(T(60), "Toggle", lambda e: sched.disable_job("load") and None),
           Event.once(T(100), "Toggle", lambda e: sched.enable_job("load") and None)]
    sim = mksim([sched] + list(ws.values()), 260, events=evs)
    sim.schedule(sched.start())
    return Scenario(sim, workload=120, extra=lambda: {n: jsonable(sched.get_job_state(n)) for n in sched.job_names})


@family("work_stealing_pool", "strkeys")
def f_work_stealing_pool(case):
    from happysimulator.components.scheduling import WorkStealingPool
    k = K(case)
    sink = Sink("sink")
    if k[2] % 4:
        # same-timestamp ties: 2-3 workers, every arrival and every duration on the tick grid (durations 1-3 ticks, load
        # close to capacity), so workers that started at different instants keep finishing at exactly the same instant,
        # one of them with an empty deque and another with a single queued task; plus bursts of workers+1..2 equal tasks
        nw = 2 + k[0] % 2
        rnd = rng_of(case, 97)
        pool = WorkStealingPool("pool", num_workers=nw, downstream=sink, default_processing_time=ticks(1 + k[1] % 3),
                                processing_time_key=["processing_time", "cost"][k[3] % 2])

        def task(t, d):
            return Event(time=T(t), event_type="Task", target=pool, context={"metadata": {"processing_time": ticks(d), "cost": ticks(d)}, "created_at": T(t)})
        evs = []
        for t in range(2, 70):
            if t % 17 == 0:                                  # burst of equal tasks at one instant
                d = 1 + rnd.randrange(3)
                evs += [task(t, d) for _ in range(nw + 1 + rnd.randrange(2))]
            else:
                for _ in range(rnd.choice([0, 1, 1, 1, 2] if nw == 2 else [0, 1, 1, 2, 2])):
                    evs.append(task(t, 1 + rnd.randrange(3)))
        sim = mksim([pool, sink], 200, events=evs)
        return Scenario(sim, workload=len(evs), extra=lambda: {"workers": pool.worker_stats})
    pool = WorkStealingPool("pool", num_workers=2 + k[0] % 3, downstream=sink, default_processing_time=ticks(1 + k[1] % 4))
    n = 50
    a = const_source("a", pool, 1, n, case["seed"])
    b = poisson_source("b", pool, 200.0, n, case["seed"] + 1)
    sim = mksim([pool, sink], n + 250, sources=[a, b])
    return Scenario(sim, workload=2 * n, extra=lambda: {"workers": pool.worker_stats})


# ------------------------------------------------------------------------------ deployment
def _fleet(k, sink, n):
    from happysimulator.components.load_balancer.load_balancer import LoadBalancer
    from happysimulator.components.server.server import Server
    servers = [Server(f"v1-{i}", concurrency=2, service_time=ConstantLatency(ticks(1 + (k[0] + i) % 3)), downstream=sink) for i in range(n)]
    lb = LoadBalancer("lb", backends=servers)
    mk = lambda name: Server(name, concurrency=2 + k[1] % 2, service_time=ConstantLatency(ticks(1 + k[2] % 2)), downstream=sink)  # noqa: E731
    return lb, servers, mk


@family("auto_scaler", "strkeys")
def f_auto_scaler(case):
    from happysimulator.components.deployment import auto_scaler as asc
    k = K(case)
    sink = Sink("sink")
    lb, servers, mk = _fleet(k, sink, 2)
    pol = [asc.TargetUtilization(target=[0.3, 0.6][k[3] % 2]), asc.StepScaling(steps=[(0.5, 1), (0.8, 2)]),
           asc.QueueDepthScaling(scale_out_threshold=2 + k[4] % 4, scale_in_threshold=1)][k[5] % 3]
    scaler = asc.AutoScaler("scaler", lb, mk, policy=[pol, pol, pol, None][k[6] % 4], min_instances=1 + k[6] % 2, max_instances=[2, 4 + k[7] % 3][k[7] % 3 > 0],
                            evaluation_interval=ticks(8 + k[0] % 8), scale_out_cooldown=ticks([1, 10 + k[1] % 10, 60][k[1] % 3]),
                            scale_in_cooldown=ticks([1, 20 + k[2] % 10, 80][k[2] % 3]))
    n = 80
    a = const_source("a", lb, 1, n, case["seed"])
    b = poisson_source("b", lb, 250.0, n // 2, case["seed"] + 1)
    sim = mksim([lb, scaler, sink] + servers, n + 200, sources=[a, b])
    sim.schedule(scaler.start())
    return Scenario(sim, workload=2 * n, extra=lambda: {"count": scaler.current_count})


@family("rolling_deployer", "strkeys")
def f_rolling_deployer(case):
    from happysimulator.components.deployment import RollingDeployer
    k = K(case)
    sink = Sink("sink")
    lb, servers, mk = _fleet(k, sink, 2 + k[3] % 3)
    dep = RollingDeployer("deployer", lb, mk, batch_size=1 + k[4] % 3, health_check_interval=ticks([1, 3 + k[5] % 5, 30][k[5] % 3]),
                          healthy_threshold=1 + k[6] % 3, max_failures=k[7] % 4)
    n = 70
    a = const_source("a", lb, 1 + k[0] % 2, n, case["seed"])
    sim = mksim([lb, dep, sink] + servers, n + 250, sources=[a],
                events=[Event(time=T(10 + k[1] % 10), event_type="_rolling_deploy_start", target=dep, context={})])
    return Scenario(sim, workload=n, extra=lambda: {"backends": sorted(b.name for b in lb.all_backends)})


@family("canary_deployer", "strkeys", "modrng")
def f_canary_deployer(case):
    from happysimulator.components.deployment import canary_deployer as cd
    k = K(case)
    sink = Sink("sink")
    lb, servers, mk = _fleet(k, sink, 2 + k[3] % 2)
    ev_ = [None, cd.ErrorRateEvaluator(max_error_rate=0.05), cd.LatencyEvaluator(max_latency=ticks(2 + k[4] % 4))][k[5] % 3]
    dep = cd.CanaryDeployer("canary", lb, mk, stages=[cd.CanaryStage(0.1, ticks(10 + k[6] % 10)), cd.CanaryStage(0.5, ticks(10)),
                                                      cd.CanaryStage(1.0, ticks(8))],
                            metric_evaluator=ev_, evaluation_interval=ticks([3 + k[7] % 4, 3 + k[7] % 4, 25][k[7] % 3]))
    n = 80
    a = const_source("a", lb, 1 + k[0] % 2, n, case["seed"])
    b = poisson_source("b", lb, 100.0, n, case["seed"] + 1)
    sim = mksim([lb, dep, sink] + servers, n + 250, sources=[a, b],
                events=[Event(time=T(8 + k[1] % 10), event_type="_canary_deploy_start", target=dep, context={})])
    return Scenario(sim, workload=2 * n, extra=lambda: {"backends": sorted(b_.name for b_ in lb.all_backends)})


# ------------------------------------------------------------------------------ infrastructure
@family("infra_cpu_disk", "strkeys", "modrng")
def f_infra_cpu_disk(case):
    from happysimulator.components import infrastructure as inf
    k = K(case)
    pol = [inf.FairShare(quantum_s=ticks(1 + k[0] % 3)), inf.PriorityPreemptive(quantum_s=ticks(1 + k[0] % 3))][k[1] % 2]
    cpu = inf.CPUScheduler("cpu", policy=[pol, pol, None][k[4] % 3], context_switch_s=[0.0, ticks(1) / 8, ticks(2)][k[5] % 3])
    prof = [inf.HDD(), inf.SSD(), inf.NVMe(native_queue_depth=2 + k[2] % 4), None][k[3] % 4]
    disk = inf.DiskIO("disk", profile=prof)
    rnd = rng_of(case, 61)

    def job(self, e):
        i = self.events_received
        yield from cpu.execute(f"{self.name}-t{i}", ticks(1 + rnd.randrange(4)), priority=rnd.randrange(3))
        if rnd.randrange(2):
            yield from disk.read(4096 * (1 + rnd.randrange(8)))
        else:
            yield from disk.write(4096 * (1 + rnd.randrange(4)))
        self.log.append(("done", i))
    workers = [Proc(f"job{i}", job) for i in range(3)]
    n = 12
    srcs = [const_source(f"s{i}", w, 5 + i, n * 5, case["seed"] + i, etype="Go") for i, w in enumerate(workers)]
    sim = mksim([cpu, disk] + workers, n * 5 + 300, sources=srcs)
    return Scenario(sim, workload=n * 3, extra=_logs(workers))


@family("infra_page_cache", "strkeys")
def f_infra_page_cache(case):
    from happysimulator.components import infrastructure as inf
    k = K(case)
    pc = inf.PageCache("pagecache", capacity_pages=3 + k[4] % 6, readahead_pages=k[5] % 3, disk_read_latency_s=ticks(1 + k[6] % 2),
                       disk_write_latency_s=ticks(1 + k[7] % 3))
    rnd = rng_of(case, 63)

    def job(self, e):
        page = rnd.randrange(12)
        if rnd.randrange(3):
            yield from pc.read_page(page)
        else:
            yield from pc.write_page(page)
        if rnd.randrange(8) == 0:
            n_ = yield from pc.flush()
            self.log.append(("flush", n_))
        self.log.append(("done", page))
    workers = [Proc(f"io{i}", job) for i in range(2 + k[0] % 2)]
    n = 24
    srcs = [const_source(f"s{i}", w, 2 + i, n * 3, case["seed"] + i, etype="Go") for i, w in enumerate(workers)]
    sim = mksim([pc] + workers, n * 3 + 200, sources=srcs)
    return Scenario(sim, workload=n * len(workers), extra=_logs(workers))


@family("infra_net_gc", "strkeys", "modrng")
def f_infra_net_gc(case):
    from happysimulator.components import infrastructure as inf
    k = K(case)
    dns = inf.DNSResolver("dns", cache_capacity=2 + k[0] % 4, root_latency_s=ticks(3), tld_latency_s=ticks(2), auth_latency_s=ticks(1 + k[1] % 3),
                          records={f"svc{i}.example.com": inf.DNSRecord(f"svc{i}.example.com", f"10.0.0.{i}", ttl_s=ticks([1, 8, 400][(i + k[5]) % 3])) for i in range(6)})
    cc = [inf.AIMD(), inf.Cubic(), inf.BBR()][k[2] % 3]
    rnd = rng_of(case, 62)
    tcp = inf.TCPConnection("tcp", congestion_control=cc, base_rtt_s=ticks(2 + k[3] % 6), loss_rate=[0.0, 0.01, 0.1][k[4] % 3],
                            retransmit_timeout_s=rnd.choice([ticks(1), ticks(10 + k[5] % 20)]),      # RTO shorter / longer than the RTT
                            initial_cwnd=rnd.choice([1.0, 10.0]), initial_ssthresh=rnd.choice([2.0, 64.0]))
    interval = ticks(8 + k[6] % 24)
    pause = interval * rnd.choice([0.1, 0.25, 0.9, 1.5, 3.0])                                         # pauses shorter and longer than the period
    strat = [inf.StopTheWorld(base_pause_s=pause, interval_s=interval, pressure_multiplier=rnd.choice([1.0, 3.0])),
             inf.ConcurrentGC(pause_s=pause, interval_s=interval),
             inf.GenerationalGC(minor_pause_s=pause / 2, major_pause_s=pause * 2, minor_interval_s=interval, major_threshold=rnd.choice([0.3, 0.75]))][k[7] % 3]
    gc = inf.GarbageCollector("gc", strategy=strat, heap_pressure=[None, 0.5, 0.9, 1.0][k[0] % 4])

    def req(self, e):
        host = f"svc{rnd.randrange(7)}.example.com"
        ip = yield from dns.resolve(host)
        if rnd.randrange(6) == 0:
            yield from gc.pause()
        yield from tcp.send(1460 * (1 + rnd.randrange(12)))
        self.log.append((host, ip))
    workers = [Proc(f"req{i}", req) for i in range(2)]
    n = 24
    srcs = [const_source(f"s{i}", w, 4 + i, n * 4, case["seed"] + i, etype="Go") for i, w in enumerate(workers)]
    sim = mksim([dns, tcp, gc] + workers, n * 4 + 300, sources=srcs)
    sim.schedule(gc.prime())
    return Scenario(sim, workload=n * 2, extra=_logs(workers))


# ------------------------------------------------------------------------------ microservice
@family("api_gateway", "strkeys", "modrng")
def f_api_gateway(case):
    from happysimulator.components.microservice import APIGateway, RouteConfig
    k = K(case)
    rnd = rng_of(case, 71)
    backs = {r: [Replier(f"{r}-be{i}", ticks(1 + (k[i] + j) % 5)) for i in range(1 + (k[2] + j) % 2)] for j, r in enumerate(["search", "cart", "pay"])}
    routes = {"search": RouteConfig("search", backs["search"], rate_limit_policy=mk_rl_policy(k[3], k[4], k[5]), auth_required=False,
                                    timeout=ticks(3 + k[6] % 4)),
              "cart": RouteConfig("cart", backs["cart"], auth_required=True, timeout=None),
              "pay": RouteConfig("pay", backs["pay"], rate_limit_policy=mk_rl_policy(k[3] + 1, k[5], k[4]), auth_required=True, timeout=ticks(2 + k[7] % 3))}
    gw = APIGateway("gateway", routes, auth_latency=[0.0, ticks(1), ticks(4)][k[1] % 3], auth_failure_rate=[0.0, 0.1, 1.0][k[0] % 3],
                    route_extractor=[None, lambda e: e.context.get("metadata", {}).get("route")][k[2] % 2])

    def client(self, e):
        r = rnd.choice(["search", "search", "cart", "pay", "unknown"])
        return [Event(time=self.now, event_type="request", target=gw, context={"metadata": {"route": r}})]
    c = Proc("client", client)
    n = 60
    srcs = [const_source("a", c, 1, n, case["seed"], etype="Go"), poisson_source("b", c, 120.0, n, case["seed"] + 1, etype="Go")]
    sim = mksim([gw, c] + [b for bs in backs.values() for b in bs], n + 200, sources=srcs)
    return Scenario(sim, workload=2 * n)


@family("microservice_patterns", "strkeys", "modrng")
def f_microservice_patterns(case):
    from happysimulator.components.microservice import IdempotencyStore, OutboxRelay, Saga, SagaStep, Sidecar
    k = K(case)
    rnd = rng_of(case, 72)
    slowish = lambda e: ticks(1 + rnd.randrange(2 + k[0] % 12))  # noqa: E731
    pay = Replier("payments", slowish)
    idem = IdempotencyStore("idem", pay, key_extractor=lambda e: e.context.get("metadata", {}).get("idempotency_key"),
                            ttl=ticks([2, 20 + k[1] % 40][k[1] % 3 > 0]), max_entries=[1, 4 + k[2] % 8][k[2] % 4 > 0], cleanup_interval=ticks([2, 10 + k[3] % 10][k[3] % 3 > 0]))
    bus = Collector("bus")
    outbox = OutboxRelay("outbox", bus, poll_interval=ticks(3 + k[4] % 5), batch_size=1 + k[5] % 4, relay_latency=[0.0, ticks(1), ticks(4)][k[6] % 3])
    svc = {n: Replier(n, slowish) for n in ["inventory", "billing", "shipping"]}
    outcomes = []
    saga = Saga("saga", [SagaStep("reserve", svc["inventory"], "reserve", svc["inventory"], "unreserve", timeout=ticks([1, 4 + k[6] % 6, 40][k[6] % 3])),
                         SagaStep("charge", svc["billing"], "charge", svc["billing"], "refund", timeout=ticks(3 + k[7] % 6)),
                         SagaStep("ship", svc["shipping"], "ship", svc["shipping"], "cancel", timeout=None)],
                on_complete=lambda sid, st, res: outcomes.append((sid, st.name)))
    backend = Replier("mesh_backend", slowish)
    side = Sidecar("sidecar", backend, rate_limit_policy=mk_rl_policy(k[0], k[1], k[2]) if k[3] % 2 else None, rate_limit_queue_capacity=5,
                   circuit_failure_threshold=1 + k[4] % 4, circuit_success_threshold=1 + k[2] % 2, circuit_timeout=ticks([1, 10 + k[5] % 10][k[5] % 3 > 0]),
                   request_timeout=ticks([1, 3 + k[6] % 6, 40][k[6] % 3]), max_retries=k[7] % 4, retry_base_delay=ticks([1 + k[0] % 3, 12][k[0] % 4 == 0]))
    primed = []

    def client(self, e):
        i = self.events_received
        out = [Event(time=self.now, event_type="payment", target=idem, context={"metadata": {"idempotency_key": f"pay-{rnd.randrange(8)}"}}),
               Event(time=self.now, event_type="request", target=side, context={"metadata": {"n": i}})]
        if i % 3 == 0:
            out.append(Event(time=self.now, event_type="start_order", target=saga, context={"payload": {"order_id": i}}))
        outbox.write({"order_id": i, "event_type": "order_created"})
        if not primed:
            primed.append(1)
            out.append(from_lib(outbox, [outbox.prime_poll()])[0])
        return out
    c = Proc("client", client)
    n = 40
    srcs = [const_source("a", c, 2, n * 2, case["seed"], etype="Go")]
    sim = mksim([idem, pay, outbox, bus, saga, side, backend, c] + list(svc.values()), n * 2 + 250, sources=srcs)
    return Scenario(sim, workload=4 * n, extra=lambda: {"outcomes": sorted(outcomes), "circuit": side.circuit_state})


# ------------------------------------------------------------------------------ behaviour / advertising
@family("behavior_population", "strkeys", "modrng")
def f_behavior_population(case):
    from happysimulator.components import behavior as bh
    from happysimulator.components.behavior.stimulus import (broadcast_stimulus, influence_propagation, policy_announcement,
                                                              price_change, targeted_stimulus)
    k = K(case)
    seed = case["seed"]
    util = lambda c, ctx: {"buy": 0.6 + 0.3 * ctx.traits.get("openness"), "wait": 0.5, "switch": 0.3}.get(c.action, 0.1)  # noqa: E731
    models = [lambda: bh.UtilityModel(utility_fn=util, temperature=[0.0, 0.5][k[0] % 2]),
              lambda: bh.BoundedRationalityModel(utility_fn=util, aspiration=0.55),
              lambda: bh.SocialInfluenceModel(individual_fn=util, conformity_weight=0.5),
              lambda: bh.RuleBasedModel([bh.Rule(condition=lambda ctx: ctx.state.mood > 0.5, action="buy", priority=2)], default_action="wait"),
              lambda: bh.CompositeModel([(bh.UtilityModel(utility_fn=util), 0.7), (bh.BoundedRationalityModel(utility_fn=util, aspiration=0.4), 0.3)])]
    mk = models[k[1] % len(models)]
    size = 6 + k[2] % 6
    if k[3] % 2:
        pop = bh.Population.uniform(size=size, decision_model=mk(), graph_type=["small_world", "complete", "random"][k[4] % 3], seed=seed)
    else:
        dist = bh.NormalTraitDistribution(means={"openness": 0.7, "agreeableness": 0.6}, stds={"openness": 0.1, "agreeableness": 0.1})
        pop = bh.Population.from_segments(total_size=size, segments=[
            bh.DemographicSegment("innovators", fraction=0.3, trait_distribution=dist, decision_model_factory=mk, seed=seed + 1),
            bh.DemographicSegment("majority", fraction=0.7, trait_distribution=bh.UniformTraitDistribution(["openness", "conscientiousness", "extraversion", "agreeableness", "neuroticism"]), decision_model_factory=mk, seed=seed + 2)],
            graph_type=["small_world", "complete", "random"][k[4] % 3], seed=seed)
    log = []
    for ag in pop.agents:
        ag.action_delay = ticks(k[5] % 3)
        ag.heartbeat_interval = ticks(10 + k[6] % 10) if k[7] % 2 else 0.0
        for act in ("buy", "wait", "switch"):
            ag.on_action(act, lambda a, choice, e: log.append((a.name, choice.action)) or None)
    infl = [bh.DeGrootModel(self_weight=0.3), bh.BoundedConfidenceModel(epsilon=0.4, self_weight=0.5), bh.VoterModel()][k[0] % 3]
    env = bh.BehaviorEnvironment(name="market", agents=pop.agents, social_graph=pop.social_graph, influence_model=infl, seed=seed)
    for i, ag in enumerate(pop.agents):
        ag.state.beliefs["product_sentiment"] = (i % 5) / 4.0
    evs = []
    for i in range(6):
        t = ticks(4 + 12 * i)
        evs.append(broadcast_stimulus(t, env, "Promo", choices=["buy", "wait", "switch"], valence=[0.2, 9.0, -9.0][(i + k[7]) % 3]))
        evs.append(price_change(t + ticks(3), env, "GadgetX", 100.0, 100.0 - 5 * i))
        evs.append(influence_propagation(t + ticks(6), env, topic="product_sentiment"))
    evs.append(targeted_stimulus(ticks(20), env, [a.name for a in pop.agents[:3]], "Coupon", choices=["buy", "wait"]))
    evs.append(policy_announcement(ticks(30), env, "Tariff", {"tax": 0.1}))
    sim = mksim([env] + list(pop.agents), 160, events=evs)
    for ag in pop.agents:
        hb = ag.schedule_first_heartbeat(Instant.Epoch)
        if hb is not None:
            sim.schedule(hb)
    return Scenario(sim, workload=len(evs) * size,
                    extra=lambda: {"log": sorted(log), "beliefs": {a.name: a.state.beliefs.get("product_sentiment") for a in pop.agents},
                                   "pop": pop.stats})


@family("advertising", "strkeys")
def f_advertising(case):
    from happysimulator.components.advertising import AdPlatform, Advertiser, AudienceTier
    k = K(case)
    plat = AdPlatform("platform")
    advs = []
    for i in range(2 + k[0] % 2):
        tiers = [AudienceTier(f"tier{j}", base_monthly_sales=50.0 * (j + 1), base_cpa=8.0 + 12.0 * j + k[1] % 5) for j in range(2 + k[2] % 3)]
        advs.append(Advertiser(f"shop{i}", product_price=100.0, production_cost=40.0 + 5 * ((k[3] + i) % 4), tiers=tiers, platform=plat,
                               evaluation_interval=ticks(4 + (k[4] + i) % 6)))
    evs = []
    for a in advs:
        evs += a.start_events()
        for j in range(5):
            evs.append(md_ev(10 + 20 * j + k[5] % 7, a, "SentimentChange", sentiment=[1.0, 0.8, 0.55, 0.7, 0.95, 1.4, -0.3][(j + k[6]) % 7]))
    sim = mksim([plat] + advs, 200, events=evs)
    return Scenario(sim, workload=60)


@family("queued_resource_custom", "strkeys")
def f_queued_resource_custom(case):
    """A user subclass of QueuedResource exactly as in the repo's CLAUDE.md (has_capacity + handle_queued_event)."""
    from happysimulator.components.queued_resource import QueuedResource
    k = K(case)
    holder = {}
    sink = Sink("sink")
    conc = 1 + k[3] % 3

    class MyServer(QueuedResource):
        def __init__(self, name, downstream):
            super().__init__(name, policy=mk_policy(k[0], k[1], k[2], [0, 4][k[4] % 2], holder))
            self.downstream, self._in_flight = downstream, 0

        def has_capacity(self):
            return self._in_flight < conc

        def handle_queued_event(self, event):
            self._in_flight += 1
            try:
                yield ticks(1 + event.context.get("prio", 0))
            finally:
                self._in_flight -= 1
            return [Event(time=self.now, event_type="Done", target=self.downstream, context=event.context)]
    srv = MyServer("myserver", sink)
    holder["e"] = srv
    n = 50
    a = const_source("a", srv, 1 + k[5] % 2, n, case["seed"])
    b = poisson_source("b", srv, 120.0, n, case["seed"] + 1)
    sim = mksim([srv, sink], n + 300, sources=[a, b])
    return Scenario(sim, workload=2 * n)


@family("prebuilt_events", "strkeys")
def f_prebuilt_events(case):
    """The usage of the repo's own examples (crdt_convergence.py, raft_leader_election.py, ...): the initial events
    are built first, the Simulation is constructed afterwards, then the events are scheduled -- here with a source
    and post-construction events that tie with them on the tick grid."""
    from happysimulator.components.server.server import Server
    k = K(case)
    sink = Sink("sink")
    srv = Server("srv", concurrency=1, service_time=ConstantLatency(ticks(1 + k[0] % 2)), queue_policy=mk_policy(k[1] % 3, 0, 0, 0, {}),
                 downstream=sink)
    n = 30
    pre = [Event(time=T(2 + 2 * i), event_type="Prebuilt", target=srv, context={"prio": i % 3, "created_at": T(2 + 2 * i)}) for i in range(n)]
    src = const_source("src", srv, 2, 2 * n, case["seed"])                 # ticks at 2, 4, 6, ... : ties with the prebuilt events
    sim = mksim([srv, sink], 2 * n + 200, sources=[src], events=pre, keep_prebuilt=True)
    warm = Collector("warmup")          # a second group of initial events, scheduled after construction
    warm.set_clock(sim._clock)
    for i in range(10 + k[2] % 40):
        sim.schedule(Event(time=T(1), event_type="Warm", target=warm, context={}))
    for i in range(n // 2):
        sim.schedule(Event(time=T(2 + 4 * i), event_type="Late", target=srv, context={"prio": 1, "created_at": T(2 + 4 * i)}))
    return Scenario(sim, workload=3 * n + 50)


def key_stream_worker(store, nkeys, salt, case, name="scanner"):
    """A worker that walks through ``nkeys`` distinct string keys (each new key evicts from a small cache) and keeps
    going back to keys it used 3, 20, 45, 60, 90 and 150 steps ago, i.e. to keys that were evicted recently, long ago,
    and longer ago than any bounded history (ghost queues of 50 entries, frequency tables, sample windows) can hold."""
    rnd = rng_of(case, 700 + salt)
    keys = [f"item-{i:03d}" for i in range(nkeys)]

    def run(self, e):
        hits = 0
        for i, key in enumerate(keys):
            v = yield from store.get(key)
            hits += v is not None
            if i % 2:
                back = rnd.choice([3, 20, 45, 60, 90, 150])
                if i - back >= 0:
                    v = yield from store.get(keys[i - back])
                    hits += v is not None
            if i % 25 == 24:
                yield from store.put(keys[i - 7], i)
        self.log.append(("hits", hits))
    return Proc(name, run), keys


def _evict_family(idx, name):
    """One family per eviction policy (write-through, so the policy is the only source of variation): every policy
    is exercised in every run instead of one CachedStore scenario in ten; a 240-300 key stream through a 2-6 entry
    cache overflows every bounded structure inside the policies."""
    def build_(case):
        from happysimulator.components.datastore import CachedStore, KVStore
        k = K(case)
        holder = {}
        kv = KVStore("db", read_latency=ticks(1), write_latency=ticks(1 + k[1] % 2))
        cs = CachedStore("cache", kv, cache_capacity=2 + k[2] % 5, eviction_policy=mk_eviction(idx, xseed(case, k[0]), k[3], holder),
                         cache_read_latency=ticks(1), write_through=True)
        holder["e"] = cs
        scanner, keys = key_stream_worker(cs, 240 + 20 * (k[4] % 4), idx, case)
        for i, key in enumerate(keys):
            kv.put_sync(key, i)
        workers, evs = kv_workers(cs, case, 2, 20, 10 + idx, ops=("put", "get", "get", "get", "delete"))
        sim = mksim([kv, cs, scanner] + workers, 3000, events=evs + [ev(1, scanner, "Start")])
        return Scenario(sim, workload=600, extra=lambda: {"logs": [w.log for w in workers], "scan": scanner.log,
                                                          "cached": sorted(cs.get_cached_keys())})
    build_.__name__ = f"f_evict_{name}"
    return build_


for _i, _n in enumerate(EVICTION_NAMES):
    family("evict_" + _n.replace("-", "_"), "strkeys")(_evict_family(_i, _n))


@family("transactions_lsm", "strkeys")
def f_transactions_lsm(case):
    """TransactionManager over an LSMTree with a tiny memtable: every commit writes 3-6 distinct string keys, so the
    memtable fills up in the middle of a commit and the flush boundaries (hence SSTable contents, read paths, bloom
    filter hits and level statistics) depend on the order in which the commit applies its keys."""
    from happysimulator.components.storage import lsm_tree as lt
    from happysimulator.components.storage.transaction_manager import IsolationLevel, TransactionManager
    k = K(case)
    strat = [lt.SizeTieredCompaction(min_sstables=2 + k[1] % 3), lt.LeveledCompaction(level_0_max=2 + k[1] % 3, size_ratio=2, base_size_keys=2),
             lt.FIFOCompaction(max_total_sstables=6 + k[1] % 5)][k[0] % 3]
    lsm = lt.LSMTree("txlsm", memtable_size=2 + k[2] % 2, compaction_strategy=strat, sstable_read_latency=ticks(1),
                     sstable_write_latency=ticks(1 + k[3] % 3), max_levels=3 + k[4] % 2)
    iso = [IsolationLevel.READ_COMMITTED, IsolationLevel.SNAPSHOT_ISOLATION, IsolationLevel.SERIALIZABLE][k[5] % 3]
    tm = TransactionManager("tm", store=lsm, isolation=iso)
    keys = [f"acct:{name}" for name in ("alice", "bob", "carol", "dave", "erin", "frank", "grace", "heidi", "ivan", "judy")]
    rnd = rng_of(case, 81)
    nclients = 2 + k[6] % 3

    def client(self, e):
        me = e.context["w"]
        for t in range(2 + (k[7] + me) % 2):
            tx = yield from tm.begin()
            for key in rnd.sample(keys, 3 + rnd.randrange(4)):
                yield from tx.write(key, f"c{me}t{t}")
            ok = yield from tx.commit()
            self.log.append(("commit", bool(ok)))
            yield ticks(1 + rnd.randrange(3))
        for key in keys:                                   # read everything back through the LSM read path
            v = yield from lsm.get(key)
            self.log.append((key, v, self.now.nanoseconds // TICK))
        rows = yield from lsm.scan(keys[0], keys[-1])
        self.log.append(("scan", len(list(rows or []))))
    cs = [Proc(f"txclient{i}", client) for i in range(nclients)]
    sim = mksim([lsm, tm] + cs, 1500, events=[ev(1 + 2 * i, c, "Start", w=i) for i, c in enumerate(cs)])
    return Scenario(sim, workload=nclients * 40,
                    extra=lambda: {"logs": [c.log for c in cs], "levels": lsm.level_summary, "lsm": lsm.stats})


SLOW_WINDOWS = [1.7, 2.05, 3.3, 4.1, 8.2, 16.4]      # float-unfriendly periods above one second


@family("rate_limiters_slow", "strkeys")
def f_rate_limiters_slow(case):
    """Every rate-limiter policy, the Inductor and the DistributedRateLimiter with a period W > 1 s that floats cannot
    represent exactly (window sizes W, rates k/W), bursts that leave requests buffered, and an explicit end_time of a
    dozen periods: the polls that release the buffered requests land exactly on the window / refill boundaries."""
    from happysimulator.components.datastore import KVStore
    from happysimulator.components.rate_limiter import DistributedRateLimiter, Inductor, RateLimitedEntity
    from happysimulator.components.rate_limiter import policy as rp
    k = K(case)
    W = pick(SLOW_WINDOWS, k[0])
    n = 1 + k[1] % 2
    sink = Sink("sink")
    pols = {"token": rp.TokenBucketPolicy(capacity=float(n), refill_rate=n / W, initial_tokens=float(k[2] % 2)),
            "leaky": rp.LeakyBucketPolicy(leak_rate=n / W),
            "sliding": rp.SlidingWindowPolicy(window_size_seconds=W, max_requests=n),
            "fixed": rp.FixedWindowPolicy(requests_per_window=n, window_size=W),
            "adaptive": rp.AdaptivePolicy(initial_rate=2.0 * n / W, min_rate=1.0 / W, max_rate=8.0 / W, window_size=W)}
    lims = [RateLimitedEntity(f"rl_{name}", sink, p, queue_capacity=[1000, 4][k[3] % 2]) for name, p in pols.items()]
    ind = Inductor("inductor_slow", sink, time_constant=W, queue_capacity=[10000, 4][k[3] % 2])
    redis = KVStore("redis", read_latency=0.001, write_latency=0.001)
    dist = [DistributedRateLimiter(f"dist{i}", sink, redis, global_limit=n + i, window_size=W) for i in range(2)]
    targets = lims + [ind] + dist
    evs = []
    burst = 3 + k[4] % 3                                   # n are admitted, the rest is buffered
    for tgt in targets:
        for j in range(burst):
            evs.append(Event(time=Instant.Epoch, event_type="Request", target=tgt, context={"created_at": Instant.Epoch, "prio": j}))
        for j in range(1, 5):                              # later arrivals on half-period multiples and just off them
            t = Instant.from_seconds(j * W / 2) + (0 if (k[5] + j) % 3 else Duration(1000 * (1 + k[6] % 3)))
            evs.append(Event(time=t, event_type="Request", target=tgt, context={"created_at": t, "prio": 0}))
    from happysimulator.core.simulation import Simulation as _Sim
    sim = _Sim(entities=targets + [redis, sink], end_time=Instant.from_seconds((10 + k[7] % 4) * W))
    for e in evs:
        sim.schedule(_fresh(e))
    return Scenario(sim, workload=len(evs), variant=f"W{W}")


class _RerunSim(Simulation):
    """A Simulation whose run() is: run to completion, ``control.reset()``, run again (the hooks installed on the
    control surface stay in place, so one delivery log / one spin guard covers both runs)."""

    def run(self):
        first = super().run()
        self.first_summary = first
        self.control.reset()
        return super().run()


@family("reset_rerun", "strkeys")
def f_reset_rerun(case):
    """Pre-scheduled events (several hundred distinguishable same-time events to a collector, a dozen jobs through a
    Server, a few later ones), run, ``control.reset()``, run again: reset replays the pre-run events, so the second
    run must deliver them in creation order whatever their creation indices are in this process."""
    from happysimulator.components.server.server import Server
    k = K(case)
    sink, col = Sink("sink"), Collector("collector")
    srv = Server("srv", concurrency=1 + k[0] % 2, service_time=ConstantLatency(ticks(1 + k[1] % 3)), downstream=sink)
    sim = _RerunSim(entities=[srv, sink, col], end_time=T(400))
    n = 400 + 40 * (k[2] % 8)
    for i in range(n):                                     # same instant, distinguishable by type
        sim.schedule(Event(time=T(2 + (i % 3 == 0)), event_type=f"note{i}", target=col, context={"metadata": {"i": i}}))
    for i in range(12 + k[3] % 19):                        # 12-30 jobs, most of them at one instant
        sim.schedule(Event(time=T(4 if i % 4 else 4 + i), event_type=f"job{i}", target=srv, context={"metadata": {"i": i}}))
    return Scenario(sim, workload=2 * n + 60)


@family("explicit_seeds", "strkeys", "noglobalseed")
def f_explicit_seeds(case):
    """A model in which *every* random choice is seeded explicitly (value distributions, eviction policies, sketches,
    sharding) and nothing draws from the module-level generators.  The harness therefore does not seed those
    generators for this family (trait ``noglobalseed``): the run must not depend on their state, i.e. on what ran
    before.  Of the three value distributions exactly one is seeded with 0, one with 1 and one with the case seed."""
    from happysimulator import sketching as sk
    from happysimulator.components.datastore import CachedStore, KVStore, ShardedStore
    from happysimulator.components.datastore import eviction_policies as ep
    from happysimulator.components.datastore import sharded_store as ss
    from happysimulator.components.sketching import QuantileEstimator, SketchCollector, TopKCollector
    from happysimulator.distributions.uniform import UniformDistribution
    from happysimulator.distributions.zipf import ZipfDistribution
    k = K(case)
    keys = [f"item-{i}" for i in range(60)]
    regions = ["us-east", "us-west", "eu", "ap"]
    zipf = ZipfDistribution(keys, s=1.0 + (k[1] % 3) * 0.25, seed=xseed(case, k[0]))
    unif = UniformDistribution(regions, seed=xseed(case, k[0] + 1))
    sizes = ZipfDistribution([1, 2, 3, 5, 8], s=1.2, seed=xseed(case, k[0] + 2))
    kv = KVStore("db", read_latency=ticks(2), write_latency=ticks(2))
    for i, key in enumerate(keys):
        kv.put_sync(key, i)
    pol = [ep.RandomEviction(seed=xseed(case, k[2])), ep.SampledLRUEviction(sample_size=2, seed=xseed(case, k[2])), ep.LRUEviction()][k[3] % 3]
    cache = CachedStore("cache", kv, cache_capacity=4 + k[4] % 6, eviction_policy=pol, cache_read_latency=ticks(1))
    shards = [KVStore(f"shard{i}", read_latency=ticks(1), write_latency=ticks(1)) for i in range(3)]
    sharded = ShardedStore("sharded", shards, sharding_strategy=ss.ConsistentHashSharding(virtual_nodes=8, seed=xseed(case, k[5])))
    sinks = {r: Sink(f"sink-{r}") for r in regions}
    item = lambda e: e.context["key"]  # noqa: E731
    topk = TopKCollector("topk", k=5, value_extractor=item, seed=xseed(case, k[6]))
    quant = QuantileEstimator("sizes", value_extractor=lambda e: float(e.context["size"]), seed=xseed(case, k[6] + 1))
    res = SketchCollector("reservoir", sk.ReservoirSampler(size=6, seed=xseed(case, k[7])), value_extractor=item)
    cms = SketchCollector("cms", sk.CountMinSketch(width=16, depth=3, seed=xseed(case, k[7] + 1)), value_extractor=item)

    def client(self, e):
        key, region, size = zipf.sample(), unif.sample(), sizes.sample()
        ctx = {"key": key, "region": region, "size": size}
        v = yield from cache.get(key)
        yield from sharded.put(key, size)
        self.log.append((key, region, v))
        return [Event(time=self.now, event_type="Done", target=sinks[region], context=ctx)] + \
               [Event(time=self.now, event_type="Item", target=c, context=ctx) for c in (topk, quant, res, cms)]
    cl = Proc("client", client)
    n = 70
    src = const_source("src", cl, 2, 2 * n, case["seed"], etype="Go")
    sim = mksim([kv, cache, sharded, cl, topk, quant, res, cms] + shards + list(sinks.values()), 2 * n + 100, sources=[src])
    return Scenario(sim, workload=6 * n, extra=lambda: {"log": cl.log, "topk": [(x.item, x.count) for x in topk.top()],
                                                         "reservoir": sorted(res.sketch.sample()), "sizes": shards and sharded.get_shard_sizes()})


def _spell(kind, i):
    """One numeric value in three equal-but-differently-typed spellings (1 == 1.0 == True, 0 == 0.0 == False)."""
    if kind == 0:
        return int(i)
    if kind == 1:
        return float(i)
    return bool(i) if i in (0, 1) else (-0.0 if i == 0 else float(i))


@family("sketch_tuple_keys", "strkeys", "spelling")
def f_sketch_tuple_keys(case):
    """Frequency sketches keyed by (region, tier) tuples and bare numbers whose numeric part is spelled as int, float or
    bool depending on k[0] (trait ``spelling``: C03 runs the same family with the next spelling as junk before the
    batch in one interpreter): equal-but-differently-typed keys of an *earlier* simulation must not influence this one."""
    from happysimulator import sketching as sk
    from happysimulator.components.sketching import SketchCollector, TopKCollector
    k = K(case)
    kind = k[0] % 3
    seed = xseed(case, k[1])
    regions = ["eu", "us", "ap"]
    item = lambda e: e.context["item"]  # noqa: E731
    cms = SketchCollector("cms", sk.CountMinSketch(width=4 + k[2] % 6, depth=2 + k[3] % 2, seed=seed), value_extractor=item)
    cms_num = SketchCollector("cms_num", sk.CountMinSketch(width=3 + k[2] % 4, depth=2, seed=seed), value_extractor=lambda e: e.context["num"])
    topk = TopKCollector("topk", k=3, value_extractor=item, seed=seed)
    hll = SketchCollector("hll", sk.HyperLogLog(precision=4 + k[4] % 5, seed=seed), value_extractor=item)
    bloom = SketchCollector("bloom", sk.BloomFilter(size_bits=32 + 8 * (k[5] % 8), num_hashes=2, seed=seed), value_extractor=item)
    rnd = rng_of(case, 95)

    def fan(self, e):
        tier = rnd.randrange(5)
        ctx = {"item": (rnd.choice(regions), _spell(kind, tier)), "num": _spell(kind, rnd.randrange(8))}
        return [Event(time=self.now, event_type="Item", target=c, context=ctx) for c in (cms, cms_num, topk, hll, bloom)]
    f = Proc("fanout", fan)
    n = 90
    sim = mksim([cms, cms_num, topk, hll, bloom, f], n + 50, sources=[const_source("items", f, 1, n, case["seed"], etype="Go")])
    probes = [(r, _spell(kind, t)) for r in regions for t in range(5)]
    return Scenario(sim, workload=3 * n, variant="",
                    extra=lambda: {"cms": [cms.sketch.estimate(p) for p in probes],
                                   "num": [cms_num.sketch.estimate(_spell(kind, i)) for i in range(8)],
                                   "topk": [(repr(x.item), x.count) for x in topk.top()],
                                   "hll": hll.sketch.cardinality(), "hll_regs": list(getattr(hll.sketch, "_registers", []) or []),
                                   "bloom": [bloom.sketch.contains(p) for p in probes + [("zz", 9)]]})


JUNK["sketch_tuple_keys"] = lambda c: dict(c, k=[c["k"][0] + 1] + list(c["k"][1:]))


@family("any_of_race", "strkeys")
def f_any_of_race(case):
    """Clients that race a reply against a deadline (and sometimes a cancel signal) with ``any_of`` *after* having been
    busy: by the time the race is set up two or more of its futures are already resolved, and the reported winner must
    be a function of the model (argument order), not of where the allocator placed the futures."""
    k = K(case)
    rnd = rng_of(case, 96)
    done = Collector("outcomes")
    backend = Replier("backend", lambda e: ticks(1 + rnd.randrange(3)))

    def client(self, e):
        nf = 2 + (self.events_received + k[0]) % 3
        reply = SimFuture()
        extra = [SimFuture() for _ in range(nf - 1)]                  # deadline, cancel signal, ...
        side = [Event(time=self.now, event_type="Call", target=backend, context={"reply_future": reply})]
        for j, f in enumerate(extra):
            side.append(Event.once(self.now + ticks(1 + (k[1] + j) % 3), "Deadline", lambda ev_, f=f, j=j: f.resolve(f"deadline{j}")))
        yield ticks(4 + k[2] % 3), side                               # busy longer than the reply and every deadline
        order = [reply] + extra if (self.events_received + k[3]) % 2 else extra + [reply]
        idx, val = yield any_of(*order)
        self.log.append((idx, str(val)))
        return [Event(time=self.now, event_type=f"Won{idx}", target=done, context={})]
    clients = [Proc(f"client{i}", client) for i in range(3)]
    n = 40
    srcs = [const_source(f"s{i}", c, 5 + i, 5 * n, case["seed"] + i, etype="Go") for i, c in enumerate(clients)]
    sim = mksim(clients + [backend, done], 5 * n + 60, sources=srcs)
    return Scenario(sim, workload=3 * n, extra=lambda: {"logs": [c.log for c in clients]})


@family("consistent_hash_store", "strkeys", "hashroute")
def f_consistent_hash_store(case):
    """ShardedStore with ConsistentHashSharding whose seed (0, 1 or the case seed, k[5]) belongs to this simulation only:
    C03 first runs the same family with the same ring geometry but the next seed as junk in W1 (``JUNK``)."""
    from happysimulator.components.datastore import KVStore, ShardedStore
    from happysimulator.components.datastore import sharded_store as ss
    k = K(case)
    shards = [KVStore(f"shard{i}", read_latency=ticks(1 + i % 2), write_latency=ticks(1 + (k[1] + i) % 3)) for i in range(3 + k[2] % 3)]
    st = ShardedStore("sharded", shards, sharding_strategy=ss.ConsistentHashSharding(virtual_nodes=2 + k[3] % 12, seed=xseed(case, k[5])))
    workers, evs = kv_workers(st, case, 3, 30, 14, ops=("put", "put", "get", "get", "delete"))
    sim = mksim([st] + shards + workers, 1500, events=evs)
    return Scenario(sim, workload=90, extra=lambda: {"logs": [w.log for w in workers], "sizes": st.get_shard_sizes(),
                                                     "placement": {key: st.get_shard_for_key(key) for key in KEYS}})


def _other_seed(c):
    k = list(c["k"])
    k[5] += 1
    seed = c["seed"] if c["seed"] not in (0, 1) else c["seed"] + 2     # keep the three xseed values distinct
    return dict(c, k=k, seed=seed)


JUNK["consistent_hash_store"] = _other_seed


# A reusable scenario definition, as user code would keep it: the node names of the cluster live in one module-level
# list that every build of the family hands to its fault spec (the builder itself never mutates it).
CLUSTER_NODES = ["n0", "n1", "n2", "n3", "n4"]


@family("random_partition_shared_spec", "strkeys", "modrng")
def f_random_partition_shared_spec(case):
    """Full mesh of five nodes pinging each other while a recurring RandomPartition fault splits and heals the cluster; the
    fault is built from the shared module-level ``CLUSTER_NODES`` list, so a second build in the same interpreter starts
    from the same spec objects (C03 runs the family once as junk before the batch in W1)."""
    from happysimulator.components.network.link import NetworkLink
    from happysimulator.components.network.network import Network
    from happysimulator.faults import FaultSchedule, RandomPartition
    k = K(case)
    net = Network("net")
    nodes = []

    def node_fn(self, e):
        md = e.context.get("metadata", {})
        if e.event_type == "Kick":
            dst = nodes[(nodes.index(self) + 1 + md.get("i", 0) % 4) % len(nodes)]
            return [net.send(self, dst, "Ping", payload={"i": md.get("i", 0)})]
        self.log.append((e.event_type, md.get("source"), self.now.nanoseconds // TICK))
        return None
    nodes += [Proc(name, node_fn) for name in CLUSTER_NODES]
    for i, a in enumerate(nodes):
        for b in nodes[i + 1:]:
            net.add_bidirectional_link(a, b, NetworkLink(f"l-{a.name}-{b.name}", latency=ConstantLatency(ticks(1 + (k[0] + i) % 2))))
    sched = FaultSchedule()
    sched.add(RandomPartition(CLUSTER_NODES, mtbf=ticks(6 + k[1] % 10), mttr=ticks(4 + k[2] % 8), seed=xseed(case, k[3]), network_name="net"))
    sim = Simulation(entities=[net] + nodes, fault_schedule=sched, end_time=T(160))
    for t in range(150):
        sim.schedule(Event(time=T(1 + t), event_type="Kick", target=nodes[t % len(nodes)], context={"metadata": {"i": t}}))
    return Scenario(sim, workload=150, extra=lambda: {"logs": [n.log for n in nodes], "dropped": net.events_dropped_partition})


JUNK["random_partition_shared_spec"] = lambda c: dict(c, k=[c["k"][0], c["k"][1] + 3, c["k"][2] + 1] + list(c["k"][3:]))


@family("lsm_absent_reads", "strkeys")
def f_lsm_absent_reads(case):
    """An LSM tree with a small memtable is loaded (a dozen flushes), then two readers look up several hundred keys that
    were never written: every lookup consults the Bloom filter of every SSTable, and which absent keys are false
    positives decides the read I/O times and ``bloom_filter_saves``."""
    from happysimulator.components.storage import lsm_tree as lt
    k = K(case)
    strat = [lt.SizeTieredCompaction(min_sstables=4 + k[1] % 3), lt.LeveledCompaction(level_0_max=4, size_ratio=4, base_size_keys=8),
             lt.FIFOCompaction(max_total_sstables=12)][k[0] % 3]
    lsm = lt.LSMTree("lsm", memtable_size=3 + k[2] % 3, compaction_strategy=strat, sstable_read_latency=ticks(1), sstable_write_latency=ticks(1),
                     max_levels=3)
    present = [f"user:{i:03d}" for i in range(36 + k[3] % 12)]

    def loader(self, e):
        for i, key in enumerate(present):
            yield from lsm.put(key, i)
        self.log.append("loaded")

    def reader(self, e):
        base = 1000 * (1 + e.context["w"])
        found = 0
        for i in range(260):
            v = yield from lsm.get(f"ghost:{base + i}")
            found += v is not None
            if i % 40 == 0:
                v = yield from lsm.get(present[i % len(present)])
        self.log.append(("found", found, self.now.nanoseconds // TICK))
    ld = Proc("loader", loader)
    rds = [Proc(f"reader{i}", reader) for i in range(2)]
    sim = mksim([lsm, ld] + rds, 3000, events=[ev(1, ld, "Start")] + [ev(400 + i, r, "Start", w=i) for i, r in enumerate(rds)])
    return Scenario(sim, workload=600, extra=lambda: {"logs": [r.log for r in rds], "lsm": lsm.stats, "levels": lsm.level_summary})


JUNK["lsm_absent_reads"] = lambda c: dict(c, k=[c["k"][0] + 1, c["k"][1], c["k"][2] + 1] + list(c["k"][3:]))
