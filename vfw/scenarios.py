"""Scenario catalogue shared by C03 (reproducibility) and C07 (no past emission / no spin).

``SCENARIOS[family](case) -> Scenario`` builds a small, finite simulation out of *real* library
components.  A case is JSON ``{"family": str, "seed": int, "k": [8 small ints]}``; every knob is taken
modulo its range so any ints work (the shrinker halves them).  A builder is a pure function of the case:
``build(case)`` first calls ``harness.seed_globals(seed)`` ("the same seeds") and builders pass explicit
seeds wherever a component accepts one.  The only glue code are the tiny harness entities defined here
(``Proc``, ``Relay``, ``Replier`` ...): they always stamp emitted events with the *current* clock and never
poll, so any past emission or frozen-clock spin seen in a scenario comes from library code.

Conventions used by every builder (C07 generator requirements):
* every latency is non-zero and lies on the dyadic tick grid (1/512 s) unless a component draws it from
  its own distribution;
* every pool / lock / queue has >= 2 concurrent users;
* every scenario has an ``end_time`` (sources keep ticking after ``stop_after``) and is sized to stay
  below ~2000 deliveries.
"""
from __future__ import annotations

import dataclasses
import enum
import json
import random as _random

from .harness import TICK, seed_globals, ticks

# ----------------------------------------------------------------------------------------- helpers
DROP_FIELDS = {
    # wall-clock / identity fields removed by name from statistics snapshots
    "wall_clock_seconds", "events_per_second", "wall_time", "wall_clock", "message_id", "uuid", "hook_id",
    "breakpoint_id", "id",
}

ORIGIN = {}        # id(event) -> library class that created an event a harness worker passes on (see from_lib)
TRAITS = {}        # family -> set of {"strkeys", "modrng", "hashroute"} (C03 non-triviality declaration)
SCENARIOS = {}     # family -> builder(case) -> Scenario


class Scenario:
    def __init__(self, sim, entities=(), workload=0, extra=None, family=""):
        self.sim = sim
        self.family = family
        self.workload_size = int(workload)
        self._extra = extra
        self._roots = list(entities)
        self.entities = discover(sim, self._roots)
        self.classes = {n for n in (lib_class_name(e) for e in self.entities) if n}
        self.classes |= {n for n in _aux_classes(self.entities)}

    def stats(self):
        """JSON-able snapshot of the public statistics of every component of the scenario."""
        acc = {}
        for e in self.entities:
            if not _is_lib(type(e)) and not isinstance(e, _Glue):
                continue
            d = {}
            s = _public_stats(e)
            if s is not None:
                d["stats"] = s
            for attr in ("events_received", "total", "by_type", "depth", "generated_count", "done"):
                if hasattr(type(e), attr) or attr in getattr(e, "__dict__", {}):
                    try:
                        v = getattr(e, attr)
                    except Exception:  # noqa: BLE001
                        continue
                    if not callable(v):
                        d[attr] = jsonable(v)
            if d:
                acc.setdefault(f"{type(e).__name__}:{getattr(e, 'name', '')}", []).append(d)
        out = {}
        for key, ds in acc.items():
            out[key] = ds[0] if len(ds) == 1 else sorted(ds, key=lambda v: json.dumps(v, sort_keys=True, default=str))
        if self._extra is not None:
            out["extra"] = jsonable(self._extra())
        return out


def lib_class_name(obj):
    """Name of the nearest library class in the MRO of ``obj`` (a harness subclass of an abstract library
    component counts as that component); None for pure harness entities."""
    for c in type(obj).__mro__:
        if _is_lib(c):
            return None if c.__name__ in ("Entity", "ABC", "object") else c.__name__
    return None


def _is_lib(cls):
    return (getattr(cls, "__module__", "") or "").startswith("happysimulator.")


def _public_stats(e):
    try:
        s = getattr(e, "stats", None)
    except Exception as ex:  # noqa: BLE001  (a stats property that raises is reported as such)
        return {"error": type(ex).__name__}
    if s is None or callable(s):
        return None
    if dataclasses.is_dataclass(s) or isinstance(s, dict):
        return jsonable(s)
    return None


def jsonable(x, depth=0):
    """Canonical JSON-able form: dataclass -> dict (identity/wall-clock fields dropped by name),
    Instant/Duration -> ns, enum -> name, sets -> sorted, entities -> their name, other objects -> type name."""
    if depth > 8:
        return "..."
    if x is None or isinstance(x, (bool, int, str)):
        return x
    if isinstance(x, float):
        return x
    if isinstance(x, enum.Enum):
        return x.name
    if dataclasses.is_dataclass(x) and not isinstance(x, type):
        return {f.name: jsonable(getattr(x, f.name, None), depth + 1) for f in dataclasses.fields(x)
                if f.name not in DROP_FIELDS and not f.name.startswith("_")}
    if hasattr(x, "nanoseconds") and isinstance(getattr(x, "nanoseconds", None), int):
        return {"ns": x.nanoseconds}
    if isinstance(x, dict):
        items = [(k if isinstance(k, str) else json.dumps(jsonable(k, depth + 1), sort_keys=True, default=str),
                  jsonable(v, depth + 1)) for k, v in x.items() if not (isinstance(k, str) and k in DROP_FIELDS)]
        return dict(sorted(items, key=lambda kv: kv[0]))
    if isinstance(x, (set, frozenset)):
        return sorted((jsonable(v, depth + 1) for v in x), key=lambda v: json.dumps(v, sort_keys=True, default=str))
    if isinstance(x, (list, tuple)):
        return [jsonable(v, depth + 1) for v in x]
    name = getattr(x, "name", None)
    if isinstance(name, str) and hasattr(x, "handle_event"):
        return f"<{name}>"
    return f"<{type(x).__name__}>"


def discover(sim, roots=()):
    """All Entity instances reachable from the simulation's registered components (attribute walk, breadth
    first; the result is only used as a *set*: statistics are keyed by class and name)."""
    seen, order, queue = set(), [], []

    def push(o, d):
        if isinstance(o, Entity):
            if id(o) not in seen:
                seen.add(id(o))
                order.append(o)
                queue.append(o)
        elif d < 3:
            if isinstance(o, dict):
                for v in list(o.values())[:64]:
                    push(v, d + 1)
            elif isinstance(o, (list, tuple, set, frozenset)):
                for v in list(o)[:64]:
                    push(v, d + 1)
            elif _is_lib(type(o)) and hasattr(o, "__dict__") and d < 2:
                for v in list(vars(o).values()):
                    push(v, d + 1)

    for attr in ("_entities", "_sources", "_probes"):
        for e in list(getattr(sim, attr, []) or []):
            push(e, 0)
    for e in roots:
        push(e, 0)
    while queue:
        e = queue.pop(0)
        try:
            vals = list(vars(e).values())
        except TypeError:
            continue
        for v in vals:
            push(v, 0)
    return order


def _aux_classes(entities):
    """Names of library (non-Entity) helper classes held by the entities: policies, strategies, distributions."""
    out = set()
    for e in entities:
        try:
            vals = list(vars(e).values())
        except TypeError:
            continue
        for v in vals:
            c = type(v)
            m = getattr(c, "__module__", "") or ""
            if m.startswith(("happysimulator.components.", "happysimulator.load.", "happysimulator.distributions.",
                             "happysimulator.sketching.")):
                out.add(c.__name__)
    return out


def K(case, n=8):
    k = case.get("k") if isinstance(case, dict) else None
    out = []
    for x in (k if isinstance(k, list) else []):
        out.append(int(x) if isinstance(x, (int, bool)) else 0)
    out = (out + [0] * n)[:n]
    return [abs(v) for v in out]


def rng_of(case, salt=0):
    return _random.Random((int(case.get("seed", 0) or 0) * 1000003 + salt) & 0xFFFFFFFF)


def family(name, *traits):
    def deco(fn):
        SCENARIOS[name] = fn
        TRAITS[name] = set(traits)
        return fn
    return deco


def build(case):
    """Seed the module-level RNGs from the case and build the scenario of ``case['family']``."""
    fams = sorted(SCENARIOS)
    fam = case.get("family") if isinstance(case, dict) else None
    if fam not in SCENARIOS:
        fam = fams[K({"k": [len(str(fam))]})[0] % len(fams)]
    seed = case.get("seed", 0) if isinstance(case, dict) else 0
    seed = int(seed) if isinstance(seed, (int, bool)) else 0
    seed_globals(abs(seed))
    ORIGIN.clear()
    c = {"family": fam, "seed": abs(seed), "k": K(case)}
    sc = SCENARIOS[fam](c)
    sc.family = fam
    return sc


# ----------------------------------------------------------------------------------------- glue entities
from happysimulator.core.entity import Entity  # noqa: E402
from happysimulator.core.event import Event  # noqa: E402
from happysimulator.core.simulation import Simulation  # noqa: E402
from happysimulator.core.temporal import Duration, Instant  # noqa: E402
from happysimulator.core.sim_future import SimFuture, all_of, any_of  # noqa: E402


class _Glue(Entity):
    """Base of the harness entities (never counted as library classes)."""


class Proc(_Glue):
    """Runs ``fn(self, event)`` (a plain function or a generator function) for every event."""

    def __init__(self, name, fn=None):
        super().__init__(name)
        self.fn = fn
        self.log = []
        self.events_received = 0

    def handle_event(self, event):
        self.events_received += 1
        if self.fn is None:
            return None
        return self.fn(self, event)


class Relay(_Glue):
    """Forwards every event to ``nxt`` at the current instant."""

    def __init__(self, name, nxt):
        super().__init__(name)
        self.nxt = nxt
        self.events_received = 0

    def handle_event(self, event):
        self.events_received += 1
        return [Event(time=self.now, event_type=event.event_type, target=self.nxt, context=event.context)]


class Replier(_Glue):
    """A backend that takes ``delay`` (float seconds > 0, or a function of the event) and then resolves
    ``context['reply_future']`` (if present and unresolved) and forwards to ``downstream`` (if given)."""

    def __init__(self, name, delay, downstream=None, value="ok"):
        super().__init__(name)
        self.delay, self.downstream, self.value = delay, downstream, value
        self.events_received = 0
        self.done = 0

    def handle_event(self, event):
        self.events_received += 1
        d = self.delay(event) if callable(self.delay) else self.delay
        yield d
        self.done += 1
        fut = event.context.get("reply_future") if isinstance(event.context, dict) else None
        if fut is not None and not fut.is_resolved:
            fut.resolve(self.value)
        if self.downstream is not None:
            return [Event(time=self.now, event_type=event.event_type, target=self.downstream, context=event.context)]
        return None


class Collector(_Glue):
    """Counts events by type."""

    def __init__(self, name="collector"):
        super().__init__(name)
        self.events_received = 0
        self.by_type = {}

    def handle_event(self, event):
        self.events_received += 1
        self.by_type[event.event_type] = self.by_type.get(event.event_type, 0) + 1
        return None


def T(n):
    """Instant at n ticks."""
    return Instant(int(n) * TICK)


def ev(t_ticks, target, etype="Request", daemon=False, **ctx):
    return Event(time=T(t_ticks), event_type=etype, target=target, context=dict(ctx), daemon=daemon)


def mksim(entities, end_ticks, sources=(), events=(), probes=()):
    sim = Simulation(entities=list(entities), sources=list(sources), probes=list(probes), end_time=T(end_ticks))
    for e in events:
        sim.schedule(e)
    return sim


def from_lib(component, evs):
    """A harness worker that schedules events *created by a library call* (``return topic.subscribe(...)``,
    ``evs = yield from topic.publish(msg)``) registers their origin, so that C07 attributes a stale timestamp
    to the component that stamped the event and not to the worker that merely returned it."""
    if evs is None:
        return None
    lst = evs if isinstance(evs, list) else [evs]
    name = lib_class_name(component) or type(component).__name__
    for e in lst:
        ORIGIN[id(e)] = (name, e)          # keeps the event alive, so the id stays unique during the run
    return evs


def pick(seq, i):
    return seq[i % len(seq)]


# =========================================================================================== families
from happysimulator.components.common import Counter as HCounter, Sink  # noqa: E402
from happysimulator.distributions.constant import ConstantLatency  # noqa: E402
from happysimulator.distributions.exponential import ExponentialLatency  # noqa: E402
from happysimulator.load.source import SimpleEventProvider, Source  # noqa: E402

POLICY_NAMES = ["fifo", "lifo", "priority", "deadline", "fair", "wfq", "adaptive", "codel", "red", "balking"]


def mk_policy(idx, a, b, cap, holder):
    """Queue policy number ``idx`` for events whose context carries prio / dl (ticks) / flow.
    ``holder['e']`` must be set to an entity attached to the simulation (clock for CoDel / deadline)."""
    from happysimulator.components import queue_policies as qp
    from happysimulator.components.industrial.balking import BalkingQueue
    from happysimulator.components.queue_policy import FIFOQueue, LIFOQueue, PriorityQueue
    name = pick(POLICY_NAMES, idx)
    a, b = 1 + a % 4, 1 + b % 4
    inf = float("inf")
    c = cap if cap else inf
    cn = cap if cap else None
    clock = lambda: holder["e"].now  # noqa: E731
    prio = lambda e: e.context.get("prio", 0)  # noqa: E731
    flow = lambda e: f"f{e.context.get('flow', 0)}"  # noqa: E731
    if name == "fifo":
        return FIFOQueue(c)
    if name == "lifo":
        return LIFOQueue(c)
    if name == "priority":
        return PriorityQueue(c, key=prio)
    if name == "deadline":
        return qp.DeadlineQueue(get_deadline=lambda e: Instant(e.context.get("dl_ns", 0)), capacity=cn, clock_func=clock)
    if name == "fair":
        return qp.FairQueue(get_flow_id=flow, max_flows=None, per_flow_capacity=(b + 1 if cap else None))
    if name == "wfq":
        return qp.WeightedFairQueue(get_flow_id=flow, get_weight=lambda f: 1 + (int(f[1:]) * a) % 3, capacity=cn,
                                    per_flow_capacity=(b + 1 if cap else None))
    if name == "adaptive":
        return qp.AdaptiveLIFO(congestion_threshold=a, capacity=cn)
    if name == "codel":
        return qp.CoDelQueue(target_delay=ticks(a), interval=ticks(4 * b), capacity=cn, clock_func=clock)
    if name == "red":
        return qp.REDQueue(min_threshold=a, max_threshold=a + b + 1, max_probability=0.5,
                           capacity=(a + b + 2 + cap) if cap else None, weight=0.5)
    return BalkingQueue(FIFOQueue(c), balk_threshold=a + 1, balk_probability=[1.0, 0.5][b % 2])


def req_ctx(seed, dl_ticks=8):
    """context_fn for SimpleEventProvider: created_at / request_id plus prio, flow, deadline and a string key."""
    r = _random.Random(seed)

    def fn(time, count):
        return {"created_at": time, "request_id": count, "prio": r.randrange(4), "flow": r.randrange(3),
                "dl_ns": time.nanoseconds + (1 + r.randrange(dl_ticks)) * TICK, "key": f"key-{r.randrange(12)}",
                "metadata": {"processing_time": ticks(1 + r.randrange(4)), "weight": 1,
                             "client_id": f"client-{r.randrange(9)}", "payload_size": 100 * (1 + r.randrange(8))}}
    return fn


def const_source(name, target, every_ticks, stop_ticks, seed, etype="Request"):
    prov = SimpleEventProvider(target, etype, T(stop_ticks), context_fn=req_ctx(seed))
    return Source.constant(rate=512.0 / max(1, every_ticks), name=name, event_provider=prov)


def poisson_source(name, target, rate, stop_ticks, seed, etype="Request"):
    prov = SimpleEventProvider(target, etype, T(stop_ticks), context_fn=req_ctx(seed))
    return Source.poisson(rate=rate, name=name, event_provider=prov)


# ------------------------------------------------------------------------------ sources -> servers -> sinks
@family("pipeline_const", "strkeys")
def f_pipeline_const(case):
    from happysimulator.components.server.server import Server
    k = K(case)
    holder = {}
    sink = Sink("sink")
    cnt = HCounter("counter")
    tee = Proc("tee", lambda self, e: [Event(time=self.now, event_type=e.event_type, target=sink, context=e.context),
                                       Event(time=self.now, event_type="Count", target=cnt, context={})])
    s2 = Server("s2", concurrency=1 + k[4] % 2, service_time=ConstantLatency(ticks(1 + k[5] % 3)), downstream=tee)
    cap = [None, 2, 4][k[3] % 3]
    pol = mk_policy(k[0], k[1], k[2], cap or 0, holder)
    s1 = Server("s1", concurrency=1 + k[6] % 3, service_time=ConstantLatency(ticks(1 + k[7] % 5)),
                queue_policy=pol, downstream=s2)
    holder["e"] = s1
    n = 40
    every = 1 + k[1] % 3
    src = const_source("src", s1, every, n * every, case["seed"])
    src2 = const_source("src2", s1, every + 1, n * every, case["seed"] + 1)
    sim = mksim([s1, s2, tee, sink, cnt], n * every + 200, sources=[src, src2])
    return Scenario(sim, workload=2 * n)


@family("pipeline_poisson", "modrng")
def f_pipeline_poisson(case):
    from happysimulator.components.server.server import Server
    k = K(case)
    holder = {}
    sink = Sink("sink")
    pol = mk_policy(k[0], k[1], k[2], [0, 3, 6][k[3] % 3], holder)
    s1 = Server("s1", concurrency=1 + k[4] % 3, service_time=ExponentialLatency(ticks(1 + k[5] % 6)),
                queue_policy=pol, downstream=sink)
    holder["e"] = s1
    rate = 40.0 + 20 * (k[6] % 5)
    stop = 256
    a = poisson_source("pa", s1, rate, stop, case["seed"])
    b = poisson_source("pb", s1, rate / 2, stop, case["seed"] + 7)
    sim = mksim([s1, sink], stop + 300, sources=[a, b])
    return Scenario(sim, workload=int(rate * 1.5 * stop / 512) + 10)


class _Sine:
    """Smooth periodic rate profile (a Profile implementation: get_rate(Instant) -> float)."""

    def __init__(self, base, amp):
        self.base, self.amp = base, amp

    def get_rate(self, time):
        import math
        return self.base + self.amp * math.sin(time.to_seconds() * 2.0)


@family("pipeline_profile", "modrng")
def f_pipeline_profile(case):
    from happysimulator.components.server.concurrency import DynamicConcurrency, WeightedConcurrency
    from happysimulator.components.server.server import Server
    from happysimulator.load.profile import LinearRampProfile
    k = K(case)
    cnt = HCounter("counter")
    conc = [2, DynamicConcurrency(initial=2, min_limit=1, max_limit=4), WeightedConcurrency(total_capacity=3)][k[0] % 3]
    srv = Server("srv", concurrency=conc, service_time=ExponentialLatency(ticks(1 + k[1] % 4)),
                 queue_capacity=[None, 5][k[2] % 2], downstream=cnt)
    # NOTE the library integrates the profile with adaptive Simpson at tol 1e-10 while Instant.from_seconds
    # quantises the argument to 1 ns: a profile whose slope exceeds a few units/s^2 (or any step, e.g. SpikeProfile
    # inside the horizon) makes next_arrival_time() recurse 2^50 deep (minutes of wall time, not a simulated-time
    # issue), so the generated profiles are smooth with slope <= 4/s.
    if k[3] % 2:
        r0 = 90.0 + k[4] % 30
        prof = LinearRampProfile(duration_s=2.0, start_rate=r0, end_rate=r0 + 2 + k[5] % 6)
    else:
        prof = _Sine(90.0 + k[4] % 40, 1.0 + (k[5] % 3) * 0.5)
    stop = 320
    src = Source.with_profile(prof, poisson=bool(k[6] % 2), name="prof",
                              event_provider=SimpleEventProvider(srv, "Request", T(stop), context_fn=req_ctx(case["seed"])))
    sim = mksim([srv, cnt], stop + 200, sources=[src])
    return Scenario(sim, workload=100)


@family("queue_driver_worker", "strkeys")
def f_queue_driver_worker(case):
    """Explicit Queue + QueueDriver + worker entity (the composition QueuedResource hides), every policy."""
    from happysimulator.components.queue import Queue
    from happysimulator.components.queue_driver import QueueDriver
    k = K(case)
    holder = {}
    sink = Sink("sink")
    limit = 1 + k[3] % 2

    class Worker(_Glue):
        def __init__(self, name):
            super().__init__(name)
            self.busy = 0
            self.events_received = 0

        def has_capacity(self):
            return self.busy < limit

        def handle_event(self, event):
            self.events_received += 1
            self.busy += 1
            yield event.context.get("metadata", {}).get("processing_time", ticks(1))
            self.busy -= 1
            return [Event(time=self.now, event_type="Done", target=sink, context=event.context)]
    w = Worker("worker")
    q = Queue(name="q", policy=mk_policy(k[0], k[1], k[2], [0, 3][k[4] % 2], holder))
    d = QueueDriver(name="drv", queue=q, target=w)
    q.egress = d
    holder["e"] = q
    n = 40
    src = const_source("src", q, 1 + k[5] % 2, n, case["seed"])
    src2 = poisson_source("src2", q, 100.0, n, case["seed"] + 3)
    sim = mksim([q, d, w, sink], n + 250, sources=[src, src2])
    return Scenario(sim, workload=2 * n)


@family("thread_pool", "strkeys")
def f_thread_pool(case):
    from happysimulator.components.server.thread_pool import ThreadPool
    k = K(case)
    holder = {}
    pool = ThreadPool("pool", num_workers=1 + k[0] % 3, queue_policy=mk_policy(k[1], k[2], k[3], 0, holder),
                      default_processing_time=ticks(1 + k[4] % 3))
    holder["e"] = pool
    pool2 = ThreadPool("pool2", num_workers=2, queue_capacity=3,
                       processing_time_extractor=lambda e: ticks(1 + e.context.get("prio", 0)))
    n = 40
    src = const_source("src", pool, 1 + k[5] % 2, n, case["seed"])
    src2 = const_source("src2", pool2, 1, n, case["seed"] + 1)
    src3 = poisson_source("src3", pool, 80.0, n, case["seed"] + 2)
    sim = mksim([pool, pool2], n + 250, sources=[src, src2, src3])
    return Scenario(sim, workload=3 * n)


@family("async_server", "modrng")
def f_async_server(case):
    from happysimulator.components.server.async_server import AsyncServer
    k = K(case)
    sink = Sink("sink")

    def io(event):
        yield ticks(1 + event.context.get("prio", 0))
        return [Event(time=srv.now, event_type="Done", target=sink, context=event.context)]
    srv = AsyncServer("async", max_connections=2 + k[0] % 6, cpu_work_distribution=[ConstantLatency(ticks(1 + k[1] % 2)), ExponentialLatency(ticks(1))][k[2] % 2],
                      io_handler=io if k[3] % 3 else None)
    n = 50
    src = const_source("src", srv, 1, n, case["seed"])
    src2 = poisson_source("src2", srv, 150.0, n, case["seed"] + 5)
    sim = mksim([srv, sink], n + 200, sources=[src, src2])
    return Scenario(sim, workload=2 * n)


# ------------------------------------------------------------------------------ industrial
@family("industrial_line", "modrng")
def f_industrial_line(case):
    from happysimulator.components import industrial as ind
    k = K(case)
    good, bad_a, bad_b, other = Sink("good"), Sink("scrap_a"), Sink("scrap_b"), Sink("other")
    router = ind.ConditionalRouter.by_context_field("router", "flow", {0: bad_a, 1: bad_b}, default=other)
    pooled = ind.PooledCycleResource("pooled", pool_size=1 + k[0] % 3, cycle_time=ticks(1 + k[1] % 4), downstream=good,
                                     queue_capacity=[0, 2, 6][k[2] % 3])
    batch = ind.BatchProcessor("batch", pooled, batch_size=2 + k[3] % 4, process_time=ticks(1 + k[4] % 3),
                               timeout_s=[0.0, ticks(3), ticks(7)][k[5] % 3])
    insp = ind.InspectionStation("inspect", pass_target=batch, fail_target=router, inspection_time=ticks(1 + k[6] % 2),
                                 pass_rate=[0.95, 0.7, 0.5][k[7] % 3])
    belt = ind.ConveyorBelt("belt", insp, transit_time=ticks(1 + k[1] % 5), capacity=[0, 3][k[0] % 2])
    appts = ind.AppointmentScheduler("appts", belt, [ticks(2 * i + 1) for i in range(20)], no_show_rate=[0.0, 0.3][k[2] % 2])
    n = 40
    src = const_source("src", belt, 1 + k[3] % 2, n, case["seed"])
    src2 = poisson_source("walkin", belt, 90.0, n, case["seed"] + 11)
    sim = mksim([belt, insp, batch, pooled, router, appts, good, bad_a, bad_b, other], n + 300, sources=[src, src2],
                events=appts.start_events())
    return Scenario(sim, workload=2 * n + 20)


@family("industrial_gate_shift", "modrng")
def f_industrial_gate_shift(case):
    from happysimulator.components import industrial as ind
    k = K(case)
    sink = Sink("sink")
    shifts, t0 = [], 0
    for i in range(4):
        ln = 4 + (k[i] % 12)
        shifts.append(ind.Shift(ticks(t0), ticks(t0 + ln), (k[(i + 1) % 8] + i) % 3))
        t0 += ln + (k[i + 4] % 3) * 2
    srv = ind.ShiftedServer("shifted", ind.ShiftSchedule(shifts, default_capacity=k[7] % 2), service_time=ticks(1 + k[6] % 3),
                            downstream=sink)
    gate = ind.GateController("gate", srv, schedule=[(ticks(10 + k[0] % 5), ticks(30 + k[1] % 9)), (ticks(50), ticks(70 + k[2] % 9))],
                              initially_open=bool(k[3] % 2), queue_capacity=[0, 4][k[4] % 2])
    brk = ind.BreakdownScheduler("breakdown", srv, mean_time_to_failure=ticks(20 + k[5] % 20), mean_repair_time=ticks(3 + k[6] % 5))
    n = 60
    src = const_source("src", gate, 1 + k[5] % 2, n, case["seed"])
    src2 = poisson_source("src2", gate, 100.0, n, case["seed"] + 1)
    sim = mksim([gate, srv, brk, sink], n + 250, sources=[src, src2], events=gate.start_events() + [brk.start_event()])
    return Scenario(sim, workload=2 * n)


@family("industrial_inventory", "modrng")
def f_industrial_inventory(case):
    from happysimulator.components import industrial as ind
    k = K(case)
    ful, out, waste, sup = Sink("fulfilled"), Sink("stockout"), Sink("waste"), Sink("supplier")
    inv = ind.InventoryBuffer("inv", initial_stock=3 + k[0] % 10, reorder_point=1 + k[1] % 4, order_quantity=2 + k[2] % 8,
                              lead_time=ticks(2 + k[3] % 10), supplier=sup, downstream=ful, stockout_target=out)
    per = ind.PerishableInventory("perish", initial_stock=3 + k[4] % 10, shelf_life_s=ticks(6 + k[5] % 30),
                                  spoilage_check_interval_s=ticks(3 + k[6] % 6), reorder_point=1 + k[1] % 4,
                                  order_quantity=2 + k[2] % 8, lead_time=ticks(2 + k[7] % 10), downstream=ful, waste_target=waste)
    n = 60
    a = const_source("ca", inv, 1 + k[0] % 3, n, case["seed"], etype="Consume")
    b = poisson_source("cb", per, 120.0, n, case["seed"] + 2, etype="Consume")
    c = poisson_source("cc", inv, 60.0, n, case["seed"] + 3, etype="Consume")
    sim = mksim([inv, per, ful, out, waste, sup], n + 200, sources=[a, b, c], events=[per.start_event()])
    return Scenario(sim, workload=3 * n)


@family("industrial_split_preempt", "strkeys")
def f_industrial_split_preempt(case):
    from happysimulator.components import industrial as ind
    k = K(case)
    merged, reneged, served = Sink("merged"), Sink("reneged"), Sink("served")
    workers = [Replier(f"w{i}", ticks(1 + (k[i] + i) % 5), value=f"r{i}") for i in range(2 + k[3] % 2)]
    sm = ind.SplitMerge("split", workers, merged)
    res = ind.PreemptibleResource("machine", capacity=1 + k[4] % 2)

    def user(self, e):
        pr = float(e.context.get("prio", 0))
        hit = []
        g = yield res.acquire(1, priority=pr, preempt=bool(k[5] % 2), on_preempt=lambda: hit.append(1))
        yield ticks(1 + k[6] % 4)
        if not g.preempted:
            g.release()
        self.log.append((pr, bool(hit)))
    users = [Proc(f"user{i}", user) for i in range(3)]

    class Teller(ind.RenegingQueuedResource):
        def _handle_served_event(self, event):
            yield ticks(1 + k[7] % 4)
            return [Event(time=self.now, event_type="Served", target=served, context=event.context)]
    teller = Teller("teller", reneged_target=reneged, default_patience_s=ticks(2 + k[0] % 6))
    n = 30
    srcs = [const_source("s_split", sm, 2, n, case["seed"]), poisson_source("s_tell", teller, 150.0, n, case["seed"] + 1)]
    srcs += [const_source(f"s_u{i}", u, 2 + i, n, case["seed"] + 2 + i) for i, u in enumerate(users)]
    sim = mksim([sm, res, teller, merged, reneged, served] + workers + users, n + 200, sources=srcs)
    return Scenario(sim, workload=5 * n, extra=lambda: {"users": [u.log for u in users]})


# ------------------------------------------------------------------------------ rate limiting
def mk_rl_policy(idx, a, b):
    from happysimulator.components.rate_limiter import policy as rp
    a, b = a % 8, b % 8
    i = idx % 5
    if i == 0:
        return rp.TokenBucketPolicy(capacity=float(1 + a % 4), refill_rate=64.0 + 32 * b, initial_tokens=float(a % 2))
    if i == 1:
        return rp.LeakyBucketPolicy(leak_rate=64.0 + 32 * b)
    if i == 2:
        return rp.SlidingWindowPolicy(window_size_seconds=ticks(4 + 2 * a), max_requests=1 + b % 4)
    if i == 3:
        return rp.FixedWindowPolicy(requests_per_window=1 + b % 4, window_size=ticks(4 + 2 * a))
    return rp.AdaptivePolicy(initial_rate=100.0 + 20 * a, min_rate=20.0, max_rate=400.0, window_size=ticks(8 + 4 * b))


@family("rate_limited_entity", "strkeys")
def f_rate_limited_entity(case):
    from happysimulator.components.rate_limiter import NullRateLimiter, RateLimitedEntity
    from happysimulator.components.server.server import Server
    k = K(case)
    sink = Sink("sink")
    srv = Server("srv", concurrency=2, service_time=ConstantLatency(ticks(1 + k[3] % 3)), downstream=sink)
    rl = RateLimitedEntity("limiter", srv, mk_rl_policy(k[0], k[1], k[2]), queue_capacity=[1000, 5][k[4] % 2])
    null = NullRateLimiter("null", rl)
    n = 50
    a = const_source("a", rl, 1 + k[5] % 2, n, case["seed"])
    b = poisson_source("b", null, 120.0, n, case["seed"] + 1)
    sim = mksim([rl, null, srv, sink], n + 400, sources=[a, b])
    return Scenario(sim, workload=2 * n)


@family("inductor", "modrng")
def f_inductor(case):
    from happysimulator.components.rate_limiter import Inductor
    from happysimulator.components.server.server import Server
    k = K(case)
    sink = Sink("sink")
    srv = Server("srv", concurrency=2, service_time=ConstantLatency(ticks(1 + k[1] % 3)), downstream=sink)
    ind = Inductor("inductor", srv, time_constant=ticks(4 + k[0] % 40), queue_capacity=[10000, 6][k[2] % 2])
    n = 60
    a = const_source("a", ind, 2 + k[3] % 3, n, case["seed"])
    burst = poisson_source("burst", ind, 200.0 + 50 * (k[4] % 4), n // 2, case["seed"] + 1)
    sim = mksim([ind, srv, sink], n + 400, sources=[a, burst])
    return Scenario(sim, workload=2 * n)


@family("distributed_rate_limiter", "strkeys")
def f_distributed_rate_limiter(case):
    from happysimulator.components.datastore import KVStore
    from happysimulator.components.rate_limiter import DistributedRateLimiter
    k = K(case)
    sink = Sink("sink")
    redis = KVStore("redis", read_latency=ticks(1 + k[0] % 3), write_latency=ticks(1 + k[1] % 3))
    lims = [DistributedRateLimiter(f"lim{i}", sink, redis, global_limit=2 + k[2] % 8, window_size=ticks(8 + 4 * (k[3] % 6)),
                                   local_threshold=[0.8, 0.5][k[4] % 2]) for i in range(2 + k[5] % 2)]
    n = 40
    srcs = [const_source(f"s{i}", lim, 1 + (k[6] + i) % 3, n, case["seed"] + i) for i, lim in enumerate(lims)]
    srcs.append(poisson_source("p", lims[0], 100.0, n, case["seed"] + 9))
    sim = mksim(lims + [redis, sink], n + 200, sources=srcs)
    return Scenario(sim, workload=len(srcs) * n)


# ------------------------------------------------------------------------------ network
def mk_link(name, idx, a, b):
    from happysimulator.components.network import conditions as nc
    from happysimulator.components.network.link import NetworkLink
    i = idx % 6
    if i == 0:
        return NetworkLink(name, latency=ConstantLatency(ticks(1 + a % 5)))
    if i == 1:
        return NetworkLink(name, latency=ConstantLatency(ticks(1 + a % 5)), jitter=ExponentialLatency(ticks(1 + b % 3)),
                           packet_loss_rate=[0.0, 0.1, 0.3][b % 3], bandwidth_bps=1_000_000.0)
    if i == 2:
        return nc.lossy_network([0.05, 0.2, 0.5][a % 3], name=name, base_latency=ticks(1 + b % 4))
    if i == 3:
        return nc.slow_network(ticks(3 + a % 8), name=name)
    if i == 4:
        return nc.local_network(name)
    return nc.datacenter_network(name)


@family("network_pingpong", "modrng", "strkeys")
def f_network_pingpong(case):
    from happysimulator.components.network.network import Network
    k = K(case)
    net = Network("net", default_link=mk_link("default", k[7], k[0], k[1]) if k[6] % 2 else None)
    nodes = []

    def node_fn(self, e):
        md = e.context.get("metadata", {})
        if e.event_type == "Kick":
            peers = [p for p in nodes if p is not self]
            dst = peers[(md.get("i", 0) + self.events_received) % len(peers)]
            return [net.send(self, dst, "Ping", payload={"hops": 2 + k[5] % 3, "payload_size": 200})]
        if e.event_type in ("Ping", "Pong"):
            self.log.append((e.event_type, md.get("source")))
            hops = md.get("hops", 0)
            if hops > 0:
                src = next((p for p in nodes if p.name == md.get("source")), None)
                if src is not None:
                    return [net.send(self, src, "Pong" if e.event_type == "Ping" else "Ping", payload={"hops": hops - 1})]
        return None
    nodes += [Proc(f"n{i}", node_fn) for i in range(3 + k[4] % 2)]
    for i, a in enumerate(nodes):
        for j, b in enumerate(nodes):
            if i < j and (i + j + k[3]) % 4 != 0:
                net.add_bidirectional_link(a, b, mk_link(f"l{i}{j}", k[(i + j) % 3] + i, k[0] + j, k[1] + i))
            elif i < j and not k[6] % 2:
                net.add_link(a, b, mk_link(f"l{i}{j}", 0, k[2], 0))
                net.add_link(b, a, mk_link(f"l{j}{i}", 0, k[2] + 1, 0))
    evs = []
    n = 40
    for t in range(n):
        evs.append(Event(time=T(1 + 2 * t), event_type="Kick", target=nodes[t % len(nodes)], context={"metadata": {"i": t}}))
    held = {}
    evs.append(Event.once(T(20 + k[2] % 10), "Partition",
                          lambda e: held.setdefault("p", net.partition(nodes[:1], nodes[1:], asymmetric=bool(k[3] % 2))) and None))
    evs.append(Event.once(T(45 + k[2] % 10), "Heal", lambda e: held["p"].heal() if "p" in held else None))
    sim = mksim([net] + nodes, 2 * n + 200, events=evs)
    return Scenario(sim, workload=n, extra=lambda: {"matrix": net.traffic_matrix(), "routed": net.events_routed,
                                                      "dropped_partition": net.events_dropped_partition,
                                                      "dropped_no_route": net.events_dropped_no_route,
                                                      "logs": [p.log for p in nodes]})


@family("network_link_pipeline", "modrng")
def f_network_link_pipeline(case):
    from happysimulator.components.random_router import RandomRouter
    from happysimulator.components.server.server import Server
    k = K(case)
    sink = Sink("sink")
    srvs = [Server(f"srv{i}", concurrency=1 + i, service_time=ConstantLatency(ticks(1 + (k[i] % 3))), downstream=sink) for i in range(2)]
    links = [mk_link(f"wire{i}", k[2 + i], k[4], k[5]) for i in range(2)]
    for l, s in zip(links, srvs):
        l.egress = s
    router = RandomRouter("router", targets=links)
    n = 50
    a = const_source("a", router, 1 + k[6] % 2, n, case["seed"])
    b = poisson_source("b", links[0], 100.0, n, case["seed"] + 1)
    sim = mksim([router, sink] + links + srvs, n + 300, sources=[a, b])
    return Scenario(sim, workload=2 * n, extra=lambda: {l.name: l.link_stats for l in links})


# ------------------------------------------------------------------------------ load balancing
LB_STRATEGIES = ["RoundRobin", "WeightedRoundRobin", "Random", "LeastConnections", "WeightedLeastConnections",
                 "LeastResponseTime", "IPHash", "ConsistentHash", "PowerOfTwoChoices"]


@family("load_balancer", "hashroute", "strkeys", "modrng")
def f_load_balancer(case):
    from happysimulator.components.load_balancer import strategies as ls
    from happysimulator.components.load_balancer.health_check import HealthChecker
    from happysimulator.components.load_balancer.load_balancer import LoadBalancer
    from happysimulator.components.server.server import Server
    k = K(case)
    sink = Sink("sink")
    name = pick(LB_STRATEGIES, k[0])
    if name == "ConsistentHash":
        strat = ls.ConsistentHash(virtual_nodes=1 + k[1] % 20)
    elif name == "LeastResponseTime":
        strat = ls.LeastResponseTime(alpha=[0.3, 0.8][k[1] % 2])
    else:
        strat = getattr(ls, name)()
    nb = 2 + k[2] % 3
    backends = [Server(f"be{i}", concurrency=1 + (k[3] + i) % 2, service_time=ExponentialLatency(ticks(1 + (k[4] + i) % 4)),
                       downstream=sink) for i in range(nb)]
    slow = Replier("be_slow", ticks(12 + k[5] % 20), downstream=sink)
    lb = LoadBalancer("lb", strategy=strat)
    for i, b in enumerate(backends + [slow]):
        lb.add_backend(b, weight=1 + (k[6] + i) % 3)
    hc = HealthChecker("hc", lb, interval=ticks(8 + k[7] % 8), timeout=ticks(3 + k[1] % 5), healthy_threshold=1 + k[2] % 2,
                       unhealthy_threshold=1 + k[3] % 2)
    n = 36
    a = const_source("a", lb, 1 + k[4] % 2, n, case["seed"])
    b = poisson_source("b", lb, 120.0, n, case["seed"] + 1)
    sim = mksim([lb, hc, slow, sink] + backends, n + 200, sources=[a, b])
    sim.schedule(hc.start())
    return Scenario(sim, workload=2 * n, extra=lambda: {"healthy": sorted(b.name for b in lb.healthy_backends),
                                                          "per_backend": {b.name: lb.get_backend_info(b).total_requests for b in lb.all_backends}})


# ------------------------------------------------------------------------------ clients
def mk_retry(idx, a, b):
    from happysimulator.components.client import retry as rt
    i = idx % 4
    if i == 0:
        return rt.NoRetry()
    if i == 1:
        return rt.FixedRetry(max_attempts=2 + a % 3, delay=ticks(1 + b % 4))
    if i == 2:
        return rt.ExponentialBackoff(max_attempts=2 + a % 3, initial_delay=ticks(1 + b % 3), max_delay=ticks(16),
                                     multiplier=2.0, jitter=[0.0, 0.5][a % 2])
    return rt.DecorrelatedJitter(max_attempts=2 + a % 3, base_delay=ticks(1 + b % 3), max_delay=ticks(16))


@family("client_retry", "modrng")
def f_client_retry(case):
    from happysimulator.components.client.client import Client
    from happysimulator.components.server.server import Server
    k = K(case)
    outcomes = Collector("outcomes")
    rnd = rng_of(case, 3)
    backend = Replier("backend", lambda e: ticks(1 + rnd.randrange(2 + k[0] % 10)))
    srv = Server("srv", concurrency=1, service_time=ConstantLatency(ticks(1 + k[1] % 4)))
    counts = {"ok": 0, "fail": 0}
    ok = lambda req, resp: counts.__setitem__("ok", counts["ok"] + 1)  # noqa: E731
    fail = lambda req, why: counts.__setitem__("fail", counts["fail"] + 1)  # noqa: E731
    c1 = Client("c1", backend, timeout=ticks(2 + k[2] % 6), retry_policy=mk_retry(k[3], k[4], k[5]), on_success=ok, on_failure=fail)
    c2 = Client("c2", srv, timeout=[None, ticks(3 + k[6] % 5)][k[7] % 2], retry_policy=mk_retry(k[3] + 1, k[5], k[4]),
                on_success=ok, on_failure=fail)
    users = [Proc(f"user{i}", (lambda c: lambda self, e: [c.send_request(payload={"n": self.events_received}, event_type="GetUser")])(c))
             for i, c in enumerate([c1, c2, c1])]
    n = 36
    srcs = [const_source(f"s{i}", u, 1 + (k[i] % 3), n, case["seed"] + i, etype="Go") for i, u in enumerate(users)]
    sim = mksim([c1, c2, backend, srv, outcomes] + users, n + 300, sources=srcs)
    return Scenario(sim, workload=3 * n, extra=lambda: dict(counts))


@family("pooled_client", "modrng")
def f_pooled_client(case):
    from happysimulator.components.client.connection_pool import ConnectionPool
    from happysimulator.components.client.pooled_client import PooledClient
    k = K(case)
    rnd = rng_of(case, 5)
    backend = Replier("backend", lambda e: ticks(1 + rnd.randrange(1 + k[0] % 6)))
    pool = ConnectionPool("pool", backend, min_connections=k[1] % 2, max_connections=1 + k[2] % 3,
                          connection_timeout=ticks(10 + k[3] % 30), idle_timeout=ticks(5 + k[4] % 40),
                          connection_latency=ConstantLatency(ticks(1 + k[5] % 3)))
    pc = PooledClient("pc", pool, timeout=ticks(3 + k[6] % 8), retry_policy=mk_retry(k[7], k[0], k[1]))
    held = []

    def direct(self, e):
        try:
            conn = yield from pool.acquire()
        except TimeoutError:
            self.log.append("timeout")
            return None
        yield ticks(1 + k[0] % 3)
        self.log.append("used")
        return pool.release(conn)
    users = [Proc("u_pc", lambda self, e: [pc.send_request(payload=self.events_received, event_type="Query")]),
             Proc("u_direct", direct), Proc("u_direct2", direct)]
    n = 30
    srcs = [const_source(f"s{i}", u, 1 + (k[i + 2] % 3), n, case["seed"] + i, etype="Go") for i, u in enumerate(users)]
    sim = mksim([pc, pool, backend] + users, n + 300, sources=srcs)
    return Scenario(sim, workload=3 * n, extra=lambda: {"direct": [u.log for u in users[1:]]})


# ------------------------------------------------------------------------------ resilience wrappers
@family("resilience_chain", "modrng")
def f_resilience_chain(case):
    """source -> Fallback(primary = Timeout(CircuitBreaker(Bulkhead(backend))), fallback = backend2); Hedge beside it."""
    from happysimulator.components import resilience as rs
    k = K(case)
    rnd = rng_of(case, 7)
    backend = Replier("backend", lambda e: ticks(1 + rnd.randrange(1 + k[0] % 12)))
    backend2 = Replier("backend2", ticks(1 + k[1] % 3))
    bh = rs.Bulkhead("bulkhead", backend, max_concurrent=1 + k[2] % 3, max_wait_queue=k[3] % 4,
                     max_wait_time=[None, ticks(2 + k[4] % 6)][k[4] % 2])
    cb = rs.CircuitBreaker("breaker", bh, failure_threshold=1 + k[5] % 3, success_threshold=1 + k[6] % 2, timeout=ticks(6 + k[7] % 20),
                           half_open_max_requests=1 + k[0] % 2, failure_predicate=lambda e: e.context.get("prio", 0) == 3)
    tw = rs.TimeoutWrapper("timeout", cb, timeout=ticks(2 + k[1] % 8))
    fb = rs.Fallback("fallback", tw, backend2 if k[2] % 2 else (lambda e: None), timeout=[None, ticks(3 + k[3] % 6)][k[5] % 2],
                     failure_predicate=lambda e: e.context.get("prio", 0) == 2)
    hedged = Replier("hedged_backend", lambda e: ticks(1 + rnd.randrange(1 + k[4] % 10)))
    hg = rs.Hedge("hedge", hedged, hedge_delay=ticks(1 + k[6] % 5), max_hedges=1 + k[7] % 2)
    n = 40
    srcs = [const_source("a", fb, 1 + k[0] % 2, n, case["seed"]), poisson_source("b", fb, 150.0, n, case["seed"] + 1),
            const_source("c", hg, 1 + k[1] % 3, n, case["seed"] + 2), poisson_source("d", bh, 80.0, n, case["seed"] + 3)]
    sim = mksim([fb, tw, cb, bh, hg, backend, backend2, hedged], n + 300, sources=srcs)
    return Scenario(sim, workload=4 * n, extra=lambda: {"cb_state": cb.state})


# ------------------------------------------------------------------------------ sync primitives + Resource
def _rel(evs):
    """Schedule the events a release() returned (documented: 'return mutex.release()')."""
    return evs if evs else None


def _sync_sim(case, prims, worker_fn, nworkers, rounds, extra=None):
    k = K(case)
    workers = [Proc(f"w{i}", worker_fn) for i in range(nworkers)]
    evs = []
    for i, w in enumerate(workers):
        for r in range(rounds):
            evs.append(ev(1 + r * (6 + k[7] % 6) + (i * (1 + k[6] % 3)) % 5, w, "Work", i=i, r=r))
    sim = mksim(list(prims) + workers, rounds * 12 + 300, events=evs)
    return Scenario(sim, workload=nworkers * rounds,
                    extra=lambda: {"logs": [w.log for w in workers], **(extra() if extra else {})})


@family("sync_mutex")
def f_sync_mutex(case):
    from happysimulator.components.sync import Mutex
    k = K(case)
    m = Mutex("mutex")

    def work(self, e):
        yield ticks(e.context["i"] % 2)         # staggered arrival (0 or 1 tick)
        yield from m.acquire(owner=self.name)
        yield ticks(1 + (k[0] + e.context["i"]) % 4)
        self.log.append(("cs", self.now.nanoseconds // TICK))
        return _rel(m.release())
    return _sync_sim(case, [m], work, 2 + k[1] % 3, 2 + k[2] % 4)


@family("sync_semaphore")
def f_sync_semaphore(case):
    from happysimulator.components.sync import Semaphore
    k = K(case)
    cap = 1 + k[0] % 3
    s = Semaphore("sem", initial_count=cap)

    def work(self, e):
        c = 1 + (e.context["i"] + k[3]) % cap
        yield from s.acquire(c)
        yield ticks(1 + (k[1] + e.context["r"]) % 4)
        self.log.append(("held", c, self.now.nanoseconds // TICK))
        return _rel(s.release(c))
    return _sync_sim(case, [s], work, 3 + k[2] % 2, 2 + k[4] % 3)


@family("sync_rwlock")
def f_sync_rwlock(case):
    from happysimulator.components.sync import RWLock
    k = K(case)
    lock = RWLock("rwlock", max_readers=[None, 2][k[0] % 2])

    def work(self, e):
        writer = (e.context["i"] + e.context["r"] + k[1]) % 3 == 0
        if writer:
            yield from lock.acquire_write()
            yield ticks(1 + k[2] % 3)
            self.log.append(("w", self.now.nanoseconds // TICK))
            return _rel(lock.release_write())
        yield from lock.acquire_read()
        yield ticks(1 + k[3] % 3)
        self.log.append(("r", self.now.nanoseconds // TICK))
        return _rel(lock.release_read())
    return _sync_sim(case, [lock], work, 3 + k[4] % 2, 2 + k[5] % 3)


@family("sync_barrier")
def f_sync_barrier(case):
    from happysimulator.components.sync import Barrier
    k = K(case)
    parties = 2 + k[0] % 3
    b = Barrier("barrier", parties=parties)

    def work(self, e):
        yield ticks(1 + (e.context["i"] * (1 + k[1] % 3)) % 5)
        idx = yield from b.wait()
        self.log.append((idx, self.now.nanoseconds // TICK))
        yield ticks(1)
    return _sync_sim(case, [b], work, parties, 2 + k[2] % 3)


@family("sync_condition")
def f_sync_condition(case):
    from happysimulator.components.sync import Condition, Mutex
    k = K(case)
    m = Mutex("cv_mutex")
    cv = Condition("not_empty", lock=m)
    box = []

    def work(self, e):
        i = e.context["i"]
        if i % 2 == 0:                                   # consumer (documented pattern)
            yield ticks(1)
            yield from m.acquire()
            while not box:
                yield from cv.wait()
            self.log.append(("got", box.pop(0), self.now.nanoseconds // TICK))
            return _rel(m.release())
        yield ticks(2 + (k[0] + i) % 4)                  # producer: one item per consumer round
        yield from m.acquire()
        box.append((i, e.context["r"]))
        evs = cv.notify() if k[1] % 2 else cv.notify_all()
        return _rel(m.release() + evs)
    return _sync_sim(case, [m, cv], work, 2 * (1 + k[2] % 2), 2 + k[3] % 3, extra=lambda: {"left": list(box)})


@family("resource_contention")
def f_resource_contention(case):
    from happysimulator.components.resource import Resource
    k = K(case)
    cap = 2 + k[0] % 3
    res = Resource("cpu", capacity=cap)

    def work(self, e):
        amt = 1 + (e.context["i"] + k[1]) % cap
        g = yield res.acquire(amount=amt)
        yield ticks(1 + (k[2] + e.context["r"]) % 4)
        g.release()
        self.log.append((amt, self.now.nanoseconds // TICK))
        t = res.try_acquire(amount=1)
        if t is not None:
            yield ticks(1)
            t.release()
    return _sync_sim(case, [res], work, 4 + k[3] % 3, 5 + k[4] % 4)


# ------------------------------------------------------------------------------ messaging
@family("message_queue", "strkeys")
def f_message_queue(case):
    from happysimulator.components.messaging import DeadLetterQueue, MessageQueue
    k = K(case)
    dlq = DeadLetterQueue("dlq", capacity=[None, 5][k[0] % 2], retention_period=[None, ticks(40)][k[1] % 2])
    q = MessageQueue("mq", delivery_latency=ticks(1 + k[2] % 4), redelivery_delay=ticks(2 + k[3] % 6),
                     max_redeliveries=1 + k[4] % 3, capacity=[None, 8][k[5] % 2], dead_letter_queue=dlq)
    rnd = rng_of(case, 11)

    def consume(self, e):
        if e.event_type != "message_delivery":
            return None
        mid = e.context["message_id"]
        yield ticks(1 + rnd.randrange(3))
        roll = rnd.randrange(10)
        out = [Event(time=self.now, event_type="poll", target=q)]
        if roll < 6:
            q.acknowledge(mid)
            self.log.append("ack")
        elif roll < 8:
            q.reject(mid, requeue=bool(roll % 2))
            self.log.append("reject")
        else:
            ev_ = from_lib(q, q.schedule_redelivery(mid))
            self.log.append("timeout")
            if ev_ is not None:
                out.append(ev_)
        return out
    cons = [Proc(f"cons{i}", consume) for i in range(2 + k[6] % 2)]
    for c in cons:
        q.subscribe(c)

    def produce(self, e):
        try:
            yield from q.publish(Event(time=self.now, event_type="payload", target=self, context={"n": self.events_received}))
        except RuntimeError:
            self.log.append("full")
            return None
        return [Event(time=self.now, event_type="poll", target=q)]
    prods = [Proc(f"prod{i}", produce) for i in range(2)]

    def admin(self, e):
        return from_lib(dlq, dlq.reprocess_all(q)) + [Event(time=self.now, event_type="cleanup", target=dlq)]
    adm = Proc("admin", admin)
    n = 30
    srcs = [const_source(f"s{i}", p, 1 + (k[7] + i) % 3, n, case["seed"] + i, etype="Go") for i, p in enumerate(prods)]
    srcs.append(const_source("poller", q, 3, n + 60, case["seed"] + 5, etype="poll"))
    srcs.append(const_source("adm", adm, 17, n + 60, case["seed"] + 6, etype="Go"))
    sim = mksim([q, dlq, adm] + cons + prods, n + 300, sources=srcs)
    return Scenario(sim, workload=3 * n, extra=lambda: {"cons": [sorted(c.log) for c in cons], "dlq": dlq.message_count})


@family("topic_pubsub", "strkeys")
def f_topic_pubsub(case):
    from happysimulator.components.messaging import Topic
    k = K(case)
    topic = Topic("topic", delivery_latency=ticks(1 + k[0] % 4))
    if k[1] % 2:
        topic.set_retain_messages(True, max_history=2 + k[2] % 5)
    subs = [Collector(f"sub{i}") for i in range(2 + k[3] % 3)]
    for sb in subs[:-1]:
        topic.subscribe(sb)

    def pub(self, e):
        msg = Event(time=self.now, event_type="payload", target=self, context={"n": self.events_received})
        mode = (self.events_received + k[4]) % 3
        if mode == 0:
            evs = yield from topic.publish(msg)
            return from_lib(topic, evs)
        if mode == 1:
            return from_lib(topic, topic.publish_sync(msg))
        return [Event(time=self.now, event_type="publish", target=topic, context={"payload": msg})]
    pubs = [Proc(f"pub{i}", pub) for i in range(2)]

    def churn(self, e):
        sb = subs[self.events_received % len(subs)]
        if self.events_received % 2:
            topic.unsubscribe(sb)
            return None
        return from_lib(topic, topic.subscribe(sb, replay_history=bool(k[5] % 2)))
    ch = Proc("churn", churn)
    n = 30
    srcs = [const_source(f"s{i}", p, 1 + (k[6] + i) % 3, n, case["seed"] + i, etype="Go") for i, p in enumerate(pubs)]
    srcs.append(const_source("churner", ch, 7, n, case["seed"] + 4, etype="Go"))
    sim = mksim([topic, ch] + subs + pubs, n + 200, sources=srcs)
    return Scenario(sim, workload=3 * n)


# ------------------------------------------------------------------------------ streaming
@family("event_log_group", "strkeys", "hashroute")
def f_event_log_group(case):
    from happysimulator.components.streaming import consumer_group as cg
    from happysimulator.components.streaming.event_log import EventLog, SizeRetention, TimeRetention
    k = K(case)
    pol = [None, TimeRetention(max_age_s=ticks(20 + k[0] % 20)), SizeRetention(max_records=3 + k[0] % 6)][k[1] % 3]
    log = EventLog("log", num_partitions=1 + k[2] % 4, retention_policy=pol, append_latency=ticks(1 + k[3] % 3),
                   read_latency=ticks(1), retention_check_interval=ticks(8 + k[4] % 8))
    strat = [cg.RangeAssignment(), cg.RoundRobinAssignment(), cg.StickyAssignment()][k[5] % 3]
    group = cg.ConsumerGroup("group", log, assignment_strategy=strat, rebalance_delay=ticks(1 + k[6] % 4), poll_latency=ticks(1))
    rnd = rng_of(case, 13)

    def produce(self, e):
        rec = yield from log.append(e.context.get("key", "k"), self.events_received)
        self.log.append((rec.partition, rec.offset))

    def consume(self, e):
        if getattr(self, "busy", False):
            return None
        self.busy = True
        try:
            if not getattr(self, "joined", False):
                yield from group.join(self.name, self)
                self.joined = True
            recs = yield from group.poll(self.name, 1 + rnd.randrange(5))
            offs = {}
            for x in list(recs or []):
                offs[x.partition] = max(offs.get(x.partition, 0), x.offset + 1)
            if offs:
                yield from group.commit(self.name, offs)
            self.log.append(len(list(recs or [])))
            if rnd.randrange(8) == 0:
                yield from group.leave(self.name)
                self.joined = False
        finally:
            self.busy = False
        return None
    prods = [Proc(f"prod{i}", produce) for i in range(2)]
    cons = [Proc(f"cons{i}", consume) for i in range(2 + k[7] % 2)]

    def reader(self, e):
        recs = yield from log.read(self.events_received % log.num_partitions, 0, 4)
        self.log.append(len(recs))
    rd = Proc("reader", reader)
    n = 30
    srcs = [const_source(f"p{i}", p, 1 + i, n, case["seed"] + i, etype="Go") for i, p in enumerate(prods)]
    srcs += [const_source(f"c{i}", c, 3 + i, n + 40, case["seed"] + 4 + i, etype="Poll") for i, c in enumerate(cons)]
    srcs.append(const_source("r", rd, 5, n, case["seed"] + 9, etype="Go"))
    sim = mksim([log, group, rd] + prods + cons, n + 250, sources=srcs)
    return Scenario(sim, workload=5 * n, extra=lambda: {"hw": log.high_watermarks(), "lag": group.total_lag(),
                                                          "cons": [c.log for c in cons], "prod": [p.log for p in prods]})


@family("stream_processor", "strkeys")
def f_stream_processor(case):
    from happysimulator.components.streaming import stream_processor as sp
    k = K(case)
    out, late = Collector("windows"), Collector("late")
    wt = [sp.TumblingWindow(size_s=ticks(4 + k[0] % 8)), sp.SlidingWindow(size_s=ticks(8 + k[0] % 8), slide_s=ticks(2 + k[1] % 4)),
          sp.SessionWindow(gap_s=ticks(2 + k[1] % 5))][k[2] % 3]
    policy = [sp.LateEventPolicy.DROP, sp.LateEventPolicy.UPDATE, sp.LateEventPolicy.SIDE_OUTPUT][k[3] % 3]
    proc = sp.StreamProcessor("stream", wt, aggregate_fn=lambda recs: len(recs), downstream=out,
                              allowed_lateness_s=ticks(k[4] % 6), late_event_policy=policy, side_output=late,
                              watermark_interval_s=ticks(2 + k[5] % 6))
    rnd = rng_of(case, 17)

    def feed(self, e):
        lag = rnd.choice([0, 0, 0, 1, 3, 12, 30])
        t = max(0.0, self.now.to_seconds() - ticks(lag))
        return [Event(time=self.now, event_type="Process", target=proc,
                      context={"key": e.context.get("key", "k"), "value": self.events_received, "event_time_s": t})]
    feeder = Proc("feeder", feed)
    n = 60
    srcs = [const_source("a", feeder, 1 + k[6] % 2, n, case["seed"], etype="Go"), poisson_source("b", feeder, 100.0, n, case["seed"] + 1, etype="Go")]
    sim = mksim([proc, feeder, out, late], n + 200, sources=srcs)
    return Scenario(sim, workload=2 * n)


# ------------------------------------------------------------------------------ storage engines
KEYS = [f"key-{c}" for c in "abcdefgh"] + ["user:1", "user:22", "order/7", ""]


def kv_workers(store, case, nworkers, nops, salt, ops=("put", "put", "get", "get", "delete", "scan"), start_gap=2):
    """``nworkers`` harness workers doing ``nops`` random operations each on a map-like store through its
    generator API, with a >= 1 tick pause between operations (so operations of different workers overlap)."""
    rnd = rng_of(case, salt)
    scripts = []
    for w in range(nworkers):
        sc = []
        for i in range(nops):
            op = rnd.choice(ops)
            if op == "scan" and not hasattr(store, "scan"):
                op = "get"
            if op == "delete" and not hasattr(store, "delete"):
                op = "put"
            sc.append((op, rnd.choice(KEYS[:6 + salt % 6]), rnd.randrange(100), 1 + rnd.randrange(3)))
        scripts.append(sc)

    def run(self, e):
        for op, key, val, pause in scripts[e.context["w"]]:
            if op == "put":
                yield from store.put(key, val)
                self.log.append(("put", key))
            elif op == "get":
                v = yield from store.get(key)
                self.log.append(("get", key, v))
            elif op == "delete":
                yield from store.delete(key)
                self.log.append(("del", key))
            else:
                a, b = sorted([key, KEYS[(val) % 6]])
                rows = yield from store.scan(a, b)
                self.log.append(("scan", len(list(rows or []))))
            yield ticks(pause)
        return None
    workers = [Proc(f"worker{w}", run) for w in range(nworkers)]
    events = [ev(1 + w * start_gap, workers[w], "Start", w=w) for w in range(nworkers)]
    return workers, events


def _logs(workers):
    return lambda: {"logs": [w.log for w in workers]}


@family("kv_store", "strkeys")
def f_kv_store(case):
    from happysimulator.components.datastore import KVStore
    k = K(case)
    kv = KVStore("kv", read_latency=ticks(1 + k[0] % 3), write_latency=ticks(1 + k[1] % 4),
                 delete_latency=[None, ticks(1 + k[2] % 3)][k[2] % 2], capacity=[None, 3, 5][k[3] % 3])
    workers, evs = kv_workers(kv, case, 3 + k[4] % 2, 40, 1, ops=("put", "put", "get", "get", "delete"))
    sim = mksim([kv] + workers, 1200, events=evs)
    return Scenario(sim, workload=len(workers) * 40, extra=_logs(workers))


def mk_lsm(k, disk=None, name="lsm"):
    from happysimulator.components.storage import lsm_tree as lt
    from happysimulator.components.storage import wal as wl
    s = k[0] % 3
    strat = [lt.SizeTieredCompaction(min_sstables=2 + k[1] % 3),
             lt.LeveledCompaction(level_0_max=2 + k[1] % 3, size_ratio=2, base_size_keys=1 + k[2] % 4),
             lt.FIFOCompaction(max_total_sstables=1 + k[1] % 5)][s]
    w = k[3] % 4
    wal = None
    if w:
        pol = [None, wl.SyncEveryWrite(), wl.SyncOnBatch(2 + k[2] % 2), wl.SyncPeriodic(ticks(3))][w]
        wal = wl.WriteAheadLog(f"{name}.wal", sync_policy=pol, write_latency=ticks(1), sync_latency=ticks(1 + k[4] % 2), disk=disk)
    return lt.LSMTree(name, memtable_size=1 + k[5] % 4, compaction_strategy=strat, wal=wal, disk=disk,
                      sstable_read_latency=ticks(1), sstable_write_latency=ticks(1 + k[6] % 5), max_levels=2 + k[7] % 3)


@family("lsm_tree", "strkeys")
def f_lsm_tree(case):
    from happysimulator.components.resource import Resource
    k = K(case)
    disk = Resource("disk", capacity=1 + k[4] % 2) if k[7] % 3 == 0 else None
    lsm = mk_lsm(k, disk)
    workers, evs = kv_workers(lsm, case, 3, 30, 2)
    sim = mksim([lsm] + ([disk] if disk else []) + workers, 2500, events=evs)
    return Scenario(sim, workload=36, extra=lambda: {"logs": [w.log for w in workers], "levels": lsm.level_summary})


@family("btree", "strkeys")
def f_btree(case):
    from happysimulator.components.resource import Resource
    from happysimulator.components.storage.btree import BTree
    k = K(case)
    disk = Resource("disk", capacity=1 + k[3] % 2) if k[4] % 3 == 0 else None
    bt = BTree("btree", order=3 + k[0] % 4, disk=disk, page_read_latency=ticks(1 + k[1] % 2), page_write_latency=ticks(1 + k[2] % 3))
    workers, evs = kv_workers(bt, case, 3, 30, 3)
    sim = mksim([bt] + ([disk] if disk else []) + workers, 2500, events=evs)
    return Scenario(sim, workload=36, extra=_logs(workers))


@family("wal_memtable", "strkeys")
def f_wal_memtable(case):
    from happysimulator.components.storage import wal as wl
    from happysimulator.components.storage.memtable import Memtable
    k = K(case)
    pol = [wl.SyncEveryWrite(), wl.SyncOnBatch(2 + k[0] % 3), wl.SyncPeriodic(ticks(2 + k[1] % 5))][k[2] % 3]
    wal = wl.WriteAheadLog("wal", sync_policy=pol, write_latency=ticks(1), sync_latency=ticks(1 + k[3] % 3))
    mem = Memtable("memtable", size_threshold=3 + k[4] % 5, write_latency=ticks(1), read_latency=ticks(1))
    rnd = rng_of(case, 4)

    def writer(self, e):
        for i in range(10):
            key = rnd.choice(KEYS[:6])
            seq = yield from wal.append(key, i)
            full = yield from mem.put(key, i)
            v = yield from mem.get(rnd.choice(KEYS[:6]))
            self.log.append((seq, bool(full), v))
            if mem.is_full:
                sst = mem.flush()
                wal.truncate(seq)
                self.log.append(("flush", sst.key_count))
            yield ticks(1 + rnd.randrange(2))
    ws = [Proc(f"writer{i}", writer) for i in range(3)]
    sim = mksim([wal, mem] + ws, 500, events=[ev(1 + i, w, "Start") for i, w in enumerate(ws)])
    return Scenario(sim, workload=30, extra=lambda: {"logs": [w.log for w in ws], "synced": wal.synced_up_to})


@family("transaction_manager", "strkeys")
def f_transaction_manager(case):
    from happysimulator.components.datastore import KVStore
    from happysimulator.components.storage.btree import BTree
    from happysimulator.components.storage.transaction_manager import IsolationLevel, TransactionManager
    k = K(case)
    which = k[0] % 3
    if which == 0:
        store = KVStore("kv", read_latency=ticks(1), write_latency=ticks(1 + k[1] % 2))
    elif which == 1:
        store = mk_lsm([k[1], k[2], 1, 0, 0, k[3], 0, 1], name="txlsm")
    else:
        store = BTree("txbtree", order=4, page_read_latency=ticks(1), page_write_latency=ticks(1))
    iso = [IsolationLevel.READ_COMMITTED, IsolationLevel.SNAPSHOT_ISOLATION, IsolationLevel.SERIALIZABLE][k[4] % 3]
    tm = TransactionManager("tm", store=store, isolation=iso, deadlock_detection=bool(k[5] % 2))
    for i, key in enumerate(KEYS[:4]):
        store.put_sync(key, i)
    rnd = rng_of(case, 5)

    def txn_worker(self, e):
        for _ in range(4):
            tx = yield from tm.begin()
            for _ in range(1 + rnd.randrange(3)):
                key = rnd.choice(KEYS[:4])
                if rnd.randrange(2):
                    v = yield from tx.read(key)
                    self.log.append(("r", key, v))
                else:
                    yield from tx.write(key, rnd.randrange(100))
                yield ticks(1)
            if rnd.randrange(5) == 0:
                tx.abort()
                self.log.append("abort")
            else:
                ok = yield from tx.commit()
                self.log.append(("commit", bool(ok)))
            yield ticks(1 + rnd.randrange(2))
    ws = [Proc(f"txw{i}", txn_worker) for i in range(3)]
    sim = mksim([store, tm] + ws, 800, events=[ev(1 + i, w, "Start") for i, w in enumerate(ws)])
    return Scenario(sim, workload=12 * 3, extra=_logs(ws))


# ------------------------------------------------------------------------------ caches / datastore
EVICTION_NAMES = ["LRU", "LFU", "TTL-wallclock", "TTL-simclock", "FIFO", "Random", "SLRU", "SampledLRU", "Clock", "TwoQueue"]


def mk_eviction(idx, seed, a, holder):
    from happysimulator.components.datastore import eviction_policies as ep
    name = pick(EVICTION_NAMES, idx)
    if name == "LRU":
        return ep.LRUEviction()
    if name == "LFU":
        return ep.LFUEviction()
    if name == "TTL-wallclock":
        return ep.TTLEviction(ttl=[0.002, 0.02, 30.0][a % 3])       # default clock_func (the library default)
    if name == "TTL-simclock":
        return ep.TTLEviction(ttl=ticks(4 + a % 12), clock_func=lambda: holder["e"].now.to_seconds())
    if name == "FIFO":
        return ep.FIFOEviction()
    if name == "Random":
        return ep.RandomEviction(seed=seed)
    if name == "SLRU":
        return ep.SLRUEviction(protected_ratio=[0.8, 0.5, 0.2][a % 3])
    if name == "SampledLRU":
        return ep.SampledLRUEviction(sample_size=1 + a % 3, seed=seed)
    if name == "Clock":
        return ep.ClockEviction()
    return ep.TwoQueueEviction(kin_ratio=[0.25, 0.5][a % 2])


@family("cached_store", "strkeys")
def f_cached_store(case):
    from happysimulator.components.datastore import CachedStore, CacheWarmer, KVStore
    k = K(case)
    holder = {}
    kv = KVStore("db", read_latency=ticks(2 + k[0] % 3), write_latency=ticks(2 + k[1] % 3))
    for i, key in enumerate(KEYS[:8]):
        kv.put_sync(key, i)
    cs = CachedStore("cache", kv, cache_capacity=2 + k[2] % 4, eviction_policy=mk_eviction(k[3], case["seed"], k[4], holder),
                     cache_read_latency=ticks(1), write_through=bool(k[5] % 2))
    holder["e"] = cs
    warmer = CacheWarmer("warmer", cs, keys_to_warm=KEYS[:3 + k[6] % 4], warmup_rate=512.0 / (1 + k[7] % 3), warmup_latency=ticks(1))
    workers, evs = kv_workers(cs, case, 3, 30, 7, ops=("put", "get", "get", "get", "delete"))

    def flusher(self, e):
        n = yield from cs.flush()
        self.log.append(n)
        cs.invalidate(KEYS[self.events_received % 6])
    fl = Proc("flusher", flusher)
    evs += [ev(20 + 25 * i, fl, "Flush") for i in range(4)]
    sim = mksim([kv, cs, warmer, fl] + workers, 1500, events=evs)
    sim.schedule(warmer.start_warming())
    return Scenario(sim, workload=90, extra=lambda: {"logs": [w.log for w in workers], "cached": sorted(cs.get_cached_keys())})


@family("multi_tier_cache", "strkeys")
def f_multi_tier_cache(case):
    from happysimulator.components.datastore import CachedStore, KVStore, MultiTierCache
    from happysimulator.components.datastore.multi_tier_cache import PromotionPolicy
    k = K(case)
    holder = {}
    kv = KVStore("db", read_latency=ticks(3), write_latency=ticks(3))
    for i, key in enumerate(KEYS[:8]):
        kv.put_sync(key, i)
    tiers = [CachedStore(f"L{i + 1}", kv, cache_capacity=1 + (k[i] + i) % 3 + i, eviction_policy=mk_eviction(k[2 + i], case["seed"] + i, k[4], holder),
                         cache_read_latency=ticks(1 + i), write_through=True) for i in range(2)]
    holder["e"] = kv
    mt = MultiTierCache("tiers", tiers=tiers, backing_store=kv,
                        promotion_policy=[PromotionPolicy.ALWAYS, PromotionPolicy.ON_SECOND_ACCESS, PromotionPolicy.NEVER][k[5] % 3])
    workers, evs = kv_workers(mt, case, 3, 30, 8, ops=("put", "get", "get", "get", "delete"))
    sim = mksim([kv, mt] + tiers + workers, 1500, events=evs)
    return Scenario(sim, workload=90, extra=lambda: {"logs": [w.log for w in workers], "tier_stats": mt.get_tier_stats()})


@family("soft_ttl_cache", "strkeys")
def f_soft_ttl_cache(case):
    from happysimulator.components.datastore import KVStore, SoftTTLCache
    k = K(case)
    kv = KVStore("db", read_latency=ticks(2 + k[0] % 4), write_latency=ticks(2))
    for i, key in enumerate(KEYS[:8]):
        kv.put_sync(key, i)
    soft = 3 + k[1] % 8
    sc = SoftTTLCache("softttl", kv, soft_ttl=ticks(soft), hard_ttl=Duration((soft + 2 + k[2] % 10) * TICK),
                      cache_capacity=[None, 3][k[3] % 2], cache_read_latency=ticks(1))
    workers, evs = kv_workers(sc, case, 3, 40, 9, ops=("put", "get", "get", "get", "get"))
    sim = mksim([kv, sc] + workers, 1500, events=evs)
    return Scenario(sim, workload=120, extra=_logs(workers))


@family("database", "strkeys")
def f_database(case):
    from happysimulator.components.datastore import Database
    k = K(case)
    lat = {"SELECT": ticks(1 + k[0] % 3), "UPDATE": ticks(2 + k[1] % 3)}
    db = Database("db", max_connections=1 + k[2] % 3, query_latency=(lambda q: lat.get(q.split()[0], ticks(1))) if k[3] % 2 else ticks(2),
                  connection_latency=ticks(1 + k[4] % 2), commit_latency=ticks(1 + k[5] % 2), rollback_latency=ticks(1))
    db.create_table("users")
    rnd = rng_of(case, 10)

    def client(self, e):
        for i in range(5):
            if rnd.randrange(3):
                r_ = yield from db.execute(f"SELECT * FROM users WHERE id = {rnd.randrange(5)}")
                self.log.append(("q", r_ is not None))
            else:
                tx = yield from db.begin_transaction()
                yield from tx.execute(f"UPDATE users SET v = {i} WHERE id = {rnd.randrange(5)}")
                if rnd.randrange(4):
                    yield from tx.commit()
                else:
                    yield from tx.rollback()
                self.log.append("tx")
            yield ticks(1 + rnd.randrange(2))
    cs = [Proc(f"dbclient{i}", client) for i in range(4)]
    sim = mksim([db] + cs, 800, events=[ev(1 + i, c, "Start") for i, c in enumerate(cs)])
    return Scenario(sim, workload=20, extra=_logs(cs))


@family("sharded_store", "hashroute", "strkeys")
def f_sharded_store(case):
    from happysimulator.components.datastore import KVStore, ShardedStore
    from happysimulator.components.datastore import sharded_store as ss
    k = K(case)
    shards = [KVStore(f"shard{i}", read_latency=ticks(1 + (k[0] + i) % 2), write_latency=ticks(1 + (k[1] + i) % 3)) for i in range(2 + k[2] % 3)]
    strat = [ss.HashSharding(), ss.RangeSharding(), ss.RangeSharding(boundaries=["key-c", "key-f", "user"][:len(shards) - 1]),
             ss.ConsistentHashSharding(virtual_nodes=1 + k[3] % 30, seed=case["seed"])][k[4] % 4]
    st = ShardedStore("sharded", shards, sharding_strategy=strat)
    workers, evs = kv_workers(st, case, 3, 30, 11, ops=("put", "put", "get", "get", "delete"))

    def gather(self, e):
        res = yield from st.scatter_gather(KEYS[:5])
        self.log.append(sorted((k_, v) for k_, v in res.items() if v is not None))
    g = Proc("gather", gather)
    sim = mksim([st, g] + shards + workers, 1500, events=evs + [ev(15 * (i + 1), g, "Gather") for i in range(4)])
    return Scenario(sim, workload=90, extra=lambda: {"logs": [w.log for w in workers], "sizes": st.get_shard_sizes(), "g": g.log})


@family("replicated_store", "strkeys")
def f_replicated_store(case):
    from happysimulator.components.datastore import KVStore, ReplicatedStore
    from happysimulator.components.datastore.replicated_store import ConsistencyLevel as CL
    k = K(case)
    reps = [KVStore(f"replica{i}", read_latency=ticks(1 + (k[0] + 2 * i) % 5), write_latency=ticks(1 + (k[1] + i) % 6)) for i in range(3 + k[2] % 2)]
    lv = [CL.ONE, CL.QUORUM, CL.ALL]
    rs = ReplicatedStore("replicated", reps, read_consistency=lv[k[3] % 3], write_consistency=lv[k[4] % 3],
                         read_timeout=ticks(3 + k[5] % 6), write_timeout=ticks(3 + k[6] % 8))
    workers, evs = kv_workers(rs, case, 3, 24, 12, ops=("put", "put", "get", "get", "delete"))
    sim = mksim([rs] + reps + workers, 1500, events=evs)
    return Scenario(sim, workload=72, extra=lambda: {"logs": [w.log for w in workers], "status": rs.get_replica_status()})
