"""Scenario catalogue shared by C03 (reproducibility) and C07 (no past emission / no spin).

``SCENARIOS[family](case) -> Scenario`` builds a small, finite simulation out of *real* library
components.  A case is JSON ``{"family": str, "seed": int, "k": [8 small ints]}``; every knob is taken
modulo its range so any ints work (the shrinker halves them).  A builder is a pure function of the case:
``build(case)`` first calls ``harness.seed_globals(seed)`` ("the same seeds") and builders pass explicit
seeds wherever a component accepts one.  The only glue code are the tiny harness entities defined here
(``Proc``, ``Relay``, ``Replier`` ...): they always stamp emitted events with the *current* clock and never
poll, so any past emission or frozen-clock spin seen in a scenario comes from library code.

Conventions used by every builder (C07 generator requirements):
* every latency is non-zero and lies on the dyadic tick grid (1/512 s) unless a component draws it from
  its own distribution;
* every pool / lock / queue has >= 2 concurrent users;
* every scenario has an ``end_time`` (sources keep ticking after ``stop_after``) and is sized to stay
  below ~2000 deliveries.
"""
from __future__ import annotations

import dataclasses
import enum
import json
import random as _random

from .harness import TICK, seed_globals, ticks

# ----------------------------------------------------------------------------------------- helpers
DROP_FIELDS = {
    # wall-clock / identity fields removed by name from statistics snapshots
    "wall_clock_seconds", "events_per_second", "wall_time", "wall_clock", "message_id", "uuid", "hook_id",
    "breakpoint_id", "id",
}

TRAITS = {}        # family -> set of {"strkeys", "modrng", "hashroute"} (C03 non-triviality declaration)
SCENARIOS = {}     # family -> builder(case) -> Scenario


class Scenario:
    def __init__(self, sim, entities=(), workload=0, extra=None, family=""):
        self.sim = sim
        self.family = family
        self.workload_size = int(workload)
        self._extra = extra
        self._roots = list(entities)
        self.entities = discover(sim, self._roots)
        self.classes = {type(e).__name__ for e in self.entities if _is_lib(type(e))}
        self.classes |= {n for n in _aux_classes(self.entities)}

    def stats(self):
        """JSON-able snapshot of the public statistics of every component of the scenario."""
        acc = {}
        for e in self.entities:
            if not _is_lib(type(e)) and not isinstance(e, _Glue):
                continue
            d = {}
            s = _public_stats(e)
            if s is not None:
                d["stats"] = s
            for attr in ("events_received", "total", "by_type", "depth", "generated_count", "done"):
                if hasattr(type(e), attr) or attr in getattr(e, "__dict__", {}):
                    try:
                        v = getattr(e, attr)
                    except Exception:  # noqa: BLE001
                        continue
                    if not callable(v):
                        d[attr] = jsonable(v)
            if d:
                acc.setdefault(f"{type(e).__name__}:{getattr(e, 'name', '')}", []).append(d)
        out = {}
        for key, ds in acc.items():
            out[key] = ds[0] if len(ds) == 1 else sorted(ds, key=lambda v: json.dumps(v, sort_keys=True, default=str))
        if self._extra is not None:
            out["extra"] = jsonable(self._extra())
        return out


def _is_lib(cls):
    return (getattr(cls, "__module__", "") or "").startswith("happysimulator.")


def _public_stats(e):
    try:
        s = getattr(e, "stats", None)
    except Exception as ex:  # noqa: BLE001  (a stats property that raises is reported as such)
        return {"error": type(ex).__name__}
    if s is None or callable(s):
        return None
    if dataclasses.is_dataclass(s) or isinstance(s, dict):
        return jsonable(s)
    return None


def jsonable(x, depth=0):
    """Canonical JSON-able form: dataclass -> dict (identity/wall-clock fields dropped by name),
    Instant/Duration -> ns, enum -> name, sets -> sorted, entities -> their name, other objects -> type name."""
    if depth > 8:
        return "..."
    if x is None or isinstance(x, (bool, int, str)):
        return x
    if isinstance(x, float):
        return x
    if isinstance(x, enum.Enum):
        return x.name
    if dataclasses.is_dataclass(x) and not isinstance(x, type):
        return {f.name: jsonable(getattr(x, f.name, None), depth + 1) for f in dataclasses.fields(x)
                if f.name not in DROP_FIELDS and not f.name.startswith("_")}
    if hasattr(x, "nanoseconds") and isinstance(getattr(x, "nanoseconds", None), int):
        return {"ns": x.nanoseconds}
    if isinstance(x, dict):
        items = [(k if isinstance(k, str) else json.dumps(jsonable(k, depth + 1), sort_keys=True, default=str),
                  jsonable(v, depth + 1)) for k, v in x.items() if not (isinstance(k, str) and k in DROP_FIELDS)]
        return dict(sorted(items, key=lambda kv: kv[0]))
    if isinstance(x, (set, frozenset)):
        return sorted((jsonable(v, depth + 1) for v in x), key=lambda v: json.dumps(v, sort_keys=True, default=str))
    if isinstance(x, (list, tuple)):
        return [jsonable(v, depth + 1) for v in x]
    name = getattr(x, "name", None)
    if isinstance(name, str) and hasattr(x, "handle_event"):
        return f"<{name}>"
    return f"<{type(x).__name__}>"


def discover(sim, roots=()):
    """All Entity instances reachable from the simulation's registered components (attribute walk, breadth
    first; the result is only used as a *set*: statistics are keyed by class and name)."""
    seen, order, queue = set(), [], []

    def push(o, d):
        if isinstance(o, Entity):
            if id(o) not in seen:
                seen.add(id(o))
                order.append(o)
                queue.append(o)
        elif d < 3:
            if isinstance(o, dict):
                for v in list(o.values())[:64]:
                    push(v, d + 1)
            elif isinstance(o, (list, tuple, set, frozenset)):
                for v in list(o)[:64]:
                    push(v, d + 1)
            elif _is_lib(type(o)) and hasattr(o, "__dict__") and d < 2:
                for v in list(vars(o).values()):
                    push(v, d + 1)

    for attr in ("_entities", "_sources", "_probes"):
        for e in list(getattr(sim, attr, []) or []):
            push(e, 0)
    for e in roots:
        push(e, 0)
    while queue:
        e = queue.pop(0)
        try:
            vals = list(vars(e).values())
        except TypeError:
            continue
        for v in vals:
            push(v, 0)
    return order


def _aux_classes(entities):
    """Names of library (non-Entity) helper classes held by the entities: policies, strategies, distributions."""
    out = set()
    for e in entities:
        try:
            vals = list(vars(e).values())
        except TypeError:
            continue
        for v in vals:
            c = type(v)
            m = getattr(c, "__module__", "") or ""
            if m.startswith(("happysimulator.components.", "happysimulator.load.", "happysimulator.distributions.",
                             "happysimulator.sketching.")):
                out.add(c.__name__)
    return out


def K(case, n=8):
    k = case.get("k") if isinstance(case, dict) else None
    out = []
    for x in (k if isinstance(k, list) else []):
        out.append(int(x) if isinstance(x, (int, bool)) else 0)
    out = (out + [0] * n)[:n]
    return [abs(v) for v in out]


def rng_of(case, salt=0):
    return _random.Random((int(case.get("seed", 0) or 0) * 1000003 + salt) & 0xFFFFFFFF)


def family(name, *traits):
    def deco(fn):
        SCENARIOS[name] = fn
        TRAITS[name] = set(traits)
        return fn
    return deco


def build(case):
    """Seed the module-level RNGs from the case and build the scenario of ``case['family']``."""
    fams = sorted(SCENARIOS)
    fam = case.get("family") if isinstance(case, dict) else None
    if fam not in SCENARIOS:
        fam = fams[K({"k": [len(str(fam))]})[0] % len(fams)]
    seed = case.get("seed", 0) if isinstance(case, dict) else 0
    seed = int(seed) if isinstance(seed, (int, bool)) else 0
    seed_globals(abs(seed))
    c = {"family": fam, "seed": abs(seed), "k": K(case)}
    sc = SCENARIOS[fam](c)
    sc.family = fam
    return sc


# ----------------------------------------------------------------------------------------- glue entities
from happysimulator.core.entity import Entity  # noqa: E402
from happysimulator.core.event import Event  # noqa: E402
from happysimulator.core.simulation import Simulation  # noqa: E402
from happysimulator.core.temporal import Duration, Instant  # noqa: E402
from happysimulator.core.sim_future import SimFuture, all_of, any_of  # noqa: E402


class _Glue(Entity):
    """Base of the harness entities (never counted as library classes)."""


class Proc(_Glue):
    """Runs ``fn(self, event)`` (a plain function or a generator function) for every event."""

    def __init__(self, name, fn=None):
        super().__init__(name)
        self.fn = fn
        self.log = []
        self.events_received = 0

    def handle_event(self, event):
        self.events_received += 1
        if self.fn is None:
            return None
        return self.fn(self, event)


class Relay(_Glue):
    """Forwards every event to ``nxt`` at the current instant."""

    def __init__(self, name, nxt):
        super().__init__(name)
        self.nxt = nxt
        self.events_received = 0

    def handle_event(self, event):
        self.events_received += 1
        return [Event(time=self.now, event_type=event.event_type, target=self.nxt, context=event.context)]


class Replier(_Glue):
    """A backend that takes ``delay`` (float seconds > 0, or a function of the event) and then resolves
    ``context['reply_future']`` (if present and unresolved) and forwards to ``downstream`` (if given)."""

    def __init__(self, name, delay, downstream=None, value="ok"):
        super().__init__(name)
        self.delay, self.downstream, self.value = delay, downstream, value
        self.events_received = 0
        self.done = 0

    def handle_event(self, event):
        self.events_received += 1
        d = self.delay(event) if callable(self.delay) else self.delay
        yield d
        self.done += 1
        fut = event.context.get("reply_future") if isinstance(event.context, dict) else None
        if fut is not None and not fut.is_resolved:
            fut.resolve(self.value)
        if self.downstream is not None:
            return [Event(time=self.now, event_type=event.event_type, target=self.downstream, context=event.context)]
        return None


class Collector(_Glue):
    """Counts events by type."""

    def __init__(self, name="collector"):
        super().__init__(name)
        self.events_received = 0
        self.by_type = {}

    def handle_event(self, event):
        self.events_received += 1
        self.by_type[event.event_type] = self.by_type.get(event.event_type, 0) + 1
        return None


def T(n):
    """Instant at n ticks."""
    return Instant(int(n) * TICK)


def ev(t_ticks, target, etype="Request", daemon=False, **ctx):
    return Event(time=T(t_ticks), event_type=etype, target=target, context=dict(ctx), daemon=daemon)


def mksim(entities, end_ticks, sources=(), events=(), probes=()):
    sim = Simulation(entities=list(entities), sources=list(sources), probes=list(probes), end_time=T(end_ticks))
    for e in events:
        sim.schedule(e)
    return sim


def pick(seq, i):
    return seq[i % len(seq)]


# =========================================================================================== families
from happysimulator.components.common import Counter as HCounter, Sink  # noqa: E402
from happysimulator.distributions.constant import ConstantLatency  # noqa: E402
from happysimulator.distributions.exponential import ExponentialLatency  # noqa: E402
from happysimulator.load.source import SimpleEventProvider, Source  # noqa: E402

POLICY_NAMES = ["fifo", "lifo", "priority", "deadline", "fair", "wfq", "adaptive", "codel", "red", "balking"]


def mk_policy(idx, a, b, cap, holder):
    """Queue policy number ``idx`` for events whose context carries prio / dl (ticks) / flow.
    ``holder['e']`` must be set to an entity attached to the simulation (clock for CoDel / deadline)."""
    from happysimulator.components import queue_policies as qp
    from happysimulator.components.industrial.balking import BalkingQueue
    from happysimulator.components.queue_policy import FIFOQueue, LIFOQueue, PriorityQueue
    name = pick(POLICY_NAMES, idx)
    a, b = 1 + a % 4, 1 + b % 4
    inf = float("inf")
    c = cap if cap else inf
    cn = cap if cap else None
    clock = lambda: holder["e"].now  # noqa: E731
    prio = lambda e: e.context.get("prio", 0)  # noqa: E731
    flow = lambda e: f"f{e.context.get('flow', 0)}"  # noqa: E731
    if name == "fifo":
        return FIFOQueue(c)
    if name == "lifo":
        return LIFOQueue(c)
    if name == "priority":
        return PriorityQueue(c, key=prio)
    if name == "deadline":
        return qp.DeadlineQueue(get_deadline=lambda e: Instant(e.context.get("dl_ns", 0)), capacity=cn, clock_func=clock)
    if name == "fair":
        return qp.FairQueue(get_flow_id=flow, max_flows=None, per_flow_capacity=(b + 1 if cap else None))
    if name == "wfq":
        return qp.WeightedFairQueue(get_flow_id=flow, get_weight=lambda f: 1 + (int(f[1:]) * a) % 3, capacity=cn,
                                    per_flow_capacity=(b + 1 if cap else None))
    if name == "adaptive":
        return qp.AdaptiveLIFO(congestion_threshold=a, capacity=cn)
    if name == "codel":
        return qp.CoDelQueue(target_delay=ticks(a), interval=ticks(4 * b), capacity=cn, clock_func=clock)
    if name == "red":
        return qp.REDQueue(min_threshold=a, max_threshold=a + b + 1, max_probability=0.5,
                           capacity=(a + b + 2 + cap) if cap else None, weight=0.5)
    return BalkingQueue(FIFOQueue(c), balk_threshold=a + 1, balk_probability=[1.0, 0.5][b % 2])


def req_ctx(seed, dl_ticks=8):
    """context_fn for SimpleEventProvider: created_at / request_id plus prio, flow, deadline and a string key."""
    r = _random.Random(seed)

    def fn(time, count):
        return {"created_at": time, "request_id": count, "prio": r.randrange(4), "flow": r.randrange(3),
                "dl_ns": time.nanoseconds + (1 + r.randrange(dl_ticks)) * TICK, "key": f"key-{r.randrange(12)}",
                "metadata": {"processing_time": ticks(1 + r.randrange(4)), "weight": 1}}
    return fn


def const_source(name, target, every_ticks, stop_ticks, seed, etype="Request"):
    prov = SimpleEventProvider(target, etype, T(stop_ticks), context_fn=req_ctx(seed))
    return Source.constant(rate=512.0 / max(1, every_ticks), name=name, event_provider=prov)


def poisson_source(name, target, rate, stop_ticks, seed, etype="Request"):
    prov = SimpleEventProvider(target, etype, T(stop_ticks), context_fn=req_ctx(seed))
    return Source.poisson(rate=rate, name=name, event_provider=prov)


# ------------------------------------------------------------------------------ sources -> servers -> sinks
@family("pipeline_const", "strkeys")
def f_pipeline_const(case):
    from happysimulator.components.server.server import Server
    k = K(case)
    holder = {}
    sink = Sink("sink")
    cnt = HCounter("counter")
    tee = Proc("tee", lambda self, e: [Event(time=self.now, event_type=e.event_type, target=sink, context=e.context),
                                       Event(time=self.now, event_type="Count", target=cnt, context={})])
    s2 = Server("s2", concurrency=1 + k[4] % 2, service_time=ConstantLatency(ticks(1 + k[5] % 3)), downstream=tee)
    cap = [None, 2, 4][k[3] % 3]
    pol = mk_policy(k[0], k[1], k[2], cap or 0, holder)
    s1 = Server("s1", concurrency=1 + k[6] % 3, service_time=ConstantLatency(ticks(1 + k[7] % 5)),
                queue_policy=pol, downstream=s2)
    holder["e"] = s1
    n = 40
    every = 1 + k[1] % 3
    src = const_source("src", s1, every, n * every, case["seed"])
    src2 = const_source("src2", s1, every + 1, n * every, case["seed"] + 1)
    sim = mksim([s1, s2, tee, sink, cnt], n * every + 200, sources=[src, src2])
    return Scenario(sim, workload=2 * n)


@family("pipeline_poisson", "modrng")
def f_pipeline_poisson(case):
    from happysimulator.components.server.server import Server
    k = K(case)
    holder = {}
    sink = Sink("sink")
    pol = mk_policy(k[0], k[1], k[2], [0, 3, 6][k[3] % 3], holder)
    s1 = Server("s1", concurrency=1 + k[4] % 3, service_time=ExponentialLatency(ticks(1 + k[5] % 6)),
                queue_policy=pol, downstream=sink)
    holder["e"] = s1
    rate = 40.0 + 20 * (k[6] % 5)
    stop = 256
    a = poisson_source("pa", s1, rate, stop, case["seed"])
    b = poisson_source("pb", s1, rate / 2, stop, case["seed"] + 7)
    sim = mksim([s1, sink], stop + 300, sources=[a, b])
    return Scenario(sim, workload=int(rate * 1.5 * stop / 512) + 10)


@family("pipeline_profile", "modrng")
def f_pipeline_profile(case):
    from happysimulator.components.server.concurrency import DynamicConcurrency, WeightedConcurrency
    from happysimulator.components.server.server import Server
    from happysimulator.load.profile import LinearRampProfile, SpikeProfile
    k = K(case)
    cnt = HCounter("counter")
    conc = [2, DynamicConcurrency(initial=2, min_limit=1, max_limit=4), WeightedConcurrency(total_capacity=3)][k[0] % 3]
    srv = Server("srv", concurrency=conc, service_time=ExponentialLatency(ticks(1 + k[1] % 4)),
                 queue_capacity=[None, 5][k[2] % 2], downstream=cnt)
    if k[3] % 2:
        prof = LinearRampProfile(duration_s=0.5, start_rate=20.0 + k[4] % 30, end_rate=120.0 + k[5] % 60)
    else:
        prof = SpikeProfile(baseline_rate=30.0 + k[4] % 20, spike_rate=200.0 + k[5] % 100, warmup_s=0.2, spike_duration_s=0.15)
    stop = 320
    src = Source.with_profile(prof, poisson=bool(k[6] % 2), name="prof",
                              event_provider=SimpleEventProvider(srv, "Request", T(stop), context_fn=req_ctx(case["seed"])))
    sim = mksim([srv, cnt], stop + 200, sources=[src])
    return Scenario(sim, workload=100)


@family("queue_driver_worker", "strkeys")
def f_queue_driver_worker(case):
    """Explicit Queue + QueueDriver + worker entity (the composition QueuedResource hides), every policy."""
    from happysimulator.components.queue import Queue
    from happysimulator.components.queue_driver import QueueDriver
    k = K(case)
    holder = {}
    sink = Sink("sink")
    limit = 1 + k[3] % 2

    class Worker(_Glue):
        def __init__(self, name):
            super().__init__(name)
            self.busy = 0
            self.events_received = 0

        def has_capacity(self):
            return self.busy < limit

        def handle_event(self, event):
            self.events_received += 1
            self.busy += 1
            yield event.context.get("metadata", {}).get("processing_time", ticks(1))
            self.busy -= 1
            return [Event(time=self.now, event_type="Done", target=sink, context=event.context)]
    w = Worker("worker")
    q = Queue(name="q", policy=mk_policy(k[0], k[1], k[2], [0, 3][k[4] % 2], holder))
    d = QueueDriver(name="drv", queue=q, target=w)
    q.egress = d
    holder["e"] = q
    n = 40
    src = const_source("src", q, 1 + k[5] % 2, n, case["seed"])
    src2 = poisson_source("src2", q, 100.0, n, case["seed"] + 3)
    sim = mksim([q, d, w, sink], n + 250, sources=[src, src2])
    return Scenario(sim, workload=2 * n)


@family("thread_pool", "strkeys")
def f_thread_pool(case):
    from happysimulator.components.server.thread_pool import ThreadPool
    k = K(case)
    holder = {}
    pool = ThreadPool("pool", num_workers=1 + k[0] % 3, queue_policy=mk_policy(k[1], k[2], k[3], 0, holder),
                      default_processing_time=ticks(1 + k[4] % 3))
    holder["e"] = pool
    pool2 = ThreadPool("pool2", num_workers=2, queue_capacity=3,
                       processing_time_extractor=lambda e: ticks(1 + e.context.get("prio", 0)))
    n = 40
    src = const_source("src", pool, 1 + k[5] % 2, n, case["seed"])
    src2 = const_source("src2", pool2, 1, n, case["seed"] + 1)
    src3 = poisson_source("src3", pool, 80.0, n, case["seed"] + 2)
    sim = mksim([pool, pool2], n + 250, sources=[src, src2, src3])
    return Scenario(sim, workload=3 * n)


@family("async_server", "modrng")
def f_async_server(case):
    from happysimulator.components.server.async_server import AsyncServer
    k = K(case)
    sink = Sink("sink")

    def io(event):
        yield ticks(1 + event.context.get("prio", 0))
        return [Event(time=srv.now, event_type="Done", target=sink, context=event.context)]
    srv = AsyncServer("async", max_connections=2 + k[0] % 6, cpu_work_distribution=[ConstantLatency(ticks(1 + k[1] % 2)), ExponentialLatency(ticks(1))][k[2] % 2],
                      io_handler=io if k[3] % 3 else None)
    n = 50
    src = const_source("src", srv, 1, n, case["seed"])
    src2 = poisson_source("src2", srv, 150.0, n, case["seed"] + 5)
    sim = mksim([srv, sink], n + 200, sources=[src, src2])
    return Scenario(sim, workload=2 * n)
