"""Generic property-based search runner.

An *obligation* is (strategy, execute): ``strategy(tier)`` is a Hypothesis strategy that
produces a JSON-serialisable *case*; ``execute(case)`` runs the real code on that case and
returns a ``Result`` (violated clauses with stable signatures, classification labels and a
non-triviality flag).  ``execute`` never raises for a property violation, so the search does
not stop at the first failure: violations are bucketed by signature over the whole budget and
the smallest witness per signature is shrunk afterwards (collect-then-shrink).

Exit codes of a check: 0 = held on everything explored (or only listed known findings),
1 = violation (prints ``VIOLATION property=<id> replay=<path>``), 2 = harness error.
"""
from __future__ import annotations

import hashlib
import json
import os
import signal
import sys
import time
import traceback
from collections import Counter
from dataclasses import dataclass, field
from typing import Any, Callable, Iterable

REPO = os.path.realpath(os.environ.get("VFW_REPO", "/repo"))
HOME = os.path.realpath(os.environ.get("VFW_HOME", os.path.dirname(os.path.dirname(__file__))))


# ----------------------------------------------------------------------------- data model
@dataclass
class V:
    """One violated clause. ``sig`` identifies the root-cause class, not the input."""
    sig: str
    detail: str = ""


@dataclass
class Result:
    violations: list = field(default_factory=list)   # list[V]
    labels: list = field(default_factory=list)       # classification labels (strings)
    nontrivial: bool = False
    observed: Any = None                             # short observation for replay files
    target: float | None = None                      # optional hypothesis.target() score
    counters: dict = field(default_factory=dict)     # optional measured integer counters, summed into evidence coverage.counters

    def add(self, sig, detail=""):
        self.violations.append(V(sig, str(detail)[:600]))


@dataclass
class Obligation:
    name: str
    strategy: Callable[[str], Any]
    execute: Callable[[Any], Result]
    budget: dict                                    # tier -> number of generated cases
    rule: str                                       # generation + non-triviality rule, for evidence
    enumerate: Callable[[str], Iterable] | None = None   # optional finite sub-space (tier -> cases)
    case_timeout: dict = field(default_factory=lambda: {"quick": 20.0, "thorough": 120.0})
    max_shards: int = 16
    min_cases_per_shard: int = 20                   # expensive cases (sub-interpreters, long schedules) may use fewer


class CaseTimeout(BaseException):
    pass


class HarnessError(Exception):
    pass


def canon(case) -> str:
    return json.dumps(case, sort_keys=True, separators=(",", ":"), default=str)


def case_hash(case) -> str:
    return hashlib.sha1(canon(case).encode()).hexdigest()[:16]


def derive_seed(*parts) -> int:
    h = hashlib.sha256("|".join(str(p) for p in parts).encode()).digest()
    return int.from_bytes(h[:8], "big") % (2**63)


# ----------------------------------------------------------------------------- safe execution
def _innermost_repo_frame(tb):
    """Return (file, func) of the innermost frame if it is inside the tree under test."""
    frames = traceback.extract_tb(tb)
    if not frames:
        return None
    last = frames[-1]
    fn = os.path.realpath(last.filename)
    if fn.startswith(REPO + os.sep):
        return (os.path.relpath(fn, REPO), last.name)
    return None


def _raised_in_repo(tb):
    """Innermost frame that belongs to the tree under test, if the exception was *raised* there
    (i.e. no harness frame lies below it)."""
    frames = traceback.extract_tb(tb)
    if not frames:
        return None
    last = frames[-1]
    fn = os.path.realpath(last.filename)
    if fn.startswith(REPO + os.sep):
        return (os.path.relpath(fn, REPO), last.name)
    # exception raised inside stdlib (e.g. heapq, KeyError from dict) called from repo code
    for fr in reversed(frames):
        f = os.path.realpath(fr.filename)
        if f.startswith(REPO + os.sep):
            return (os.path.relpath(f, REPO), fr.name)
        if f.startswith(HOME + os.sep):
            return None
    return None


def safe_execute(prop_id: str, obl: Obligation, case, timeout: float | None = None) -> Result:
    """Run ``execute``; classify escaping exceptions.

    An exception whose innermost non-stdlib frame is in the tree under test is an
    ``unexpected-exception`` violation (the executors catch the exceptions the contract
    documents themselves).  Anything raised by harness code is a HarnessError (exit 2)."""
    old = None
    if timeout:
        def _alarm(signum, frame):
            raise CaseTimeout()
        old = signal.signal(signal.SIGALRM, _alarm)
        # repeating: a first CaseTimeout raised where exceptions are ignored (a __del__, a gc callback) must not disarm the watchdog
        signal.setitimer(signal.ITIMER_REAL, timeout, 2.0)
    try:
        res = obl.execute(case)
        if not isinstance(res, Result):
            raise HarnessError(f"{obl.name}: execute returned {type(res)}")
        return res
    except CaseTimeout:
        r = Result()
        r.labels.append("inconclusive-timeout")
        r.observed = "timeout"
        r._inconclusive = True
        return r
    except HarnessError:
        raise
    except RecursionError:
        raise
    except Exception as e:  # noqa: BLE001
        where = _raised_in_repo(e.__traceback__)
        if where is None and isinstance(e, MemoryError):
            # the address-space limit of the worker (see worker()) was hit outside the tree under test: not a verdict
            r = Result()
            r.labels.append("inconclusive-memory")
            r.observed = "memory"
            r._inconclusive = True
            return r
        if where is None:
            raise HarnessError(
                f"{prop_id}/{obl.name}: harness exception {type(e).__name__}: {e}\n"
                + "".join(traceback.format_exception(e))[-3000:]
                + "\ncase=" + canon(case)[:2000]
            ) from e
        r = Result()
        r.add(f"{prop_id}/{obl.name}/unexpected-exception/{type(e).__name__}@{where[0]}:{where[1]}",
              f"{type(e).__name__}: {e}")
        r.labels.append("exception")
        return r
    finally:
        if timeout:
            signal.setitimer(signal.ITIMER_REAL, 0)
            signal.signal(signal.SIGALRM, old)


# ----------------------------------------------------------------------------- worker
def _load(prop_id: str):
    import importlib
    mod = importlib.import_module(f"vfw.props.{prop_id.lower()}")
    return mod


def get_obligations(prop_id: str) -> list[Obligation]:
    return list(_load(prop_id).OBLIGATIONS)


def _new_acc():
    return {
        "evaluations": 0, "labels": Counter(), "nt": set(), "samples": [], "nt_samples": [],
        "viol": {}, "inconclusive": 0, "wall": 0.0, "counters": Counter(),
    }


def _record(acc, case, res: Result):
    acc["evaluations"] += 1
    for l in res.labels:
        acc["labels"][l] += 1
    for k, v in (getattr(res, "counters", None) or {}).items():
        if isinstance(v, int):
            acc["counters"][k] += v
    if getattr(res, "_inconclusive", False):
        acc["inconclusive"] += 1
        if len(acc.setdefault("inconclusive_cases", [])) < 3:
            acc["inconclusive_cases"].append(case)
        return
    if res.nontrivial:
        h = case_hash(case)
        if h not in acc["nt"]:
            acc["nt"].add(h)
            if len(acc["nt_samples"]) < 2:
                acc["nt_samples"].append(case)
    elif len(acc["samples"]) < 1:
        acc["samples"].append(case)
    for v in res.violations:
        size = len(canon(case))
        cur = acc["viol"].get(v.sig)
        if cur is None:
            acc["viol"][v.sig] = {"count": 1, "case": case, "size": size, "detail": v.detail}
        else:
            cur["count"] += 1
            if size < cur["size"]:
                cur.update(case=case, size=size, detail=v.detail)


def worker(args):
    """Runs in a child process. args = (prop_id, obligation name, tier, seed, n, shard, mode)."""
    prop_id, oname, tier, seed, n, shard, mode = args
    t0 = time.time()
    acc = _new_acc()
    try:
        import resource
        lim = int(os.environ.get("VFW_WORKER_AS_GB", "8")) << 30
        soft, hard = resource.getrlimit(resource.RLIMIT_AS)
        if soft == resource.RLIM_INFINITY or soft > lim:
            resource.setrlimit(resource.RLIMIT_AS, (lim, hard))     # runaway growth becomes a MemoryError instead of an OOM kill
    except (ImportError, ValueError, OSError):
        pass
    try:
        obl = next(o for o in get_obligations(prop_id) if o.name == oname)
        timeout = obl.case_timeout.get(tier, 20.0)
        if mode == "enum":
            cases = obl.enumerate(tier)
            for i, case in enumerate(cases):
                if i % n[1] != n[0]:
                    continue
                _record(acc, case, safe_execute(prop_id, obl, case, timeout))
        else:
            import hypothesis
            from hypothesis import HealthCheck, Phase, given, settings
            strat = obl.strategy(tier)

            @hypothesis.seed(derive_seed(seed, prop_id, oname, shard))
            @settings(max_examples=n, database=None, deadline=None, derandomize=False,
                      report_multiple_bugs=False, phases=[Phase.generate, Phase.target],
                      suppress_health_check=list(HealthCheck))
            @given(strat)
            def run(case):
                res = safe_execute(prop_id, obl, case, timeout)
                _record(acc, case, res)
                if res.target is not None:
                    hypothesis.target(float(res.target))

            run()
        acc["error"] = None
    except BaseException as e:  # noqa: BLE001
        acc["error"] = f"{type(e).__name__}: {e}\n" + "".join(traceback.format_exception(e))[-4000:]
    acc["wall"] = time.time() - t0
    acc["labels"] = dict(acc["labels"])
    acc["counters"] = dict(acc["counters"])
    acc["nt"] = sorted(acc["nt"])
    acc["oname"] = oname
    acc["mode"] = mode
    return acc


# ----------------------------------------------------------------------------- shrinking
def signatures_of(prop_id, obl, case, timeout=20.0) -> dict:
    try:
        res = safe_execute(prop_id, obl, case, timeout)
    except HarnessError:
        return {}
    if getattr(res, "_inconclusive", False):
        return {}
    return {v.sig: v.detail for v in res.violations}


def shrink(prop_id, obl, case, sig, budget_s=20.0):
    """Generic JSON delta-debugging: delete list chunks, shrink ints, drop to simpler scalars.
    Executors are total over structurally similar JSON (indices are taken modulo), and any
    candidate that errors or no longer shows ``sig`` is simply rejected."""
    deadline = time.time() + budget_s
    best = json.loads(canon(case))
    detail = [signatures_of(prop_id, obl, best).get(sig, "")]

    def ok(c):
        if time.time() > deadline:
            return False
        s = signatures_of(prop_id, obl, c, 10.0)
        if sig in s:
            detail[0] = s[sig]
            return True
        return False

    def paths(node, pre=()):
        yield pre, node
        if isinstance(node, dict):
            for k in sorted(node):
                yield from paths(node[k], pre + (k,))
        elif isinstance(node, list):
            for i, x in enumerate(node):
                yield from paths(x, pre + (i,))

    def get(root, p):
        for k in p:
            root = root[k]
        return root

    def replaced(root, p, val):
        new = json.loads(canon(root))
        if not p:
            return val
        cur = new
        for k in p[:-1]:
            cur = cur[k]
        cur[p[-1]] = val
        return new

    improved = True
    while improved and time.time() < deadline:
        improved = False
        # 1. delete list chunks (largest lists first)
        lists = [(p, n) for p, n in paths(best) if isinstance(n, list) and n]
        lists.sort(key=lambda pn: -len(canon(pn[1])))
        for p, _ in lists:
            try:
                lst = get(best, p)
            except (KeyError, IndexError, TypeError):
                continue
            if not isinstance(lst, list):
                continue
            chunk = max(1, len(lst) // 2)
            while chunk >= 1 and time.time() < deadline:
                i = 0
                while i < len(lst):
                    cand_list = lst[:i] + lst[i + chunk:]
                    cand = replaced(best, p, cand_list)
                    if ok(cand):
                        best, lst, improved = cand, cand_list, True
                    else:
                        i += chunk
                chunk //= 2
        # 2. shrink scalars
        for p, n in list(paths(best)):
            if time.time() > deadline:
                break
            try:
                cur = get(best, p)
            except (KeyError, IndexError, TypeError):
                continue
            cands = []
            if isinstance(cur, bool):
                if cur:
                    cands = [False]
            elif isinstance(cur, int):
                if cur != 0:
                    cands = [0, cur // 2, cur - 1 if cur > 0 else cur + 1]
            elif isinstance(cur, float):
                if cur != 0.0:
                    cands = [0.0, float(int(cur)), cur / 2]
            elif isinstance(cur, str):
                pass
            for c in cands:
                if c == cur:
                    continue
                cand = replaced(best, p, c)
                if len(canon(cand)) <= len(canon(best)) and ok(cand):
                    best, improved = cand, True
                    break
    return best, detail[0]
