"""C03 — the same model and seeds give the same run, every time and in every process.

A case is a *batch* of 8-12 catalogue scenarios (``vfw/scenarios.py``) plus two hash seeds and a permutation
seed.  ``execute`` starts four fresh interpreters (``/venv/bin/python -m vfw.c03_worker``):

* W0   PYTHONHASHSEED=0, the batch in order, then the first scenario a second time (W0': same process, after
       all the other scenarios have run);
* W1   PYTHONHASHSEED=hs[0], the batch in a permuted order after a preamble of two unrelated scenarios and
       10^4 live throw-away allocations;
* W2   PYTHONHASHSEED=hs[1], the batch in reverse order;
* W0s  PYTHONHASHSEED=0, the batch in order, with ``C03_SLEEP=1`` (the worker sleeps between scenarios and
       inside the public on_event hook; nothing is patched).

Before every run the worker calls ``random.seed(s)`` / ``numpy.random.seed(s)`` ("the same seeds") through
``scenarios.build``.  Oracle: for every scenario of the batch the SHA-256 digest of its delivery log
``(time_ns, event_type, target name)`` and the digest of its statistics snapshot are identical in W0, W0', W1,
W2 and W0s.  Cause classes (deterministic function of which digests differ):

* ``wall-clock``       W0 != W0s  (same hash seed, same order, same history: only wall time differs); for a family
                       declared fully explicitly seeded (catalogue trait ``noglobalseed``: the harness does not seed the
                       module-level generators for it) the label is ``global-rng``: fresh interpreters also differ
                       in the OS-seeded state of ``random`` / ``numpy.random``;
* ``process-history``  W0 == W0s but W0 != W0' (second run in the same process), or W0 != W1/W2 and replaying
                       that worker's exact job (order, preamble, allocations) under PYTHONHASHSEED=0 still
                       differs from W0 (the history alone explains it);
* ``hashseed``         otherwise (W0 != W1 or W0 != W2, and the same job under hash seed 0 agrees with W0).
"""
from __future__ import annotations

import itertools
import json
import os
import random as _random
import subprocess
import sys
import tempfile

from hypothesis import strategies as st

from .. import scenarios
from ..runner import HOME, Obligation, Result

P = "C03"
ASSUMPTIONS = [
    "models are the finite scenario catalogue of vfw/scenarios.py; 'the same seeds' = random.seed(s) and "
    "numpy.random.seed(s) before building, plus explicit seed= arguments (0, 1 and the case seed) wherever a component "
    "accepts one; the family explicit_seeds, in which every random choice has an explicit seed, is built WITHOUT seeding "
    "the module-level generators - it must not depend on them",
    "the delivery log compares (time_ns, event_type, target.name): names are labels chosen by the builders or fixed by the "
    "library ('once:<type>', '<server>.queue', 'rate_limit_poll::<name>'); no name in the catalogue embeds id(), a uuid or a "
    "process-global counter, so no normalisation is applied to the delivery log",
    "statistics are the public `stats` snapshots (dataclass -> dict) plus a few public counters per entity and the builders' own "
    "result logs; fields named wall_clock_seconds, events_per_second, id, message_id, uuid, hook_id, breakpoint_id are dropped "
    "by name (identity / wall-clock labels, never behaviour); sets are sorted before hashing so that set *iteration order* of "
    "a returned value is not judged, only its content",
    "PYTHONHASHSEED and address-space variation are sampled (3 values per case), not exhausted",
    "a worker that exceeds 120 s is inconclusive (labelled), never a violation; a scenario that raises or trips the spin guard "
    "is compared like any other outcome (all runs must raise / spin identically) and is not itself a C03 violation",
    "cause 'wall-clock' means: two fresh interpreters with the same hash seed, order and history disagree while only wall "
    "time (sleeps in the public on_event hook) differs; address-space layout is the only other uncontrolled input",
]

WORKER_TIMEOUT = 120.0
PREAMBLE_FAMILIES = ["pipeline_poisson", "kv_store", "raft", "topic_pubsub", "load_balancer"]


def _int(x, default=0):
    return int(x) if isinstance(x, (int, bool)) else default


def norm_case(case):
    batch = [c for c in (case.get("batch") if isinstance(case, dict) else None) or [] if isinstance(c, dict)][:12]
    if not batch:
        batch = [{"family": sorted(scenarios.SCENARIOS)[0], "seed": 0, "k": [0] * 8}]
    fams = sorted(scenarios.SCENARIOS)
    out = []
    for c in batch:
        fam = c.get("family")
        if fam not in scenarios.SCENARIOS:
            fam = fams[len(str(fam)) % len(fams)]
        out.append({"family": fam, "seed": abs(_int(c.get("seed"))) % (2**31), "k": scenarios.K(c)})
    hs = case.get("hs") if isinstance(case, dict) else None
    hs = [abs(_int(x)) % (2**32) for x in (hs if isinstance(hs, list) else [])][:2]
    hs = (hs + [1, 2])[:2]
    perm = abs(_int(case.get("perm") if isinstance(case, dict) else 0))
    return out, hs, perm


def spawn(job, hashseed, sleep=False):
    import tempfile
    env = dict(os.environ)
    env["PYTHONHASHSEED"] = str(hashseed)
    # Workers are fresh interpreters; compiling ~45k lines of source in each of them costs more CPU than the
    # scenarios themselves, so byte code is cached *outside* the tree under test (nothing is written to /repo).
    env.pop("PYTHONDONTWRITEBYTECODE", None)
    env["PYTHONPYCACHEPREFIX"] = os.path.join(tempfile.gettempdir(), "vfw-c03-pycache")
    env.pop("C03_SLEEP", None)
    if sleep:
        env["C03_SLEEP"] = "1"
    fin, fout, ferr = tempfile.TemporaryFile("w+"), tempfile.TemporaryFile("w+"), tempfile.TemporaryFile("w+")
    fin.write(json.dumps(job))
    fin.seek(0)
    p = subprocess.Popen([sys.executable, "-m", "vfw.c03_worker"], stdin=fin, stdout=fout, stderr=ferr, env=env, cwd=HOME)
    p._files = (fin, fout, ferr)
    return p


def collect(p):
    fin, fout, ferr = p._files
    try:
        p.wait(timeout=WORKER_TIMEOUT)
    except subprocess.TimeoutExpired:
        p.kill()
        p.wait()
        for f in p._files:
            f.close()
        return None, "timeout"
    fout.seek(0)
    ferr.seek(0)
    out, err = fout.read(), ferr.read()
    for f in p._files:
        f.close()
    if p.returncode != 0:
        return None, f"exit {p.returncode}: {err[-1500:]}"
    rows = []
    for line in out.splitlines():
        line = line.strip()
        if line.startswith("{"):
            rows.append(json.loads(line))
    return rows, None


def first_diff(a, b):
    for i, (x, y) in enumerate(zip(a, b)):
        if x != y:
            return i, x, y
    if len(a) != len(b):
        i = min(len(a), len(b))
        return i, (a[i] if i < len(a) else "<end>"), (b[i] if i < len(b) else "<end>")
    return None


def stats_diff(a, b):
    try:
        da, db = json.loads(a), json.loads(b)
    except Exception:  # noqa: BLE001
        return "stats text differs"
    out = []

    def walk(x, y, path):
        if len(out) >= 3:
            return
        if isinstance(x, dict) and isinstance(y, dict):
            for k in sorted(set(x) | set(y)):
                walk(x.get(k, "<absent>"), y.get(k, "<absent>"), path + [k])
        elif isinstance(x, list) and isinstance(y, list) and len(x) == len(y):
            for i, (u, v) in enumerate(zip(x, y)):
                walk(u, v, path + [str(i)])
        elif x != y:
            out.append(f"{'/'.join(path)}: {str(x)[:80]!r} vs {str(y)[:80]!r}")
    walk(da, db, [])
    return "; ".join(out) or "stats text differs"


def execute(case):
    import signal
    r = Result()
    batch, hs, perm = norm_case(case)
    n = len(batch)
    order = list(range(n))
    perm_order = list(order)
    _random.Random(perm).shuffle(perm_order)
    if perm_order == order and n > 1:
        perm_order = order[1:] + order[:1]
    pr = _random.Random(perm + 17)
    preamble = [{"family": pr.choice(PREAMBLE_FAMILIES), "seed": pr.randrange(2**31), "k": [pr.randrange(64) for _ in range(8)]}
                for _ in range(2)]
    # families whose keys have several equal-but-differently-typed spellings (trait `spelling`, selected by k[0]): the
    # junk that precedes the batch in W1 contains the same family in the next spelling
    # (scenarios.JUNK: family -> case transformer, e.g. next key spelling, another sharding seed with the same geometry)
    for c in batch:
        mk = scenarios.JUNK.get(c["family"])
        if mk is not None:
            j = mk(c)
            preamble.append({"family": c["family"], "seed": j["seed"], "k": list(j["k"])})
    runs = lambda idx, tag: [{"slot": i, "tag": tag, "case": batch[i]} for i in idx]  # noqa: E731
    jobs = {
        "W0": ({"runs": runs(order, "W0") + runs(order[:1], "W0'")}, 0, False),
        "W1": ({"runs": runs(perm_order, "W1"), "preamble": preamble, "alloc": 10000}, hs[0], False),
        "W2": ({"runs": runs(order[::-1], "W2")}, hs[1], False),
        "W0s": ({"runs": runs(order, "W0s")}, 0, True),
    }
    # the runner arms SIGALRM around execute(); children must not be left behind when it fires
    procs = {}
    try:
        for name, (job, seed, sleep) in jobs.items():
            procs[name] = spawn(job, seed, sleep)
        got, errors = {}, {}
        for name, p in procs.items():
            rows, err = collect(p)
            if err:
                errors[name] = err
            else:
                for row in rows:
                    got[(row["tag"], row["slot"])] = row
    finally:
        for p in procs.values():
            if p.poll() is None:
                p.kill()
                p.wait()
    if any(e == "timeout" for e in errors.values()):
        r._inconclusive = True
        r.labels.append("inconclusive-worker-timeout")
        return r
    if errors:
        raise RuntimeError("C03 worker failed: " + json.dumps(errors)[:3000])
    tags = ["W0", "W0'", "W1", "W2", "W0s"]
    diag_cache = {}

    def diagnose(which):
        if which not in diag_cache:
            job = dict(jobs[which][0])
            p = spawn(job, 0, False)
            try:
                rows_, err_ = collect(p)
            finally:
                if p.poll() is None:
                    p.kill()
                    p.wait()
            diag_cache[which] = {row["slot"]: row for row in (rows_ or [])}
        return diag_cache[which]
    nt = 0
    seen = set()
    for i in range(n):
        tags = ["W0", "W0'", "W1", "W2", "W0s"] if i == 0 else ["W0", "W1", "W2", "W0s"]
        rows = {t: got.get((t, i)) for t in tags}
        if any(v is None for v in rows.values()):
            raise RuntimeError(f"C03 worker output incomplete for slot {i}: {[t for t, v in rows.items() if v is None]}")
        base = rows["W0"]
        fam = base["family"]
        if any(str(v["outcome"]).startswith("build-exception") for v in rows.values()):
            raise RuntimeError(f"scenario builder failed in a worker: {fam} {[v['outcome'] for v in rows.values()]}")
        r.labels.append(f"fam:{fam}")
        r.labels.append(f"outcome:{str(base['outcome']).split(':')[0]}")
        if base["n"] >= 50 and base.get("later") and scenarios.TRAITS.get(base.get("base_family", fam)):
            nt += 1
        for kind, key in (("deliveries", "ddig"), ("stats", "sdig")):
            d = {t: rows[t][key] for t in tags}
            if len(set(d.values())) == 1:
                continue
            if d["W0"] != d["W0s"]:
                # a family that declares every random choice explicitly seeded is built without seeding the
                # module-level generators: two fresh interpreters then differ in that (OS-seeded) state as well
                explicit = "noglobalseed" in scenarios.TRAITS.get(base.get("base_family", fam), ())
                cause, other = ("global-rng" if explicit else "wall-clock"), "W0s"
            elif d.get("W0'", d["W0"]) != d["W0"]:
                cause, other = "process-history", "W0'"
            else:
                # W1 / W2 differ from W0 in hash seed *and* in what ran before: replay the differing worker's exact
                # job under PYTHONHASHSEED=0; if the history alone reproduces a difference it is process-history
                other = "W1" if d["W0"] != d["W1"] else "W2"
                diag = diagnose(other)
                dd = diag.get(i, {}).get(key)
                cause = "process-history" if (dd is not None and dd != d["W0"]) else "hashseed"
            sig = f"{P}/matrix/{kind}-differ/{fam}/{cause}"
            r.labels.append(f"differs:{cause}")
            if sig in seen:
                continue
            seen.add(sig)
            if kind == "deliveries":
                fd = first_diff(base["dhead"], rows[other]["dhead"])
                where = (f"first difference at delivery #{fd[0]}: {fd[1]!r} vs {fd[2]!r}" if fd else
                         f"logs agree on the first {len(base['dhead'])} deliveries; {base['n']} vs {rows[other]['n']} deliveries")
            else:
                where = stats_diff(base["stats"], rows[other]["stats"])
            eq = {t: ("=" if d[t] == d["W0"] else "!=") for t in tags[1:]}
            r.add(sig, f"scenario {json.dumps(batch[i])} W0 vs {other} (hash seeds 0/{hs[0]}/{hs[1]}): {where}; agreement with W0: {eq}; "
                       f"outcomes {[rows[t]['outcome'] for t in tags]}")
    r.nontrivial = nt * 2 >= n
    r.labels.append("nt" if r.nontrivial else "trivial")
    r.observed = {"n": n, "nontrivial_scenarios": nt}
    return r


def strategy(tier):
    fams = sorted(scenarios.SCENARIOS)
    ctr = itertools.count()

    def assign(d):
        d = dict(d)
        d["batch"] = [dict(c, family=fams[next(ctr) % len(fams)]) for c in d["batch"]]
        return d
    sc = st.fixed_dictionaries({"seed": st.integers(0, 2**31 - 1), "k": st.lists(st.integers(0, 63), min_size=8, max_size=8)})
    return st.fixed_dictionaries({
        "batch": st.lists(sc, min_size=8, max_size=12),
        "hs": st.lists(st.integers(1, 2**32 - 1), min_size=2, max_size=2),
        "perm": st.integers(0, 10**6),
    }).map(assign)


_RULE = ("batches of 8-12 catalogue scenarios (families assigned round-robin over the whole catalogue, seed and 8 knobs from "
         "Hypothesis) x 2 generated hash seeds x a generated permutation; each batch runs in 4 fresh interpreters (W0+W0', W1, W2, "
         "W0s); non-trivial = at least half of the scenarios of the batch have >= 50 deliveries over >= 2 instants and belong to a "
         "family declared (catalogue TRAITS) to iterate string-keyed dicts/sets, consume a module-level RNG, or route by hash")

OBLIGATIONS = [
    Obligation("matrix", strategy, execute, {"quick": 48, "thorough": 2560}, _RULE,
               case_timeout={"quick": 150.0, "thorough": 150.0}, min_cases_per_shard=16),   # each case already runs 4-5 interpreters side by side
]
