"""C04 — observing, pausing, stepping, breakpoints and reset do not change the run.

Oracles
* metamorphic / differential: the full history (deliveries, resumptions with values, process ends,
  hook firings) of a run driven through an arbitrary observation script (control surface attached,
  hooks, trace recorder, event tracing, pause requests from inside hooks, step(n), resume,
  breakpoints added/removed at pause points) must be identical to the history of the plain,
  uninterrupted run of the same program (which also compares the fast loop with the instrumented one);
* model-based: a ~40-line model of the control state machine, driven by the same script over the plain
  run's sequence of processed events, predicts where every pause lands (step(n): exactly n events unless
  the run ends or a breakpoint fires first; breakpoint: right after the first processed event that
  satisfies it; pause request: before the next event) and which breakpoints remain registered
  (one-shot ones disappear after firing); get_state() must agree at every pause;
* reset(): for programs with stateless entities, reset() + run() repeats the original delivery sequence.
"""
from __future__ import annotations

from hypothesis import strategies as st

from ..dsl.program import KINDS, RealRun, _n, program_strategy
from ..ref.engine import TICK
from ..runner import Obligation, Result

P = "C04"
ASSUMPTIONS = [
    "the reference for every observed run is the plain run of the same program on the same tree (metamorphic): C04 does not judge the order itself, C01/C02 do",
    "step(n) is judged as: pauses after exactly n processed events, or earlier at the first breakpoint hit, or the run ends first; when the n-th event is the last one the run may end either paused or complete (the statement does not say), both accepted",
    "cancelled and past-stamped events that the loop pops and skips are not deliveries and do not count towards step(n)",
    "reset(): entities are stateless, initial events carry no completion hooks and are not cancelled before the run (reset() documents that it re-creates the events scheduled before run(); hooks/cancellation are event state, not entity state); uids of run-created events are harness state, so histories are compared as (time, entity, kind)",
    "nothing is scheduled from outside while paused",
]


# ------------------------------------------------------------------------------ strategies
def bp_strategy():
    return st.fixed_dictionaries({
        "k": st.sampled_from(["time", "count", "type", "mod", "tge", "metric", "metric"]),
        "v": st.integers(0, 12),
        "one": st.booleans(),
    })


def script_strategy():
    action = st.one_of(
        st.tuples(st.just("step"), st.integers(1, 7)).map(list),
        st.tuples(st.just("step"), st.integers(1, 3)).map(list),
        st.just(["resume"]),
        st.tuples(st.just("bp"), bp_strategy()).map(list),
        st.tuples(st.just("rm"), st.integers(0, 3)).map(list),
        st.just(["clear"]),
    )
    return st.fixed_dictionaries({
        "control": st.sampled_from([True, True, True, False]),
        "trace": st.booleans(),
        "evtrace": st.booleans(),
        "hooks": st.booleans(),
        "peek": st.sampled_from([0, 1, 1, 3, 50]),            # heap preview (peek_next(n) + find_events) at every pause; 0: never
        "pauses": st.lists(st.integers(1, 30), max_size=4),
        "hookbps": st.lists(st.tuples(st.integers(1, 20), bp_strategy()).map(list), max_size=2),   # breakpoints armed from inside an event hook
        "bps": st.lists(bp_strategy(), max_size=3),
        "actions": st.lists(action, max_size=12),
    })


def stash_strategy(tier):
    """Dense variant for held-and-re-emitted Event objects: 1-2 entities, immediate handlers only, every behaviour likely to hold or
    flush, and a script that pauses often (so many resumes happen while Event objects are held outside the heap)."""
    dense = st.fixed_dictionaries({
        "control": st.just(True), "trace": st.booleans(), "evtrace": st.just(False), "hooks": st.booleans(),
        "peek": st.sampled_from([0, 1, 50]),
        "pauses": st.lists(st.integers(1, 25), min_size=2, max_size=8), "hookbps": st.just([]),
        "bps": st.lists(bp_strategy(), max_size=1),
        "actions": st.lists(st.one_of(st.tuples(st.just("step"), st.integers(1, 3)).map(list), st.just(["resume"])), min_size=4, max_size=16),
    })
    return st.fixed_dictionaries({
        "prog": program_strategy(tier=tier, procs=False, futures=False, cancels=False, hooks=False, max_entities=2, past=False,
                                 jitter=False, stash=True),
        "end": st.sampled_from([None, None, 6, 60]), "endj": st.just(0), "obs": dense,
    })


def observe_strategy(procs):
    def s(tier):
        return st.fixed_dictionaries({
            "prog": program_strategy(tier=tier, procs=procs, stash=True),
            "end": st.sampled_from([None, None, 1, 2, 3, 4, 6, 60]),
            "endj": st.sampled_from([0, 0, 0, 1, -1]),
            "obs": script_strategy(),
        })
    return s


# ------------------------------------------------------------------------------ control model
def processed_events(log):
    """(time_ns, kind) of every processed event (deliveries and process resumptions) of a history."""
    kind_of = {}
    out = []
    for e in log:
        if e[0] == "D":
            kind_of[e[4]] = e[3]
            out.append((e[1], e[3], e[2]))
        elif e[0] == "R":
            out.append((e[1], kind_of.get(e[2], -1), None))
    return out


METRIC_OPS = ["eq", "le", "lt", "ge", "gt", "ne"]


def metric_spec(v):
    """(entity index, operator, threshold) of a MetricBreakpoint on the scripted entities' public counter `mod3`."""
    return v % 2, METRIC_OPS[v % 6], (v // 2) % 3


def bp_holds(bp, k, ev, P=None):
    kind, v = bp["k"], bp["v"]
    if kind == "metric":
        import operator as _op
        ent, op, thr = metric_spec(v)
        seen = sum(1 for x in (P or [])[:k] if x[2] == ent)
        if not any(x[2] == ent for x in (P or [])) and seen == 0:
            pass        # the entity may still exist (value 0) or not exist at all; existence is decided by the caller
        val = seen % 3
        return {"eq": _op.eq, "le": _op.le, "lt": _op.lt, "ge": _op.ge, "gt": _op.gt, "ne": _op.ne}[op](val, thr)
    if kind == "count":
        return k >= v
    if kind == "time" or kind == "tge":
        return ev[0] >= v * TICK
    if kind == "type":
        return ev[1] == v % 3
    if kind == "mod":
        return k % (v % 5 + 2) == 0
    return False


class ControlModel:
    def __init__(self, events, pauses):
        self.P = events
        self.k = 0
        self.bps = []            # list of dict specs, in registration order
        self.pause_req = False
        self.steps = None
        self.pauses = set(pauses)
        self.n_entities = 1
        self.hook_bps = {}       # processed-event index -> [breakpoint specs armed by an event hook at that event]
        self.cause = None

    def command(self, steps):
        self.pause_req = False
        self.steps = steps

    def run(self):
        """-> ('paused', k) | ('complete', N) | ('either', N)"""
        N = len(self.P)
        while True:
            pending = self.pause_req or (self.steps is not None and self.steps <= 0)
            if self.k >= N:
                if pending:
                    self.cause = "end-of-run"
                    return ("either", N)
                return ("complete", N)
            if pending:
                self.cause = "pause-request" if self.pause_req else "step"
                return ("paused", self.k)
            self.k += 1
            if self.steps is not None:
                self.steps -= 1
            if self.k in self.pauses:
                self.pause_req = True
            ev = self.P[self.k - 1]
            self.bps.extend(self.hook_bps.pop(self.k, []))     # hooks run before the breakpoint check of the same event
            hit = [b for b in self.bps if not (b["k"] == "metric" and metric_spec(b["v"])[0] >= self.n_entities)
                   and bp_holds(b, self.k, ev, self.P)]
            if hit:
                self.cause = "breakpoint/" + hit[0]["k"]
                self.bps = [b for b in self.bps if not (b in hit and b["one"])]
                return ("paused", self.k)


def make_bp(bp):
    from happysimulator import Instant
    from happysimulator.core.control.breakpoints import (ConditionBreakpoint, EventCountBreakpoint, EventTypeBreakpoint,
                                                         MetricBreakpoint, TimeBreakpoint)
    k, v, one = bp["k"], bp["v"], bool(bp["one"])
    if k == "metric":
        ent, op, thr = metric_spec(v)
        return MetricBreakpoint(entity_name=f"e{ent}", attribute="mod3", operator=op, threshold=thr, one_shot=one)
    if k == "count":
        return EventCountBreakpoint(count=v, one_shot=one)
    if k == "time":
        return TimeBreakpoint(time=Instant(v * TICK), one_shot=one)
    if k == "type":
        return EventTypeBreakpoint(event_type=KINDS[v % 3], one_shot=one)
    if k == "mod":
        m = v % 5 + 2
        return ConditionBreakpoint(fn=lambda ctx: ctx.events_processed % m == 0, description="mod", one_shot=one)
    t = v * TICK
    return ConditionBreakpoint(fn=lambda ctx: ctx.current_time.nanoseconds >= t, description="tge", one_shot=one)


def first_diff(a, b):
    for i, (x, y) in enumerate(zip(a, b)):
        if x != y:
            return i
    return min(len(a), len(b)) if len(a) != len(b) else None


def classify_log(real, ref):
    i = first_diff(real, ref)
    if i is None:
        return None
    x = real[i] if i < len(real) else None
    y = ref[i] if i < len(ref) else None
    if x is None:
        return "missing", f"observed run ends after {len(real)} entries, plain run continues with {y}"
    if y is None:
        return "extra", f"plain run ends after {len(ref)} entries, observed run continues with {x}"
    if x[1] == y[1]:
        return "same-instant-order", f"at #{i} t={x[1]}: observed {x}, plain {y}"
    return "different", f"at #{i}: observed {x}, plain {y}"


# ------------------------------------------------------------------------------ observe
def execute_observe(obl):
    def execute(case):
        from happysimulator.core import event as event_mod
        from happysimulator.instrumentation.recorder import InMemoryTraceRecorder
        prog, obs = case["prog"], case["obs"]
        r = Result()
        end = case["end"]
        end_ns = None if end is None else max(0, end * TICK + case.get("endj", 0))
        plain = RealRun(prog, end_ns).run()
        ref_log = [_n(e) for e in plain.log]
        P_ev = processed_events(plain.log)

        rec = InMemoryTraceRecorder() if obs.get("trace") else None
        rr = RealRun(prog, end_ns, trace_recorder=rec)
        sim = rr.sim
        labels = []
        pauses_seen = 0
        if obs.get("evtrace"):
            event_mod.enable_event_tracing()
        try:
            if not obs.get("control"):
                rr.run()
            else:
                ctl = sim.control
                pauses = [p for p in obs.get("pauses", []) if isinstance(p, int) and p >= 1]
                model = ControlModel(P_ev, pauses)
                model.n_entities = max(1, int(prog["n"]))
                counter = [0]
                seen_adv = []

                ids = []          # [(bp_id, spec)] in registration order, mirrors model.bps
                hook_map = {}
                for k_, spec_ in obs.get("hookbps", []):
                    if isinstance(k_, int) and k_ >= 1:
                        hook_map.setdefault(k_, []).append(dict(spec_))
                model.hook_bps = {k_: list(v_) for k_, v_ in hook_map.items()}

                def on_ev(ev):
                    counter[0] += 1
                    for spec_ in hook_map.pop(counter[0], []):
                        ids.append((ctl.add_breakpoint(make_bp(spec_)), spec_))
                    if counter[0] in model.pauses:
                        ctl.pause()
                ctl.on_event(on_ev)
                if obs.get("hooks"):
                    ctl.on_time_advance(lambda t: seen_adv.append(t.nanoseconds))
                def add_bp(spec):
                    ids.append((ctl.add_breakpoint(make_bp(spec)), spec))
                    model.bps.append(spec)
                for b in obs.get("bps", []):
                    add_bp(dict(b))
                model.command(None)
                rr.run()
                actions = list(obs.get("actions", []))
                guard = 0
                while True:
                    exp = model.run()
                    st_ = ctl.get_state()
                    real_paused = bool(ctl.is_paused)
                    k_real = st_.events_processed
                    cause = model.cause or "?"
                    if exp[0] == "complete":
                        if real_paused:
                            r.add(f"{P}/{obl}/paused-unexpectedly", f"paused at {k_real} events; model: run completes at {exp[1]}")
                        elif k_real != exp[1]:
                            r.add(f"{P}/{obl}/events-processed-at-end", f"{k_real} != {exp[1]}")
                        break
                    if exp[0] == "either":
                        if k_real != exp[1]:
                            r.add(f"{P}/{obl}/pause-position/{cause}", f"real at {k_real} events (paused={real_paused}), model: end of run at {exp[1]}")
                            break
                        if not real_paused:
                            break
                    else:
                        if not real_paused:
                            r.add(f"{P}/{obl}/pause-missed/{cause}", f"run completed with {k_real} events; model: paused after {exp[1]} ({cause})")
                            break
                        if k_real != exp[1]:
                            side = "late" if k_real > exp[1] else "early"
                            r.add(f"{P}/{obl}/pause-position/{cause}/{side}", f"paused after {k_real} events; model: after {exp[1]} ({cause})")
                            break
                    # ---- paused: snapshot must agree with the history prefix
                    pauses_seen += 1
                    labels.append("pause:" + cause.split("/")[0])
                    want_t = P_ev[k_real - 1][0] if k_real else int(prog.get("start", 0) or 0) * TICK
                    if st_.current_time.nanoseconds != want_t or not st_.is_paused or not st_.is_running:
                        r.add(f"{P}/{obl}/state-snapshot", f"get_state(): time={st_.current_time.nanoseconds} paused={st_.is_paused} "
                                                          f"running={st_.is_running}; expected time {want_t} after {k_real} events")
                    live = {i for i, _ in ctl.list_breakpoints()}
                    real_left = [spec for i, spec in ids if i in live]
                    if [(_b["k"], _b["v"], _b["one"]) for _b in real_left] != [(_b["k"], _b["v"], _b["one"]) for _b in model.bps]:
                        r.add(f"{P}/{obl}/breakpoint-set", f"registered after pause: {real_left}; model: {model.bps}")
                        break
                    ids[:] = [(i, spec) for i, spec in ids if i in live]
                    # ---- heap preview: read-only, sorted, and its first live entry is what the plain run processes next
                    npk = int(obs.get("peek", 0) or 0)
                    if npk:
                        labels.append("peek")
                        everything = ctl.find_events(lambda e: True)
                        pk = ctl.peek_next(npk)
                        keys = [(e.time.nanoseconds, e._sort_index if hasattr(e, "_sort_index") else 0) for e in pk]
                        if len(pk) != min(npk, len(everything)) or keys != sorted(keys) \
                                or any(all(e is not x for x in everything) for e in pk):
                            r.add(f"{P}/{obl}/peek-next-shape", f"peek_next({npk}) -> {len(pk)} events at {[k_[0] for k_ in keys][:8]}; "
                                                             f"{len(everything)} pending")
                        if k_real < len(P_ev):
                            full = ctl.peek_next(len(everything) + 1)
                            live_ev = [e for e in full if not e.cancelled and e.time.nanoseconds >= st_.current_time.nanoseconds]
                            if live_ev and live_ev[0].time.nanoseconds != P_ev[k_real][0]:
                                r.add(f"{P}/{obl}/peek-next-not-next", f"after {k_real} events the first live previewed event is due at "
                                      f"{live_ev[0].time.nanoseconds}, the plain run processes t={P_ev[k_real][0]} next")
                            if any(e.cancelled for e in full) and live_ev:
                                labels.append("peek-with-cancelled-pending")
                    # ---- next command
                    guard += 1
                    ran = False
                    while actions and not ran:
                        a = actions.pop(0)
                        if a[0] == "bp":
                            add_bp(dict(a[1]))
                        elif a[0] == "rm":
                            if ids:
                                j = a[1] % len(ids)
                                ctl.remove_breakpoint(ids[j][0])
                                del ids[j]
                                del model.bps[j]
                        elif a[0] == "clear":
                            ctl.clear_breakpoints()
                            ids.clear()
                            model.bps.clear()
                        elif a[0] == "step":
                            n = max(1, int(a[1]))
                            model.command(n)
                            ctl.step(n)
                            ran = True
                        elif a[0] == "resume":
                            model.command(None)
                            ctl.resume()
                            ran = True
                    if not ran:
                        if guard > 60 or not actions:
                            ctl.clear_breakpoints()
                            ids.clear()
                            model.bps.clear()
                            model.pauses.clear()
                            model.hook_bps.clear()
                            hook_map.clear()
                        model.command(None)
                        ctl.resume()
                if obs.get("hooks") and seen_adv != sorted(seen_adv):
                    r.add(f"{P}/{obl}/time-hook-not-monotone", str(seen_adv[:10]))
        finally:
            if obs.get("evtrace"):
                event_mod.disable_event_tracing()
        if not r.violations:
            c = classify_log([_n(e) for e in rr.log], ref_log)
            if c:
                mode = "control" if obs.get("control") else ("trace" if obs.get("trace") else "evtrace")
                r.add(f"{P}/{obl}/history-differs/{c[0]}/{mode}", c[1])
        ts = [e[0] for e in P_ev]
        tie_pause = False
        r.labels += sorted(set(labels)) + [l for l, c in (("control", obs.get("control")), ("trace", obs.get("trace")),
                                                            ("evtrace", obs.get("evtrace")), ("paused", pauses_seen)) if c]
        r.nontrivial = pauses_seen > 0 and len(ts) != len(set(ts))
        r.target = float(min(pauses_seen, 10))
        return r
    return execute


# ------------------------------------------------------------------------------ reset
def reset_strategy(tier):
    return st.fixed_dictionaries({
        "prog": program_strategy(tier=tier, procs=False, futures=False, cancels=False, hooks=False),
        "end": st.sampled_from([None, None, 2, 4, 60]),
        "pause_at": st.one_of(st.none(), st.integers(1, 12)),
        "twice": st.booleans(),
        # process history: how many events were created in this interpreter before the model is built (None: whatever the worker did)
        "pad": st.sampled_from([None, None, 0, 5, 8, 9, 95, 98, 99, 995, 998]),
    })


def proj(log):
    return [(e[1], e[2], e[3]) for e in log if e[0] == "D"]


def position_counter(pad):
    """Varies 'what was built earlier in the process': restart the global creation counter (public API) and create `pad` unrelated
    events, so that the model's own events get creation ids around a chosen value (e.g. straddling 9/10 or 99/100)."""
    if pad is None:
        return
    from happysimulator import Entity, Event, Instant
    from happysimulator.core.event import reset_event_counter

    class _Nobody(Entity):
        def handle_event(self, event):
            return None
    nobody = _Nobody("nobody")
    reset_event_counter()
    for _ in range(int(pad)):
        Event(time=Instant(0), event_type="pad", target=nobody)


def execute_reset(case):
    from happysimulator.core.control.breakpoints import EventCountBreakpoint
    prog = dict(case["prog"])
    prog["initial"] = [dict(ie, cancel=False, hooks=[]) for ie in prog["initial"]]
    r = Result()
    end_ns = None if case["end"] is None else case["end"] * TICK
    position_counter(case.get("pad"))
    plain = RealRun(prog, end_ns).run()
    want = proj(plain.log)
    position_counter(case.get("pad"))
    rr = RealRun(prog, end_ns)
    ctl = rr.sim.control
    if case.get("pause_at"):
        ctl.add_breakpoint(EventCountBreakpoint(count=int(case["pause_at"])))
    rr.run()
    first = proj(rr.log)
    if not ctl.is_paused and first != want:
        r.add(f"{P}/reset/first-run-differs", "run with control attached differs from plain run")
        return r
    rounds = 2 if case.get("twice") else 1
    for i in range(rounds):
        del rr.log[:]
        rr.uid = len(prog["initial"])      # harness-side uid allocator restarts with the model (it drives the event cap)
        ctl.reset()
        st_ = ctl.get_state()
        if st_.events_processed != 0 or st_.current_time.nanoseconds != int(prog.get("start", 0) or 0) * TICK or st_.is_running:
            r.add(f"{P}/reset/state-after-reset", f"events={st_.events_processed} t={st_.current_time.nanoseconds} running={st_.is_running}")
        rr.run()
        if ctl.is_paused:
            ctl.resume()
        got = proj(rr.log)
        if got != want:
            i_ = first_diff(got, want)
            x = got[i_] if i_ < len(got) else None
            y = want[i_] if i_ < len(want) else None
            if x is None or y is None:
                sub = "missing" if x is None else "extra"
            elif x[0] == y[0]:
                sub = "same-instant-order"
            else:
                sub = "different"
            r.add(f"{P}/reset/replay-differs/{sub}", f"after reset #{i + 1}: at #{i_} replay {x}, original {y}")
            break
    ts = [e[0] for e in want]
    r.nontrivial = len(ts) != len(set(ts)) and len(want) >= 3
    r.labels += [l for l, c in (("paused-before-reset", ctl is not None and case.get("pause_at")), ("twice", case.get("twice")),
                                ("end-set", end_ns is not None)) if c]
    return r


RULE = ("C01/C02 program generator (plus handlers that hold received Event objects and re-emit them later, as queues do with payloads) x observation script {control attached, in-memory trace recorder, event tracing, hooks, pause "
        "requests and breakpoints issued from inside an event hook at generated event indices, initial breakpoints, and a list of actions taken at "
        "successive pauses: step(1..7) | resume | add breakpoint(Time/EventCount/EventType/Condition, one-shot or persistent) | remove | "
        "clear}; non-trivial = the run was paused at least once and the program has at least two processed events on one timestamp")

OBLIGATIONS = [
    Obligation("observe-imm", observe_strategy(False), execute_observe("observe-imm"), {"quick": 2500, "thorough": 100000}, RULE),
    Obligation("observe-proc", observe_strategy(True), execute_observe("observe-proc"), {"quick": 2500, "thorough": 100000},
               "same with generator handlers, futures and combinators"),
    Obligation("observe-stash", stash_strategy, execute_observe("observe-stash"), {"quick": 2000, "thorough": 80000},
               "dense variant: 1-2 entities whose immediate handlers hold received Event objects and re-emit them later (as queues do with "
               "payloads), driven by scripts with 2-8 pause requests and 4-16 step(1..3)/resume actions; same oracle; non-trivial as above"),
    Obligation("reset", reset_strategy, execute_reset, {"quick": 2000, "thorough": 80000},
               "stateless immediate-handler programs (no hooks, no cancellation), run to completion or to an EventCountBreakpoint, then "
               "reset() + run() once or twice, with a generated number of unrelated events created earlier in the process (so creation ids "
               "straddle 9/10, 99/100, 999/1000); the (time, entity, kind) delivery sequence must equal the plain run's; non-trivial = the "
               "sequence has a same-timestamp tie and >= 3 deliveries"),
]
