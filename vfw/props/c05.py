"""C05 — partitioned parallel execution is equivalent to sequential execution.

Oracle: differential. The same generated model (stateless scripted entities) is run (a) in one sequential
``Simulation`` and (b) split into 2-4 partitions under ``ParallelSimulation``; for every entity the
multiset of (time, kind) deliveries must be equal and each per-entity log must be non-decreasing in time
(only equal-timestamp permutations are allowed). No "Time travel detected" warning may be emitted by any
partition. Independent partitions (no links) must reproduce, as exact sequences, the stand-alone
simulations of their parts.
"""
from __future__ import annotations

import logging
import warnings
from collections import Counter

from hypothesis import strategies as st

from ..harness import TICK
from ..runner import Obligation, Result

P = "C05"
ASSUMPTIONS = [
    "handlers are stateless (emissions depend only on entity, event kind and the fuel carried by the event), so a permutation of equal-timestamp deliveries cannot change what is emitted",
    "cross-partition emits carry delay >= the declared min_latency of the link (precondition of the statement); packet_loss=0; links either have latency=None (the event's own timestamp is used) or a constant latency distribution equal to the delay the model itself uses for cross-partition emits (so the sequential run is still the reference); link latency distributions are only combined with min latencies on the dyadic tick grid, whose float seconds are exact",
    "every pair of partitions that communicates is linked (validation demands it)",
    "deliveries later than end_time are ignored on both sides (an event later than end_time is not live; both engines deliver a few such events)",
    "the OS thread schedule of the worker pool is not owned by the harness: each case is run with max_workers in {1, #partitions}; the algorithm only shares state at barriers",
]

KINDS = ["a", "b", "c"]


# ------------------------------------------------------------------------------ strategies
@st.composite
def model_strategy(draw, tier, linked=True):
    n = draw(st.integers(2, 6))
    nparts = draw(st.integers(2, min(4, n)))
    part = list(range(nparts)) + [draw(st.integers(0, nparts - 1)) for _ in range(n - nparts)]
    # link latency: dyadic ticks or a float-unfriendly decimal number of milliseconds
    # "grid" cases (a third): everything exactly on window barriers — tick latencies, window = L, initial events on barriers,
    # cross-partition emits with delay exactly L — so arrivals coincide with barriers and with local work of the destination
    grid = draw(st.sampled_from([False, False, True]))
    if grid:
        lat = draw(st.sampled_from([("t", 1), ("t", 2), ("t", 5)]))
        win = draw(st.sampled_from(["none", "full"]))
    else:
        lat = draw(st.sampled_from([("t", 1), ("t", 2), ("t", 5), ("ms", 1), ("ms", 3), ("ms", 7), ("ms", 10)]))
        win = draw(st.sampled_from(["none", "full", "half", "third", "0.3"]))
    emit = st.fixed_dictionaries({
        "tgt": st.integers(0, n - 1), "kind": st.integers(0, 2),
        "dt": st.sampled_from([0, 0, 0, 1] if grid else [0, 0, 1, 1, 2, 3, 7]),   # local delay in ticks / extra delay on top of L for cross emits
        "j": st.just(0) if grid else st.sampled_from([0, 0, 0, 1, 2]),           # ns jitter (>= 0)
    })
    beh = st.fixed_dictionaries({
        "delay": st.sampled_from([None, None, 0, 1, 2]),     # None: immediate handler; else generator yielding `delay` ticks first
        "emits": st.lists(emit, max_size=3),
    })
    handlers = draw(st.lists(st.lists(beh, min_size=3, max_size=3), min_size=n, max_size=n))
    init = st.fixed_dictionaries({
        "tgt": st.integers(0, n - 1), "kind": st.integers(0, 2),
        "w": st.integers(0, 6),                              # window index: time = w * window + off
        "off": st.just(0) if grid else st.sampled_from([0, 0, -1, 1, 2, "h"]),   # exactly at / 1 ns before / after a boundary / mid-window
        "gap": st.sampled_from([0, 0, 0, 5, 20]),            # extra idle windows before this event
    })
    initial = draw(st.lists(init, min_size=1, max_size=8 if tier == "quick" else 12))
    return {"n": n, "part": part, "lat": list(lat), "win": win, "handlers": handlers, "initial": initial,
            "fuel": draw(st.sampled_from([2, 3, 3, 4])),
            "end": draw(st.sampled_from([None, None, "w3", "w5+1", "w8-1", "w30", "f3.3", "f7.4", "f2.25", "f12.45", "m0.3", "m0.45", "m1.3"])),   # f: fractional number of windows; m: that far past the window of the last initial event
            "workers": draw(st.sampled_from([1, 0])), "linked": linked,
            "srcbits": draw(st.sampled_from([0, 0, 0, 1, 2, 3, 5, 6, 63])),
            # which ordered pairs of partitions are linked: every pair, a one-way chain p0->p1->p2.., everything into p0 only
            # (p0 is a pure sink with its own local work), or a generated subset of ordered pairs
            "topo": draw(st.sampled_from(["all", "all", "chain", "sink0", "subset"])), "topobits": draw(st.integers(0, 4095)),
            # links carry their own latency distribution (constant L + x ticks): the coordinator re-stamps every cross-partition
            # event with send time + that latency, so the model emits its cross events with exactly that delay
            "linklat": draw(st.sampled_from([None, None, None, 0, 1, 3])),
            # per ordered pair of partitions: its link's min latency is L x (1 + latvar[...] % 3) — links differ from one another
            "latvar": draw(st.lists(st.integers(0, 2), min_size=1, max_size=12))}     # which entities are registered as partition *sources*


def lat_ns(case):
    unit, v = case["lat"]
    return v * TICK if unit == "t" else v * 1_000_000


def window_s(case):
    L = lat_ns(case) / 1e9
    w = case["win"]
    if w == "none":
        return None, L
    if w == "full":
        return L, L
    if w == "half":
        return L / 2, L / 2
    if w == "third":
        return L / 3, L / 3
    return L * 0.3, L * 0.3


class _Abort(Exception):
    """Raised from the log handler after 500 'time travel' discards: the run is not going to end (a finite model
    cannot legally produce a single one); the case is then judged on the discards alone."""


class _TT(logging.Handler):
    def __init__(self):
        super().__init__(level=logging.WARNING)
        self.n = 0
        self.first = None

    def emit(self, record):
        try:
            m = record.getMessage()
        except Exception:  # noqa: BLE001
            return
        if "Time travel" in m:
            self.n += 1
            self.first = self.first or m[:200]
            if self.n > 500:
                raise _Abort()


def allowed_links(case, names):
    """Set of ordered (src_partition, dst_partition) pairs that are linked in this case."""
    names = sorted(names)
    topo = case.get("topo", "all")
    pairs = [(a, b) for a in names for b in names if a != b]
    if topo == "chain":
        return {(names[i], names[i + 1]) for i in range(len(names) - 1)}
    if topo == "sink0":
        return {(a, names[0]) for a in names[1:]}
    if topo == "subset":
        bits = int(case.get("topobits", 0))
        return {pr for i, pr in enumerate(pairs) if (bits >> (i % 12)) & 1}
    return set(pairs)


def link_mult(case, a, b):
    """Multiplier (1..3) of the base min latency for the link a -> b."""
    lv = case.get("latvar") or [0]
    return 1 + int(lv[(a * 4 + b) % len(lv)]) % 3


def linklat_of(case):
    """Constant link latency in extra ticks, or None. Only with tick-based (dyadic) min latencies, whose float seconds are exact."""
    if case.get("linklat") is None or case["lat"][0] != "t":
        return None
    return int(case["linklat"])


def build(case):
    """Fresh entities + initial events for one execution. Returns (entities, initial_events, sent_cross)."""
    from happysimulator import Entity, Event, Instant
    from happysimulator.load.source import Source
    n = max(2, int(case["n"]))
    part = [case["part"][i % len(case["part"])] for i in range(n)]
    L = lat_ns(case)
    handlers = case["handlers"]
    ents = []
    stats = {"cross": 0}

    links = allowed_links(case, set(part)) if case.get("linked", True) else set()

    def mk(em, fuel, now, src):
        tgt = em["tgt"] % n
        if part[tgt] != part[src] and (part[src], part[tgt]) not in links:
            # no link in that direction: send to an entity of a linked partition instead, else stay local
            cands = [j for j in range(n) if (part[src], part[j]) in links] or [j for j in range(n) if part[j] == part[src]]
            tgt = cands[em["tgt"] % len(cands)]
        dt = em["dt"] * TICK + em.get("j", 0)
        if part[tgt] != part[src] and linklat_of(case) is not None:
            dt = L * link_mult(case, part[src], part[tgt]) + linklat_of(case) * TICK
            stats["cross"] += 1
        elif part[tgt] != part[src]:
            dt += L * link_mult(case, part[src], part[tgt])
            stats["cross"] += 1
        return Event(time=Instant(now + dt), event_type=KINDS[em["kind"] % 3], target=ents[tgt], context={"fuel": fuel})

    class _Behaviour:
        def handle_event(self, event):
            now = self.now.nanoseconds
            k = KINDS.index(event.event_type)
            self._log.append((now, k))
            fuel = event.context.get("fuel", 0)
            if fuel <= 0 or not handlers:
                return None
            row = handlers[self.idx % len(handlers)]
            beh = row[k % len(row)] if row else None
            if not beh:
                return None
            if beh.get("delay") is None:
                return [mk(em, fuel - 1, now, self.idx) for em in beh["emits"]]
            return self._proc(beh, fuel)

        def _proc(self, beh, fuel):
            yield beh["delay"] / 512
            now = self.now.nanoseconds
            return [mk(em, fuel - 1, now, self.idx) for em in beh["emits"]]

    class CEnt(_Behaviour, Entity):
        def __init__(self, idx):
            Entity.__init__(self, f"e{idx}")
            self.idx = idx
            self._log = []

    class CSrc(_Behaviour, Source):
        """The same scripted entity registered as a *source* of its partition (a closed-loop client written as a Source subclass):
        it produces no load of its own (start() returns nothing) but receives events like any entity."""
        def __init__(self, idx):
            Entity.__init__(self, f"e{idx}")
            self.idx = idx
            self._log = []

        def start(self, start_time):
            return []

    srcbits = int(case.get("srcbits", 0))
    ents.extend((CSrc(i) if (srcbits >> i) & 1 else CEnt(i)) for i in range(n))
    _, wgrid = window_s(case)
    wns = max(1, round(wgrid * 1e9))
    initial = []
    widx = 0
    for ie in case["initial"]:
        widx += ie.get("gap", 0)
        off = ie["off"]
        off = wns // 2 if off == "h" else int(off)
        t = max(0, (ie["w"] + widx) * wns + off)
        initial.append((t, ie["tgt"] % n, ie["kind"] % 3))
    return ents, part, initial, stats


def end_ns_of(case):
    e = case.get("end")
    if e is None:
        return None
    _, wgrid = window_s(case)
    wns = max(1, round(wgrid * 1e9))
    body = e[1:]
    if e[0] == "f":
        return int(float(body) * wns)
    if e[0] == "m":
        widx = wmax = 0
        for ie in case.get("initial", []):
            widx += ie.get("gap", 0)
            wmax = max(wmax, ie["w"] + widx)
        return int((wmax + float(body)) * wns)
    if "+" in body:
        a, b = body.split("+")
        return int(a) * wns + int(b)
    if "-" in body:
        a, b = body.split("-")
        return max(0, int(a) * wns - int(b))
    return int(body) * wns


def run_sequential(case, only_part=None):
    from happysimulator import Event, Instant, Simulation
    ents, part, initial, stats = build(case)
    end = end_ns_of(case)
    kw = {"end_time": Instant(end)} if end is not None else {}
    from happysimulator.load.source import Source
    sel = [e for e in ents if only_part is None or part[e.idx] == only_part]
    sim = Simulation(entities=[e for e in sel if not isinstance(e, Source)], sources=[e for e in sel if isinstance(e, Source)], **kw)
    for t, tgt, k in initial:
        if only_part is None or part[tgt] == only_part:
            sim.schedule(Event(time=Instant(t), event_type=KINDS[k], target=ents[tgt], context={"fuel": case["fuel"]}))
    sim.run()
    return {e.idx: list(e._log) for e in sel}, stats


def run_parallel(case, workers_all):
    from happysimulator import Event, Instant
    from happysimulator.parallel import ParallelSimulation, PartitionLink, SimulationPartition
    ents, part, initial, stats = build(case)
    names = sorted(set(part))
    from happysimulator.load.source import Source
    parts = [SimulationPartition(name=f"p{p}", entities=[e for e in ents if part[e.idx] == p and not isinstance(e, Source)],
                                 sources=[e for e in ents if part[e.idx] == p and isinstance(e, Source)]) for p in names]
    links = []
    if case.get("linked", True):
        L = lat_ns(case) / 1e9
        from happysimulator.distributions.constant import ConstantLatency
        for (a, b) in sorted(allowed_links(case, set(names))):
            m = link_mult(case, a, b)
            lat = None
            if linklat_of(case) is not None:
                lat = ConstantLatency((lat_ns(case) * m + linklat_of(case) * TICK) / 1e9)
            links.append(PartitionLink(f"p{a}", f"p{b}", min_latency=L * m, latency=lat))
    end = end_ns_of(case)
    kw = {"end_time": Instant(end)} if end is not None else {}
    win, _ = window_s(case)
    if links and win is not None:
        kw["window_size"] = win
    with warnings.catch_warnings():
        warnings.simplefilter("ignore")
        ps = ParallelSimulation(parts, links=links or None, max_workers=len(names) if workers_all else 1, **kw)
    for t, tgt, k in initial:
        ps.schedule(Event(time=Instant(t), event_type=KINDS[k], target=ents[tgt], context={"fuel": case["fuel"]}),
                    partition=f"p{part[tgt]}")
    lg = logging.getLogger("happysimulator.core.simulation")
    h = _TT()
    old = lg.propagate
    lg.addHandler(h)
    lg.propagate = False
    summary = None
    try:
        summary = ps.run()
    except _Abort:
        pass
    finally:
        lg.removeHandler(h)
        lg.propagate = old
    return {e.idx: list(e._log) for e in ents}, stats, h, summary, part


def cut(log, end):
    return [x for x in log if end is None or x[0] <= end]


def execute_linked(case):
    r = Result()
    end = end_ns_of(case)
    seq, sstats = run_sequential(case)
    par, pstats, tt, summary, part = run_parallel(case, case.get("workers", 0) == 0)
    if tt.n:
        r.add(f"{P}/linked/time-travel-discard", f"{tt.n} event(s) discarded as being in the past: {tt.first}")
    if summary is None:
        r.labels.append("aborted-after-500-discards")
        return r
    lost = dup = order = 0
    detail = ""
    for idx in sorted(seq):
        a, b = cut(seq[idx], end), cut(par.get(idx, []), end)
        if any(b[i][0] > b[i + 1][0] for i in range(len(b) - 1)):
            order += 1
            detail = detail or f"entity e{idx}: parallel log not in time order: {b[:8]}"
        ca, cb = Counter(a), Counter(b)
        if ca != cb:
            miss = list((ca - cb).elements())
            extra = list((cb - ca).elements())
            if miss:
                lost += 1
                detail = detail or f"entity e{idx}: deliveries of the sequential run missing in the parallel run: {miss[:4]} (extra: {extra[:4]})"
            else:
                dup += 1
                detail = detail or f"entity e{idx}: parallel run has extra deliveries {extra[:4]}"
    if order:
        r.add(f"{P}/linked/per-entity-time-order", detail)
    if lost:
        r.add(f"{P}/linked/delivery-missing", detail)
    elif dup:
        r.add(f"{P}/linked/delivery-extra", detail)
    cross = sstats["cross"]
    r.labels += [l for l, c in (("cross-traffic", cross > 0), ("end-set", end is not None), ("win:" + case["win"], True),
                                ("workers:1" if case.get("workers") else "workers:all", True),
                                ("decimal-latency", case["lat"][0] == "ms"), ("entities-as-sources", bool(case.get("srcbits"))),
                                ("topo:" + str(case.get("topo", "all")), True), ("link-latency-distribution", linklat_of(case) is not None)) if c]
    r.nontrivial = cross > 0 and sum(len(v) for v in seq.values()) >= 4
    r.target = float(min(cross, 20))
    return r


def execute_independent(case):
    case = dict(case, linked=False)
    # no cross-partition emits: retarget every emit into the emitter's own partition
    n = max(2, int(case["n"]))
    part = [case["part"][i % len(case["part"])] for i in range(n)]
    hs = []
    for i in range(n):
        row = case["handlers"][i % len(case["handlers"])] if case["handlers"] else []
        mine = [j for j in range(n) if part[j] == part[i]]
        hs.append([dict(b, emits=[dict(em, tgt=mine[em["tgt"] % len(mine)]) for em in b["emits"]]) for b in row])
    case["handlers"] = hs
    case["n"] = n
    r = Result()
    par, pstats, tt, summary, part = run_parallel(case, case.get("workers", 0) == 0)
    if tt.n:
        r.add(f"{P}/independent/time-travel-discard", f"{tt.n}: {tt.first}")
    for p in sorted(set(part)):
        alone, _ = run_sequential(case, only_part=p)
        for idx in sorted(alone):
            if alone[idx] != par.get(idx):
                r.add(f"{P}/independent/differs-from-standalone",
                      f"partition p{p} entity e{idx}: stand-alone {alone[idx][:6]} vs parallel {par.get(idx, [])[:6]}")
                break
    r.nontrivial = sum(len(v) for v in par.values()) >= 4
    r.labels.append("workers:1" if case.get("workers") else "workers:all")
    return r


RULE = ("stateless scripted entities (immediate and one-yield generator handlers; some registered as partition sources instead of "
        "entities) spread over 2-4 partitions, linked pairwise, as a one-way chain, all into one sink partition, or by a generated subset "
        "of ordered pairs (cross-partition emits follow existing links), with "
        "min_latency L x (1..3, drawn per link) with L in {1,2,5 ticks of 1/512 s, 1,3,7,10 ms}; a third of the cases put everything exactly on window barriers; cross-partition emits carry delay L + extra (extra may be 0), local "
        "emits arbitrary; window_size in {default, L, L/2, L/3, 0.3 L}; initial events placed exactly at, 1 ns before/after and in the "
        "middle of window boundaries with idle gaps of up to 20 windows; end_time none / on / off a boundary; max_workers 1 or "
        "#partitions; non-trivial = at least one cross-partition event was sent and >= 4 deliveries happened")

OBLIGATIONS = [
    Obligation("linked", lambda tier: model_strategy(tier), execute_linked, {"quick": 1600, "thorough": 50000}, RULE),
    Obligation("independent", lambda tier: model_strategy(tier, linked=False), execute_independent, {"quick": 600, "thorough": 15000},
               "same models with every emit retargeted into the emitter's own partition and no links: each partition's per-entity "
               "logs must equal, as sequences, those of a stand-alone Simulation of that partition"),
]
