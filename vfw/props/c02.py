"""C02 — generator processes and futures resume at the right instant, with the right value, once.

Oracle: (a) differential against the reference interpreter on the *full* history (deliveries,
process resumptions with the received value, process completion, completion-hook firings);
(b) invariants on the real history alone; (c) exact-arithmetic check of arbitrary float delays."""
from __future__ import annotations

from collections import Counter
from fractions import Fraction

from hypothesis import strategies as st

from ..dsl.program import RealRun, _n, program_strategy
from ..ref.engine import TICK, run_ref
from ..runner import Obligation, Result

P = "C02"
ASSUMPTIONS = [
    "each SimFuture is yielded by at most one process (documented contract); combinator inputs may be shared",
    "when one resolve() wakes several processes, or any_of is built over several already-resolved inputs, order/choice is unspecified: such programs are judged on invariants only",
    "delays in the differential obligations are multiples of 1/512 s (exact in float and in ns); arbitrary float delays are judged separately with floor/ceil tolerance of one nanosecond",
    "history entries later than end_time are ignored",
]


def case_strategy(heavy):
    def s(tier):
        return st.fixed_dictionaries({
            "prog": program_strategy(tier=tier, procs=True, heavy=heavy, past=not heavy),
            "end": st.sampled_from([None, None, None, 2, 4, 6, 60]),
            "control": st.booleans(),
        })
    return s


def cut(log, end_ns):
    return [_n(e) for e in log if end_ns is None or e[1] <= end_ns]


def is_prefix(a, b):
    return len(a) <= len(b) and b[:len(a)] == a


def first_diff(a, b):
    for i, (x, y) in enumerate(zip(a, b)):
        if x != y:
            return i
    return min(len(a), len(b)) if len(a) != len(b) else None


def history_invariants(r, log, obl):
    rs = Counter((e[2], e[3]) for e in log if e[0] == "R")
    d = [k for k, c in rs.items() if c > 1]
    if d:
        r.add(f"{P}/{obl}/yield-resumed-more-than-once", f"process {d[0][0]} step {d[0][1]} resumed {rs[d[0]]}x")
    fs = Counter(e[2] for e in log if e[0] == "F")
    d = [k for k, c in fs.items() if c > 1]
    if d:
        r.add(f"{P}/{obl}/process-finished-twice", f"process {d[0]}")
    last = {}
    for e in log:
        if e[0] in ("D", "R") :
            pid = e[4] if e[0] == "D" else e[2]
            last[pid] = e[1]
        elif e[0] == "F" and last.get(e[2]) is not None and last[e[2]] != e[1]:
            r.add(f"{P}/{obl}/finish-instant", f"process {e[2]} finished at {e[1]}, last step at {last[e[2]]}")


def classify(real, ref):
    i = first_diff(real, ref)
    if i is None:
        return None
    x = real[i] if i < len(real) else None
    y = ref[i] if i < len(ref) else None
    kinds = {e[0] for e in (x, y) if e is not None}
    if not kinds & {"R", "F", "H"}:
        return ("delivery-order-only", f"at #{i}: real {x}, reference {y}")
    if x is None:
        return ("missing/" + y[0], f"real history ends, reference continues with {y}")
    if y is None:
        return ("extra/" + x[0], f"reference history ends, real continues with {x}")
    if x[0] == y[0] == "R" and x[2:4] == y[2:4]:
        if x[1] != y[1]:
            return ("resume-instant", f"process {x[2]} step {x[3]}: resumed at {x[1]}, expected {y[1]}")
        return ("resume-value", f"process {x[2]} step {x[3]} at {x[1]}: received {x[4]!r}, expected {y[4]!r}")
    if x[0] == y[0] == "H" or "H" in kinds:
        return ("hook", f"at #{i}: real {x}, reference {y}")
    if x[1] == y[1]:
        return ("same-instant-order", f"at #{i} t={x[1]}: real {x}, reference {y}")
    return ("history", f"at #{i}: real {x}, reference {y}")


def execute_factory(obl):
    def execute(case):
        prog = case["prog"]
        r = Result()
        end_ns = None if case["end"] is None else case["end"] * TICK
        ref_lazy = run_ref(prog, end_ns, "lazy")
        ref_strict = run_ref(prog, end_ns, "strict") if end_ns is None else ref_lazy
        rr = RealRun(prog, end_ns)
        if case["control"]:
            rr.sim.control  # noqa: B018
        rr.run()
        real = cut(rr.log, end_ns)
        history_invariants(r, real, obl)
        lazy, strict = cut(ref_lazy.log, None), cut(ref_strict.log, None)
        ambiguous = ref_lazy.ambiguous or ref_strict.ambiguous
        if not ambiguous:
            if end_ns is not None:
                c = classify(real, lazy)
            elif is_prefix(real, lazy):
                c = None if is_prefix(strict, real) else ("stopped-early", f"{len(real)} < {len(strict)} entries")
            else:
                c = classify(real, lazy)
            if c and c[0] != "delivery-order-only":
                r.add(f"{P}/{obl}/{c[0]}", c[1])
            elif c:
                r.labels.append("c01-divergence")
        f = ref_lazy.features
        nt = {"resolved-at-wait-instant", "wait-already-resolved", "combinator-preresolved-input", "nested-combinator",
              "parked-with-hooks", "yield-from-depth>=2", "double-resolve", "hook-added-late"} & f
        r.nontrivial = bool(nt) and not ambiguous
        r.labels += sorted(nt) + (["ambiguous"] if ambiguous else [])
        r.target = float(len(nt))
        return r
    return execute


# ------------------------------------------------------------------------------ float delays
def float_strategy(tier):
    d = st.one_of(st.floats(0, 1e3, allow_nan=False), st.floats(1e-10, 1e-6), st.sampled_from([0.0, 1e-9, 0.1, 0.3, 1 / 3]),
                  st.integers(0, 1000), st.floats(1e5, 1e6))
    return st.fixed_dictionaries({"start": st.integers(0, 10**10), "delays": st.lists(d, min_size=1, max_size=8),
                                  "fx": st.booleans()})


def ex_float(case):
    from happysimulator import Entity, Event, Instant, Simulation
    r = Result()
    obs = []
    fx_seen = []

    class Sink(Entity):
        def handle_event(self, event):
            fx_seen.append((event.context["i"], self.now.nanoseconds))

    class Proc(Entity):
        def handle_event(self, event):
            for i, d in enumerate(case["delays"]):
                t0 = self.now.nanoseconds
                if case["fx"]:
                    yield d, [Event(time=self.now, event_type="fx", target=sink, context={"i": i})]
                else:
                    yield d
                obs.append((i, d, t0, self.now.nanoseconds))

    sink, p = Sink("sink"), Proc("p")
    sim = Simulation(entities=[p, sink])
    sim.schedule(Event(time=Instant(case["start"]), event_type="go", target=p))
    sim.run()
    if len(obs) != len(case["delays"]):
        r.add(f"{P}/float/not-all-delays-resumed", f"{len(obs)} of {len(case['delays'])}")
    tiny = False
    for i, d, t0, t1 in obs:
        F = Fraction(d) * 10**9
        lo, hi = F.__floor__(), F.__ceil__()
        if not (lo <= t1 - t0 <= hi):
            r.add(f"{P}/float/resume-instant", f"delay {d!r}: resumed after {t1 - t0} ns, exact {float(F)} ns")
        if 0 < d < 1e-6:
            tiny = True
    if case["fx"]:
        want = [(i, t0) for i, d, t0, t1 in obs]
        if sorted(fx_seen) != sorted(want):
            r.add(f"{P}/float/side-effect-not-at-yield-instant", f"seen {fx_seen[:4]} expected {want[:4]}")
    r.nontrivial = tiny or any(d != int(d) for d in case["delays"])
    r.labels.append("sub-microsecond" if tiny else "coarse")
    return r


# ------------------------------------------------------------------------------ shared futures under several combinators
def fanin_strategy(tier):
    def tree(nleaf, depth):
        leaf = st.integers(0, nleaf - 1)
        if depth <= 0:
            return leaf
        sub = st.one_of(leaf, leaf, tree(nleaf, depth - 1))
        return st.one_of(leaf, st.tuples(st.sampled_from(["any", "all"]), st.lists(sub, min_size=2, max_size=3)).map(list))

    @st.composite
    def case(draw):
        nleaf = draw(st.integers(2, 5))
        resolves = draw(st.lists(st.tuples(st.integers(0, nleaf - 1), st.one_of(st.integers(0, 9), st.none())).map(list), max_size=8))
        waiters = draw(st.lists(st.fixed_dictionaries({"start": st.integers(0, 9), "tree": tree(nleaf, 2)}), min_size=1, max_size=6))
        return {"nleaf": nleaf, "resolves": resolves, "waiters": waiters}
    return case()


def _model_fanin(tree, t0, leaf_res):
    """-> (resolution tick or None, set of acceptable values as canonical tuples). Leaves resolve at integer ticks, waiters build
    their combinator at t0 (a half tick), so an input is either already resolved at construction or resolves strictly later."""
    INF = None
    if isinstance(tree, int):
        if tree not in leaf_res:
            return INF, set()
        t, v = leaf_res[tree]
        return max(t, t0), {_n(v)}
    op, subs = tree
    parts = [_model_fanin(sub, t0, leaf_res) for sub in subs]
    if op == "any":
        times = [t for t, _ in parts if t is not None]
        if not times:
            return INF, set()
        r = min(times)
        vals = set()
        for i, (t, vs) in enumerate(parts):
            if t == r:                      # several inputs settled at construction or in one instant: any of them may be reported
                vals |= {(i, v) for v in vs}
        return r, vals
    if any(t is None for t, _ in parts):
        return INF, set()
    import itertools
    combos = set(itertools.islice(itertools.product(*[sorted(vs, key=repr) for _, vs in parts]), 512))
    return max(t for t, _ in parts), {tuple(c) for c in combos}


def ex_fanin(case):
    from happysimulator import Entity, Event, Instant, Simulation
    from happysimulator.core.sim_future import SimFuture, all_of, any_of
    r = Result()
    nleaf = max(2, case["nleaf"])
    futs = [SimFuture() for _ in range(nleaf)]
    direct = set()
    resumes = {}

    def build(tree):
        if isinstance(tree, int):
            return futs[tree % nleaf]
        op, subs = tree
        ins = [build(x) for x in subs]
        if len(ins) < 2:
            ins = ins + ins
        return any_of(*ins) if op == "any" else all_of(*ins)

    def norm(tree):
        if isinstance(tree, int):
            return tree % nleaf
        op, subs = tree
        subs = [norm(x) for x in subs]
        return [op, subs if len(subs) >= 2 else subs + subs]

    class Waiter(Entity):
        def __init__(self, i, tree):
            super().__init__(f"w{i}")
            self.i, self.tree = i, tree

        def handle_event(self, event):
            v = yield build(self.tree)
            resumes.setdefault(self.i, []).append((self.now.nanoseconds, _n(v if not isinstance(v, (list, tuple)) else _tup(v))))

    class Resolver(Entity):
        def handle_event(self, event):
            futs[event.context["leaf"]].resolve(event.context["val"])

    waiters = []
    for i, w in enumerate(case["waiters"]):
        t = norm(w["tree"])
        if isinstance(t, int):
            if t in direct:              # a SimFuture may be yielded directly by one process only (documented)
                t = ["all", [t, t]]
            else:
                direct.add(t)
        waiters.append(Waiter(i, t))
    res = Resolver("resolver")
    sim = Simulation(entities=waiters + [res])
    leaf_res = {}
    for k, (leaf, val) in enumerate(case["resolves"]):
        leaf %= nleaf
        tick = k + 1                                          # one resolve per integer tick
        leaf_res.setdefault(leaf, (tick * TICK, val))          # only the first resolve of a leaf counts
        sim.schedule(Event(time=Instant(tick * TICK), event_type="res", target=res, context={"leaf": leaf, "val": val}))
    starts = []
    for i, w in enumerate(case["waiters"]):
        t0 = w["start"] * TICK + TICK // 2
        starts.append(t0)
        sim.schedule(Event(time=Instant(t0), event_type="go", target=waiters[i]))
    # keep the run alive to the end so that late (wrong) resumptions are seen
    sim.schedule(Event(time=Instant(40 * TICK), event_type="res", target=res, context={"leaf": 0, "val": 0}))
    leaf_res.setdefault(0, (40 * TICK, 0))
    sim.run()
    shared = False
    for i, w in enumerate(waiters):
        want_t, want_vals = _model_fanin(w.tree, starts[i], leaf_res)
        got = resumes.get(i, [])
        if len(got) > 1:
            r.add(f"{P}/fanin/resumed-more-than-once", f"waiter {i} tree {w.tree}: {got}")
        elif want_t is None:
            if got:
                r.add(f"{P}/fanin/resumed-although-unresolved", f"waiter {i} tree {w.tree}: {got}")
        elif not got:
            r.add(f"{P}/fanin/never-resumed", f"waiter {i} tree {w.tree} built at {starts[i]}: should resume at {want_t} with one of {sorted(want_vals, key=repr)[:3]}")
        elif got[0][0] != want_t:
            r.add(f"{P}/fanin/resumed-at-wrong-instant", f"waiter {i} tree {w.tree} built at {starts[i]}: resumed at {got[0][0]}, expected {want_t}")
        elif got[0][1] not in want_vals:
            r.add(f"{P}/fanin/wrong-value", f"waiter {i} tree {w.tree}: received {got[0][1]!r}, expected one of {sorted(want_vals, key=repr)[:3]}")
    leaves_of = lambda t: {t} if isinstance(t, int) else set().union(*[leaves_of(x) for x in t[1]])
    used = [leaves_of(w.tree) for w in waiters]
    shared = any(used[a] & used[b] for a in range(len(used)) for b in range(a + 1, len(used)))
    r.nontrivial = shared and len(resumes) >= 2
    r.labels += [l for l, c in (("shared-leaf", shared), ("some-never-resolve", len(resumes) < len(waiters))) if c]
    return r


def _tup(v):
    return tuple(_tup(x) if isinstance(x, (list, tuple)) else x for x in v)


RULE = ("generated programs whose handlers are generators built from yield delay / yield delay,[events] / yield future / "
        "yield any_of|all_of trees / yield from (depth<=3), futures resolved by other handlers before, at and after the wait, "
        "double resolves, completion hooks on parked processes, hooks attached late (by the running process to its own event or to another pending / in-flight event); non-trivial = the reference run shows at least one of: future "
        "resolved at the wait instant, wait on an already-resolved future, combinator with a pre-resolved input, nested "
        "combinator, parked process carrying hooks, yield-from depth>=2, double resolve")

OBLIGATIONS = [
    Obligation("proc", case_strategy(False), execute_factory("proc"), {"quick": 1500, "thorough": 120000}, RULE),
    Obligation("futures", case_strategy(True), execute_factory("futures"), {"quick": 1500, "thorough": 120000},
               "same generator biased towards futures and combinators (>=2 futures, no past-stamped emits); same rule"),
    Obligation("fanin", fanin_strategy, ex_fanin, {"quick": 1500, "thorough": 100000},
               "2-5 leaf futures shared by up to 6 waiter processes, each waiting on its own any_of/all_of tree (depth <= 3, repeated leaves) "
               "built at a generated half tick; leaves are resolved one per integer tick (double resolves, None values, some never); a small "
               "model of the combinator semantics gives every waiter's resumption instant and the set of acceptable values (several inputs "
               "settled at construction: any of them); independent of the order in which one resolve wakes several waiters; non-trivial = "
               "two waiters share a leaf and at least two waiters resumed"),
    Obligation("float", float_strategy, ex_float, {"quick": 1000, "thorough": 60000},
               "one process yielding arbitrary finite float delays (0, sub-microsecond, fractions, up to 1e6 s) with and without "
               "side-effect events; resume offset must be floor/ceil of the exact delay in ns and side-effect events are delivered "
               "at the yield instant; non-trivial = a non-integer or sub-microsecond delay"),
]
