"""C11 — Raft: one leader per term, matching logs, durable commits, identical applies; submit futures;
bounded liveness on a fault-free network.

Real ``RaftNode``s on a scripted network (``dsl/netsched``): per-message delays, loss bits, partition windows,
crash/restart windows, election-timeout draws and client submits all come from the generated case.  A monitor
hooked on ``sim.control.on_event`` looks at every processed event:

* state invariants from public properties (``state``, ``current_term``, ``log``, ``log.commit_index``) and a
  recording state machine, after every event delivered to a node;
* mechanism-level clauses from the observed message stream (every ``Raft*`` event carries its payload in
  ``event.context["metadata"]``; an event targeted at the Network is a *send*, one targeted at a node a
  *delivery*), one signature per anchored mechanism so that root causes are told apart.
"""
from __future__ import annotations

from hypothesis import strategies as st

from .. import harness
from ..dsl import netsched
from ..runner import Obligation, Result

P = "C11"
ASSUMPTIONS = [
    "crash = the engine's CrashNode (events to the node are dropped, its state is retained, its timers are lost); "
    "a generated flag decides whether start() is called again after a restart (re-arming the election timer) — "
    "safety is required either way",
    "commands are distinct {'op':'set','key':'k','value':id} dicts, so an applied/committed command identifies "
    "its log index; clients do not call submit() on a node while it is crashed",
    "a submit() future that never resolves is accepted (the statement only restricts what it may resolve with)",
    "liveness is judged only in the bounded fault-free form: delays 1-10 ms, heartbeat + 10 ms < minimum election "
    "timeout, commands submitted after one leader is established (exactly one LEADER, every other node FOLLOWER "
    "in the same term naming it as leader); horizon = last submit + 3 heartbeats + 5 max delays",
    "an event budget hit ends the history early; violations observed in the explored prefix still count (safety "
    "clauses are prefix-closed), the case is labelled event-budget",
]

L, F, C = "LEADER", "FOLLOWER", "CANDIDATE"


def cid(cmd):
    """Identity of a command (commands are distinct by construction)."""
    if isinstance(cmd, dict):
        return cmd.get("value")
    return repr(cmd)


def _int(x, lo, hi, default=None):
    try:
        v = int(x)
    except (TypeError, ValueError):
        v = lo if default is None else default
    return max(lo, min(hi, v))


class Snap:
    __slots__ = ("state", "term", "commit", "ents")

    def __init__(self, node):
        log = node.log
        self.state = node.state.name
        self.term = node.current_term
        self.commit = log.commit_index
        self.ents = tuple((e.term, cid(e.command)) for e in log.entries_after(0))


class RecSM:
    """Recording state machine (StateMachine protocol). Reports every apply to the monitor."""

    def __init__(self, mon, name):
        self.mon, self.name, self.applied = mon, name, []

    def apply(self, command):
        self.applied.append(cid(command))
        self.mon.on_apply(self.name, command)
        return cid(command)

    def snapshot(self):
        return list(self.applied)

    def restore(self, snap):
        self.applied = list(snap)


class Monitor:
    def __init__(self, r: Result, obl: str, n: int):
        self.r, self.obl = r, obl
        self.quorum = n // 2 + 1
        self.nodes = {}            # name -> node
        self.by_id = {}
        self.prev = {}             # name -> Snap
        self.net = None
        self.seen = set()          # signatures already reported in this history
        self.causes = set()        # codes of mechanism-level clauses violated so far in this history
        self.leaders = {}          # term -> [names] in order of first observation
        self.grants_delivered = {}  # (candidate, term) -> set(voters)
        self.votes = {}            # (voter, term) -> [candidates] (self-vote included)
        self.same_term_ae = set()  # (node, term): processed an AppendEntries of its current term
        self.q_rv = {}             # (voter, candidate) -> [request records]
        self.q_ae = {}             # (follower, leader) -> [append records]
        self.ack_flags = {}        # id(metadata) -> (metadata, dict flags)
        self.told = {}             # (leader, term) -> {follower: (match, flags)}
        self.committed = {}        # index -> (entry, term observed)
        self.applied_at = {}       # index -> (cid, node)
        self.last_applied = {}     # node -> index
        self.futures = []          # [future, cid, node name, done]
        self.pending_applies = []  # applies seen inside the current handler, judged after it
        self.first_commit_seen = False
        self.leader_changes_after_commit = 0
        self.terms_with_leader = set()
        self.longer_peer = False     # some node became leader while a peer held a longer log
        self.n_deliver = 0
        self.prev_conflicts = 0
        self.led = {}              # node -> terms it led
        self.reelected = 0         # a node became leader again after another node had led in between
        self.matching_broken = False   # two leaders in one term / log matching violated earlier in this history
        self.stale_acks = 0        # success acks of an earlier term delivered to a leader (label / target only)
        self.n_crashed_drop = 0

    # ------------------------------------------------------------------ plumbing
    def attach(self, nodes, net):
        self.net = net
        for x in nodes:
            self.nodes[x.name] = x
            self.by_id[id(x)] = x.name
            self.prev[x.name] = Snap(x)
            self.last_applied[x.name] = 0

    def add(self, clause, detail, code=None):
        """A mechanism-level clause judged from one node's own transition and the message it processed (so nothing
        that happened elsewhere can explain it): always its own plain signature, also while other findings are open.
        ``code``: short name under which later consequences in the same history are filed."""
        if code:
            self.causes.add(code)
        sig = f"{P}/{self.obl}/{clause}"
        if sig not in self.seen:
            self.seen.add(sig)
            self.r.add(sig, detail)

    def derived(self, clause, detail):
        """A clause of the statement itself.  When mechanism-level clauses were already violated earlier in this
        history the break is filed as their consequence (a deterministic function of the history), so that a break
        with *no* known mechanism behind it keeps the plain signature."""
        if self.causes:
            clause = "consequence-of-" + "+".join(sorted(self.causes)) + "/" + clause
        sig = f"{P}/{self.obl}/{clause}"
        if sig not in self.seen:
            self.seen.add(sig)
            self.r.add(sig, detail)

    def on_event(self, ev):
        tgt = ev.target
        if tgt is self.net:
            if not netsched.is_continuation(ev):
                self.on_send(ev)
            return
        name = self.by_id.get(id(tgt))
        if name is None:
            return
        if getattr(tgt, "_crashed", False):
            self.n_crashed_drop += 1
            return
        self.on_deliver(ev, name)

    # ------------------------------------------------------------------ sends (events handed to the Network)
    def on_send(self, ev):
        typ = ev.event_type
        md = ev.context.get("metadata") or {}
        src, dst = md.get("source"), md.get("destination")
        if src not in self.prev or dst not in self.prev:
            return
        if typ == "RaftRequestVote":
            t = md.get("term")
            self.vote(src, t, md.get("candidate_id", src))
        elif typ == "RaftVoteResponse":
            q = self.q_rv.get((src, dst))
            rec = q.pop(0) if q else None
            if md.get("vote_granted"):
                t = md.get("term")
                self.vote(src, t, dst)
                if rec is not None:
                    (vlt, vli), (clt, cli) = rec["voter_last"], rec["cand_last"]
                    if (clt, cli) < (vlt, vli):
                        self.add("v2-vote-granted-to-less-up-to-date-log",
                                 f"{src} (last term {vlt}, index {vli}) granted term {t} to {dst} "
                                 f"(last term {clt}, index {cli})", code="v2")
        elif typ == "RaftAppendEntriesResponse":
            q = self.q_ae.get((src, dst))
            rec = q.pop(0) if q else None
            flags = {"overclaim": False, "ae_term": None if rec is None else rec["term"]}
            self.ack_flags[id(md)] = (md, flags)
            if md.get("success") and rec is not None:
                m = md.get("match_index", 0)
                ls = rec["leader"]
                if ls.state == L and ls.term == rec["term"] == md.get("term") and isinstance(m, int):
                    mine = rec["follower_ents"]
                    if len(mine) < m or len(ls.ents) < m or mine[:m] != ls.ents[:m]:
                        flags["overclaim"] = True
                        k = next((i for i in range(min(m, len(mine), len(ls.ents))) if mine[i] != ls.ents[i]),
                                 min(m, len(mine), len(ls.ents)))
                        # once two leaders shared a term (or log matching broke), equal (index, term) no longer means
                        # equal prefixes, so an honest ack can be wrong: then this is a consequence, not a cause
                        two = self.matching_broken
                        (self.derived if two else self.add)("r3-ack-match-index-beyond-verified-prefix",
                                 f"{src} answered AppendEntries(term {rec['term']}, prev {rec['prev']}, "
                                 f"{rec['n']} entries) of leader {dst} with match_index={m}, but its log "
                                 f"differs from the leader's at index {k + 1} "
                                 f"(follower {mine[k:k + 1]}, leader {ls.ents[k:k + 1]})", **({} if two else {"code": "overclaim"}))

    def vote(self, voter, term, cand):
        lst = self.votes.setdefault((voter, term), [])
        if cand not in lst:
            lst.append(cand)
            if len(lst) > 1:
                cls = "after-same-term-append-entries" if (voter, term) in self.same_term_ae else "other"
                self.add(f"v1-two-votes-in-one-term/{cls}",
                         f"{voter} voted for {lst} in term {term}", code="v1")

    # ------------------------------------------------------------------ deliveries to a live node
    def on_deliver(self, ev, name):
        self.n_deliver += 1
        node = self.nodes[name]
        typ = ev.event_type
        md = ev.context.get("metadata") or {}
        old = self.prev[name]
        new = Snap(node)
        self.prev[name] = new
        src = md.get("source")
        known = src in self.prev and src != name

        # ---- record message facts first
        if typ == "RaftRequestVote" and known:
            self.q_rv.setdefault((name, src), []).append({
                "voter_last": (new.ents[-1][0] if new.ents else 0, len(new.ents)),
                "cand_last": (md.get("last_log_term", 0), md.get("last_log_index", 0))})
        elif typ == "RaftVoteResponse":
            if md.get("vote_granted") and md.get("from") is not None:
                self.grants_delivered.setdefault((name, md.get("term")), set()).add(md.get("from"))
        elif typ == "RaftAppendEntries":
            if known:
                self.q_ae.setdefault((name, src), []).append({
                    "term": md.get("term"), "prev": md.get("prev_log_index", 0),
                    "n": len(md.get("entries") or []), "follower_ents": new.ents, "leader": self.prev[src]})
            if md.get("term") == old.term:
                self.same_term_ae.add((name, old.term))
            if known:
                self.check_append(name, old, new, md)
        elif typ == "RaftAppendEntriesResponse":
            if old.state == L and md.get("success") and md.get("from") is not None:
                fl = dict(self.ack_flags.get(id(md), (None, {}))[1])
                fl["stale"] = md.get("term") != old.term or fl.get("ae_term") not in (None, old.term)
                if fl["stale"] and md.get("match_index", 0):
                    self.stale_acks += 1
                d = self.told.setdefault((name, old.term), {})
                d[md["from"]] = (md.get("match_index", 0), fl)

        # ---- r4: terms and commit index never decrease
        if new.term < old.term:
            self.add("r4-term-decreased", f"{name}: term {old.term} -> {new.term} on {typ}", code="termback")
        # ---- r1: a leader never deletes or overwrites entries of its own log
        if old.state == L and new.state == L and old.term == new.term and new.ents[:len(old.ents)] != old.ents:
            self.add("r1-leader-log-not-append-only", f"{name} term {new.term}: {old.ents} -> {new.ents} on {typ}",
                     code="r1")
        # ---- v3: leader of T only after quorum distinct grants for T
        if new.state == L and (old.state != L or old.term != new.term):
            voters = set(self.grants_delivered.get((name, new.term), ())) | {name}
            if len(voters) < self.quorum:
                self.add("v3-leader-without-quorum-of-grants",
                         f"{name} became leader of term {new.term} with grants from {sorted(voters)} "
                         f"(quorum {self.quorum})", code="v3")
        # ---- r3: leader commit rule
        if new.state == L and new.commit > old.commit:
            self.check_leader_commit(name, old, new, typ)
        # ---- statement-level clauses on this node's own transition (after the mechanism-level ones)
        if new.commit < old.commit:
            self.derived("r4-commit-index-decreased", f"{name}: commit_index {old.commit} -> {new.commit} on {typ}")
        # ---- a committed entry never disappears from / changes in the log of the node that committed it
        if new.ents[:old.commit] != old.ents[:old.commit]:
            k = next((i for i in range(old.commit) if new.ents[i:i + 1] != old.ents[i:i + 1]), 0)
            self.derived("committed-entry-removed-or-replaced",
                     f"{name}: committed entry {k + 1} {old.ents[k:k + 1]} became {new.ents[k:k + 1]} on {typ} "
                     f"from {src}")
        self.after_change(name, old, new, typ)

    def after_change(self, name, old, new, typ):
        """Global state invariants that involve node ``name`` after its state changed from old to new."""
        # ---- election safety
        if new.state == L:
            ls = self.leaders.setdefault(new.term, [])
            if name not in ls:
                ls.append(name)
                mine = self.led.setdefault(name, [])
                if mine and any(t > mine[-1] and who != [name] for t, who in self.leaders.items() if t < new.term):
                    self.reelected += 1          # led before, somebody else led in between (label / target only)
                mine.append(new.term)
                if any(len(o.ents) > len(new.ents) for other, o in self.prev.items() if other != name):
                    self.longer_peer = True
                self.terms_with_leader.add(new.term)
                if self.first_commit_seen:
                    self.leader_changes_after_commit += 1
                if len(ls) > 1:
                    a, b = ls[0], name
                    va = set(self.grants_delivered.get((a, new.term), ())) | {a}
                    vb = set(self.grants_delivered.get((b, new.term), ())) | {b}
                    self.matching_broken = True
                    self.derived("two-leaders-in-one-term",
                                 f"term {new.term}: {a} (voters {sorted(va)}) and {b} (voters {sorted(vb)})")
        self.flush_applies()
        log_changed = new.ents != old.ents
        # ---- log matching
        if log_changed:
            for other, o in self.prev.items():
                if other == name:
                    continue
                m = min(len(new.ents), len(o.ents))
                i = next((j for j in range(m, 0, -1) if new.ents[j - 1][0] == o.ents[j - 1][0]), 0)
                if i and new.ents[:i] != o.ents[:i]:
                    k = next(j for j in range(i) if new.ents[j] != o.ents[j])
                    self.matching_broken = True
                    self.derived("log-matching",
                             f"{name} and {other} both hold an entry (index {i}, term {new.ents[i - 1][0]}) but "
                             f"differ at index {k + 1}: {new.ents[k]} vs {o.ents[k]}")
        # ---- newly observed commits
        if new.commit > old.commit:
            self.first_commit_seen = True
            for i in range(old.commit + 1, min(new.commit, len(new.ents)) + 1):
                if i not in self.committed:
                    self.committed[i] = (new.ents[i - 1], new.term)
            self.check_leader_completeness(self.prev.keys())
        elif new.state == L and (log_changed or old.state != L or old.term != new.term):
            self.check_leader_completeness([name])
        self.check_futures()

    def check_leader_completeness(self, names):
        for y in names:
            s = self.prev[y]
            if s.state != L:
                continue
            for i, (e, t_obs) in self.committed.items():
                if t_obs < s.term and s.ents[i - 1:i] != (e,):
                    self.derived("leader-completeness",
                             f"entry {i} {e} was committed by term {t_obs}; leader {y} of term {s.term} holds "
                             f"{s.ents[i - 1:i]} there")
                    return

    def check_append(self, name, old, new, md):
        """r2: what a follower may do to its log while processing one AppendEntries (reference rule)."""
        term = md.get("term")
        prev_i = md.get("prev_log_index", 0) or 0
        prev_t = md.get("prev_log_term", 0) or 0
        entries = md.get("entries") or []
        if not isinstance(term, int):
            return
        accept = term >= old.term
        if accept and prev_i > 0:
            accept = len(old.ents) >= prev_i and old.ents[prev_i - 1][0] == prev_t
            if len(old.ents) >= prev_i and not accept:
                self.prev_conflicts += 1       # the consistency check met an entry of another term (label / target)
        exp = list(old.ents)
        conflict = None
        if accept:
            for ed in entries:
                idx, et, ec = ed.get("index"), ed.get("term"), cid(ed.get("command"))
                if not isinstance(idx, int) or idx < 1 or idx > len(exp) + 1:
                    return                      # not a well-formed contiguous batch: outside the reference rule
                if idx <= len(exp):
                    if exp[idx - 1][0] != et:
                        if conflict is None:
                            conflict = idx
                        del exp[idx - 1:]
                        exp.append((et, ec))
                else:
                    exp.append((et, ec))
        exp = tuple(exp)
        if new.ents == exp:
            return
        keep = len(old.ents) if conflict is None else conflict - 1
        what = f"{name} (term {old.term}, log {old.ents}) processing AppendEntries(term {term}, prev " \
               f"({prev_i},{prev_t}), entries {[(e.get('index'), e.get('term')) for e in entries]}): log became " \
               f"{new.ents}, reference {exp}"
        if new.ents[:keep] != old.ents[:keep]:
            self.add("r2-follower-removed-entries-without-conflict", what, code="r2")
        else:
            self.add("r2-follower-log-differs-from-append-rule", what, code="r2")

    def check_leader_commit(self, name, old, new, typ):
        n = new.commit
        if n > len(new.ents):
            self.add("r3-commit-index-beyond-log", f"{name}: commit_index {n}, log length {len(new.ents)}", code="commitrule")
            return
        e = new.ents[n - 1]
        if e[0] != new.term:
            self.add("r3-leader-committed-entry-of-older-term-by-counting",
                     f"leader {name} of term {new.term} advanced commit_index {old.commit} -> {n}; entry {n} "
                     f"has term {e[0]}", code="oldterm")
        holders = [y for y, s in self.prev.items() if s.ents[n - 1:n] == (e,)]
        if len(holders) < self.quorum:
            told = self.told.get((name, new.term), {})
            ok = {f: v for f, v in told.items() if v[0] >= n}
            if len(ok) + 1 < self.quorum:
                cls = "without-enough-acks"
            elif any(v[1].get("overclaim") for f, v in ok.items() if f not in holders):
                cls = "overclaimed-ack"
            elif any(v[1].get("stale") for f, v in ok.items() if f not in holders):
                cls = "stale-ack"
            else:
                cls = "acked-entry-lost-by-follower"
            # explained by what happened elsewhere (an over-claiming ack, an entry lost again by a follower that had it):
            # filed as a consequence; explained by this leader's own bookkeeping: plain
            elsewhere = cls in ("overclaimed-ack", "acked-entry-lost-by-follower")
            (self.derived if elsewhere else self.add)(f"r3-commit-without-majority-holding-entry/{cls}",
                     f"leader {name} term {new.term} committed index {n} {e}; logs holding it: {holders} "
                     f"(quorum {self.quorum}); acks it had: "
                     f"{ {f: (v[0], [k for k in ('overclaim', 'stale') if v[1].get(k)]) for f, v in sorted(told.items())} }",
                     **({} if elsewhere else {"code": "commitrule"}))

    # ------------------------------------------------------------------ applies (called from inside handlers)
    def on_apply(self, name, command):
        """Called from inside the handler.  Only records (the index is looked up in the log as it is right now); the
        judgement is made after the mechanism-level clauses of the same event (flush_applies), so that a break they
        explain is filed as their consequence."""
        node = self.nodes[name]
        c = cid(command)
        idx = next((e.index for e in node.log.entries_after(0) if cid(e.command) == c), None)
        self.pending_applies.append((name, c, idx))

    def flush_applies(self):
        todo, self.pending_applies = self.pending_applies, []
        for name, c, idx in todo:
            self.judge_apply(name, c, idx)

    def judge_apply(self, name, c, idx):
        if idx is None:
            self.derived("applied-command-not-in-own-log", f"{name} applied {c!r}")
            return
        la = self.last_applied[name]
        if idx != la + 1:
            self.derived("apply-order-gap-or-repeat", f"{name} applied index {idx} after index {la}")
        self.last_applied[name] = max(la, idx)
        cur = self.applied_at.get(idx)
        if cur is None:
            self.applied_at[idx] = (c, name)
        elif cur[0] != c:
            self.derived("state-machine-safety-different-commands-at-one-index",
                     f"index {idx}: {cur[1]} applied {cur[0]!r}, {name} applied {c!r}")

    # ------------------------------------------------------------------ client side
    def submitted(self, name, fut, c):
        old = self.prev[name]
        new = Snap(self.nodes[name])
        self.prev[name] = new
        self.futures.append([fut, c, name, False])
        self.after_change(name, old, new, "submit")

    def check_futures(self):
        for rec in self.futures:
            fut, c, name, done = rec
            if done or not fut.is_resolved:
                continue
            rec[3] = True
            v = fut.value
            s = Snap(self.nodes[name])
            i = v[0] if isinstance(v, tuple) and len(v) == 2 and isinstance(v[0], int) else None
            if i is None or i < 1 or i > s.commit or s.ents[i - 1][1] != c:
                at = s.ents[i - 1:i] if isinstance(i, int) and i >= 1 else None
                self.derived("submit-future-resolved-with-foreign-entry",
                         f"submit({c!r}) on {name} resolved with {v!r}; entry committed there: {at}, "
                         f"commit_index {s.commit}")


# =========================================================================================== safety obligation
DELAYS = st.one_of(st.sampled_from([1, 2, 5, 10, 20, 40, 60, 90, 120, 160, 200, 250, 300, 400]), st.integers(1, 400),
                   st.sampled_from([1, 5, 600, 900, 1500]))


# election-timeout draws in 1/1000 of the configured span: mostly a few near-equal values, so that several nodes time out
# within a message delay of each other (split votes, concurrent candidates), plus arbitrary values
TIMEOUT_DRAWS = st.one_of(st.sampled_from([0, 5, 10, 15, 20, 30, 40, 200, 500, 999]), st.sampled_from([0, 5, 10, 15, 20, 30]),
                          st.integers(0, 999))


def safety_strategy(faults=True):
    def s(tier):
        big = tier == "thorough"
        t_max = 9000 if big else 5000
        return st.fixed_dictionaries({
            "n": st.sampled_from([3, 3, 4, 5, 5]),
            "hb": st.sampled_from([40, 60, 100]),
            "eto": st.sampled_from([[150, 150], [200, 200], [150, 300], [300, 100]]),
            "T": st.integers(1200, t_max),
            "timeouts": st.lists(TIMEOUT_DRAWS, max_size=30),
            "net": netsched.net_strategy(delay_values=DELAYS, max_delays=160 if big else 100, loss=faults,
                                         max_parts=3 if faults else 0, max_crashes=2 if faults else 0,
                                         t_max=t_max, dur_max=1500, max_slow=2 if faults else 0),
            "submits": st.lists(st.fixed_dictionaries({"t": st.integers(100, t_max), "node": st.integers(0, 4),
                                                       "leader": st.sampled_from([True, True, False])}),
                                max_size=14),
        })
    return s


def build_cluster(case, mon, sn):
    from happysimulator.components.consensus.raft import RaftNode
    n = 3 + (_int(case.get("n"), 3, 10 ** 6) - 3) % 3
    hb = _int(case.get("hb"), 10, 1000, 50)
    eto = case.get("eto") if isinstance(case.get("eto"), list) and len(case.get("eto")) == 2 else [150, 150]
    emin = _int(eto[0], 20, 5000, 150)
    espan = _int(eto[1], 0, 5000, 150)
    nodes, sms = [], []
    for i in range(n):
        sm = RecSM(mon, f"n{i}")
        sms.append(sm)
        nodes.append(RaftNode(f"n{i}", sn.network, state_machine=sm, election_timeout_min=emin / 1000,
                              election_timeout_max=(emin + espan) / 1000, heartbeat_interval=hb / 1000))
    for x in nodes:
        x.set_peers(nodes)
    sn.connect(nodes)
    return nodes, sms, n, hb, emin, espan


def ex_safety(obl):
    def execute(case):
        import happysimulator.components.consensus.raft as raft_mod
        from happysimulator import Event, Instant, Simulation
        r = Result()
        case = case if isinstance(case, dict) else {}
        netc = case.get("net") if isinstance(case.get("net"), dict) else {}
        sn = netsched.ScriptedNet(netc, unit=netsched.MS, default_delay=5, max_delay=2000)
        harness.seed_globals(sn.seed)          # belt and braces: nothing should draw from the global RNG
        n0 = 3 + (_int(case.get("n"), 3, 10 ** 6) - 3) % 3
        mon = Monitor(r, obl, n0)
        nodes, sms, n, hb, emin, espan = build_cluster(case, mon, sn)
        mon.attach(nodes, sn.network)
        T = _int(case.get("T"), 100, 20000, 2000)
        sim = Simulation(entities=[sn.network, *nodes], fault_schedule=sn.fault_schedule(),
                         end_time=Instant.from_seconds(T / 1000))
        for e in sn.control_events(on_restart=lambda node: node.start()):
            sim.schedule(e)
        # clients
        next_cmd = [0]
        n_sub = [0, 0]

        def submit_to(node):
            if getattr(node, "_crashed", False):
                return
            next_cmd[0] += 1
            c = next_cmd[0]
            fut = node.submit({"op": "set", "key": "k", "value": c})
            n_sub[0 if node.is_leader else 1] += 1
            mon.submitted(node.name, fut, c)

        for s in (case.get("submits") or [])[:40]:
            if not isinstance(s, dict):
                continue
            t = _int(s.get("t"), 0, 10 ** 7, 0)
            idx = _int(s.get("node"), 0, 10 ** 6, 0) % n
            to_leader = bool(s.get("leader"))

            def fn(e, idx=idx, to_leader=to_leader):
                if to_leader:
                    for x in nodes:
                        if x.is_leader:
                            submit_to(x)
                else:
                    submit_to(nodes[idx])

            sim.schedule(Event.once(time=Instant.from_seconds(t / 1000), event_type="client.submit", fn=fn,
                                    daemon=True))
        script = [(_int(x, 0, 999, 0)) / 1000 for x in (case.get("timeouts") or []) if isinstance(x, (int, float))]
        rng = harness.RandomShim(sn.seed, script)
        probe = harness.SimProbe(sim, max_per_instant=20000, max_events=60000, log=False, on_event=mon.on_event)
        with sn.installed(raft_mod, rng=rng):      # start() draws the first election timeouts: inside the shim
            for x in nodes:
                sim.schedule(x.start())
            status = probe.run()
        mon.flush_applies()
        if status == "spin":
            r.add(f"{P}/{obl}/spin-at-one-instant", f"more than 20000 events at t={probe.spin_at} ns")
        elif status == "budget":
            r.labels.append("event-budget")
        # classification
        nt = []
        if len(mon.terms_with_leader) >= 2:
            nt.append(">=2-terms-with-leader")
        if mon.leader_changes_after_commit:
            nt.append("leader-change-after-commit")
        if mon.longer_peer:
            nt.append("leader-elected-while-a-peer-holds-a-longer-log")
        r.nontrivial = bool(nt)
        r.labels += nt + sn.features() + [f"n={n}"]
        if not mon.terms_with_leader:
            r.labels.append("no-leader")
        if mon.committed:
            r.labels.append("commits")
        if any(f[3] for f in mon.futures):
            r.labels.append("future-resolved")
        pairs = sum(len(v) for v in mon.leaders.values())
        if mon.stale_acks:
            r.labels.append("stale-ack-delivered-to-leader")
        r.target = float(pairs + 2 * mon.leader_changes_after_commit + min(len(mon.committed), 5)
                         + 3 * min(mon.stale_acks, 4) + 3 * min(mon.prev_conflicts, 4) + 4 * min(mon.reelected, 3))
        if mon.reelected:
            r.labels.append("former-leader-re-elected-after-another-leader")
        if mon.prev_conflicts:
            r.labels.append("consistency-check-met-conflicting-entry")
        r.observed = {"events": probe.n, "leaders": {str(k): v for k, v in sorted(mon.leaders.items())},
                      "committed": len(mon.committed), "submits": n_sub}
        return r
    return execute


# =========================================================================================== regain obligation
def make_late_heal(seed, crash, t_p1, t_crash, down, heal, fast, extra):
    """Second directed template: the cut-off first leader n0 keeps appending entries of term 1; the majority side goes
    through *two* leaderships (its leader is down for a moment and restarts) before the partition heals, so the new
    leader's first AppendEntries to n0 names a previous entry that n0 holds with another term."""
    return {"n": 5, "hb": 40, "eto": [150, 150], "T": heal + 900, "timeouts": [0, 500, 300, 900, 900],
            "net": {"delays": [fast], "loss": [], "seed": seed, "slow": [],
                    "parts": [{"t": t_p1, "dur": heal - t_p1, "mask": 3}],
                    "crashes": [{"node": crash, "t": t_crash, "dur": down, "rearm": True}]},
            "submits": [{"t": 200, "node": 0, "leader": False}, {"t": 201, "node": 0, "leader": False},
                        {"t": 600, "node": 0, "leader": True}, {"t": 700, "node": 0, "leader": True},
                        {"t": heal - 60, "node": 0, "leader": True}] + extra}


def make_regain(seed, crash, k, t_p1, heal, t_crash, t_p2, t_d, slow, fast, extra, back):
    """A *directed* schedule family (jittered template, see the rule text): the first leader n0 is cut off with n1
    while n1's answers to it crawl; the majority elects a new leader whose entry overwrites n0's log; that leader
    crashes; if n0 regains the leadership it is cut off with a single follower k while the late answers arrive."""
    # back > 0: the crashed leader comes back `back` ms after the second partition started, so the other side regains a
    # quorum and can commit something else at the contested index
    # slow == 0 ("kept progress" variant): n1 answers promptly, so n0 learns in term 1 that n1 stores its two entries
    # (nothing is committed: 2 of 5); n1 is then down from the crash of the second leader until `back`, so that after its
    # re-election n0 hears nothing new from n1 and replicates to the single follower k only
    down = (t_p2 + back - t_crash) if back else 0
    crashes = [{"node": crash, "t": t_crash, "dur": down, "rearm": True}]
    if not slow:
        crashes.append({"node": 1, "t": t_crash, "dur": down, "rearm": True})
    return {"n": 5, "hb": 40, "eto": [150, 150], "T": t_d + (2700 if back else 1900), "timeouts": [0, 500, 300, 900, 900],
            "net": {"delays": [fast], "loss": [], "seed": seed,
                    "parts": [{"t": t_p1, "dur": heal - t_p1, "mask": 3}, {"t": t_p2, "dur": 3500, "mask": 1 | (1 << k)}],
                    "crashes": crashes,
                    "slow": [{"src": 1, "dst": 0, "t": 150, "dur": 500, "delay": slow}] if slow else []},
            "submits": [{"t": 200, "node": 0, "leader": False}, {"t": 201, "node": 0, "leader": False},
                        {"t": 600, "node": 0, "leader": True}, {"t": t_d, "node": 0, "leader": True}] + extra}


def regain_strategy(tier):
    extra = st.lists(st.fixed_dictionaries({"t": st.integers(1500, 4000), "node": st.integers(0, 4), "leader": st.just(True)}),
                     max_size=2)
    late = st.builds(make_late_heal, seed=st.integers(0, 2 ** 16), crash=st.sampled_from([2, 3, 4]), t_p1=st.integers(204, 232),
                     t_crash=st.integers(780, 900), down=st.integers(150, 300), heal=st.integers(1350, 1600),
                     fast=st.sampled_from([1, 2, 3, 5]), extra=extra)
    return st.one_of(late, _regain_main(), _regain_main())


def _regain_main():
    return st.builds(make_regain, seed=st.integers(0, 2 ** 16), crash=st.sampled_from([2, 3, 4]), k=st.sampled_from([2, 3, 4]),
                     t_p1=st.integers(204, 232), heal=st.integers(760, 860), t_crash=st.integers(920, 1000),
                     t_p2=st.integers(1340, 1395), t_d=st.integers(1396, 1440), slow=st.sampled_from([0, 0, 1500, 1700, 2000]),
                     fast=st.sampled_from([1, 2, 3, 5]),
                     extra=st.lists(st.fixed_dictionaries({"t": st.integers(1500, 4000), "node": st.integers(0, 4),
                                                           "leader": st.just(True)}), max_size=2),
                     back=st.sampled_from([0, 700, 900, 1100]))


# =========================================================================================== liveness obligation
def liveness_strategy(tier):
    return st.fixed_dictionaries({
        "n": st.sampled_from([3, 4, 5]),
        "hb": st.sampled_from([30, 50]),
        "emin": st.sampled_from([100, 150, 300]),
        "timeouts": st.lists(TIMEOUT_DRAWS, max_size=20),
        "delays": st.lists(st.integers(1, 10), max_size=60),
        "seed": st.integers(0, 2 ** 16),
        "gaps": st.lists(st.integers(0, 120), min_size=1, max_size=6),
    })


def ex_liveness(case):
    import happysimulator.components.consensus.raft as raft_mod
    from happysimulator import Event, Instant, Simulation
    obl = "liveness"
    r = Result()
    case = case if isinstance(case, dict) else {}
    dl = [_int(x, 1, 10, 1) for x in (case.get("delays") or []) if isinstance(x, (int, float))]
    sn = netsched.ScriptedNet({"delays": dl, "seed": case.get("seed")}, unit=netsched.MS, default_delay=3, max_delay=10)
    harness.seed_globals(sn.seed)
    hb = _int(case.get("hb"), 20, 50, 50)
    emin = _int(case.get("emin"), 100, 1000, 150)
    c2 = {"n": case.get("n"), "hb": hb, "eto": [emin, emin]}
    # the safety clauses are judged in `safety`; here the monitor only names the mechanism-level clauses that were
    # violated earlier in the history, so that a liveness break is filed as their consequence
    mon = Monitor(Result(), obl, 3 + (_int(case.get("n"), 3, 10 ** 6) - 3) % 3)
    nodes, sms, n, hb, emin, espan = build_cluster(c2, mon, sn)
    mon.attach(nodes, sn.network)
    dmax = 10
    gaps = [_int(g, 0, 1000, 0) for g in (case.get("gaps") or [0]) if isinstance(g, (int, float))][:8] or [0]
    k = len(gaps)
    t_est_max = 40 * (emin + espan)                       # ms: give elections plenty of time, not judged
    state = {"leader": None, "term": None, "t_est": None, "cmds": [], "futs": [], "t_last": None, "deposed": None}
    sim = Simulation(entities=[sn.network, *nodes], end_time=Instant.from_seconds((t_est_max + 60000) / 1000))

    def established():
        ls = [x for x in nodes if x.is_leader]
        if len(ls) != 1:
            return None
        ld = ls[0]
        for x in nodes:
            if x is ld:
                continue
            if x.state.name != F or x.current_term != ld.current_term or x.current_leader != ld.name:
                return None
        return ld

    def poll(e):
        ld = established()
        now_ms = e.time.nanoseconds // 10 ** 6
        if ld is None:
            if now_ms > t_est_max:
                sim.control.pause()
                return None
            return Event.once(time=Instant(e.time.nanoseconds + 5 * 10 ** 6), event_type="client.poll", fn=poll,
                              daemon=True)
        state.update(leader=ld, term=ld.current_term, t_est=now_ms)
        evs, t = [], e.time.nanoseconds
        for j, g in enumerate(gaps):
            t += g * 10 ** 6
            evs.append(Event.once(time=Instant(t), event_type="client.submit", fn=lambda ev, j=j: do_submit(j),
                                  daemon=True))
        state["t_last"] = t
        horizon = t + (3 * hb + 5 * dmax) * 10 ** 6
        evs.append(Event.once(time=Instant(horizon), event_type="client.judge", fn=judge, daemon=True))
        return evs

    def do_submit(j):
        ld = state["leader"]
        if not ld.is_leader or ld.current_term != state["term"]:
            state["deposed"] = state["deposed"] or f"before submit {j}"
        c = 1000 + j
        state["cmds"].append(c)
        state["futs"].append(ld.submit({"op": "set", "key": "k", "value": c}))

    def flag(clause, detail):
        if mon.causes:
            clause = "consequence-of-" + "+".join(sorted(mon.causes)) + "/" + clause
        r.add(f"{P}/{obl}/{clause}", detail)

    def judge(e):
        state["judged"] = True
        ld = state["leader"]
        cmds = state["cmds"]
        if not ld.is_leader or ld.current_term != state["term"] or state["deposed"]:
            flag("established-leader-deposed-on-fault-free-network",
                  f"{ld.name} was established leader of term {state['term']} at {state['t_est']} ms; at the horizon it "
                  f"is {ld.state.name} in term {ld.current_term} ({state['deposed']})")
        bad = [(x.name, sm.applied) for x, sm in zip(nodes, sms) if sm.applied != cmds]
        if state["deposed"]:
            pass        # (some of) the commands went to a node that had already lost the leadership: reported above
        elif bad:
            flag("submitted-commands-not-applied-in-order-everywhere-within-horizon",
                  f"leader {ld.name} term {state['term']} got {cmds}; {3 * hb + 5 * dmax} ms after the last submit: "
                  f"{bad[:3]} (commit indexes { {x.name: x.log.commit_index for x in nodes} })")
        for c, fut in zip(cmds, state["futs"]):
            if fut.is_resolved:
                v = fut.value
                i = v[0] if isinstance(v, tuple) and len(v) == 2 and isinstance(v[0], int) else None
                ent = ld.log.get(i) if i else None
                if ent is None or cid(ent.command) != c or i > ld.log.commit_index:
                    flag("submit-future-resolved-with-foreign-entry", f"submit({c}) resolved with {v!r}")
            elif not bad:
                flag("submit-future-unresolved-after-apply", f"submit({c}) applied everywhere, future pending")
        sim.control.pause()
        return None

    sim.schedule(Event.once(time=Instant(10 ** 6), event_type="client.poll", fn=poll, daemon=True))
    script = [(_int(x, 0, 999, 0)) / 1000 for x in (case.get("timeouts") or []) if isinstance(x, (int, float))]
    rng = harness.RandomShim(sn.seed, script)
    probe = harness.SimProbe(sim, max_per_instant=20000, max_events=150000, log=False, on_event=mon.on_event)
    with sn.installed(raft_mod, rng=rng):          # start() draws the first election timeouts: inside the shim
        for x in nodes:
            sim.schedule(x.start())
        status = probe.run()
    if status == "spin":
        r.add(f"{P}/{obl}/spin-at-one-instant", f"more than 20000 events at t={probe.spin_at} ns")
    if state["leader"] is None:
        r.labels.append("no-leader-established" if status != "budget" else "event-budget")
    elif not state.get("judged"):
        r.labels.append("event-budget")
    else:
        terms = state["term"]
        r.labels.append("established-in-term-1" if terms == 1 else "established-in-later-term")
        contested = sum(x.stats.elections_started for x in nodes) > 1
        r.labels.append("contested-election" if contested else "single-candidate")
        r.nontrivial = k >= 2 or contested
        r.labels.append(f"k={k}")
    r.observed = {"events": probe.n, "term": state["term"], "t_est_ms": state["t_est"]}
    return r


RULE_SAFETY = (
    "clusters of 3-5 real RaftNodes (heartbeat 40-100 ms, election timeout 150-450 ms) on a scripted network: per-message "
    "delays 1-400 ms (occasionally up to 1.5 s) consumed in send order (messages overtake each other and straddle election timeouts), election-timeout "
    "draws, loss bits, 0-3 partition/heal windows, 0-2 crash/restart windows (with or without re-arming the timer), up to 14 "
    "client submits to arbitrary nodes or to whoever is leader; hypothesis.target maximises (term, leader) pairs and leader "
    "changes after the first commit. Non-trivial = the history has >= 2 terms with a leader, or a leader change after >= 1 "
    "commit, or a node becomes leader while a peer holds a longer log (a stale suffix that must be overwritten)")

OBLIGATIONS = [
    Obligation("safety", safety_strategy(True), ex_safety("safety"), {"quick": 2400, "thorough": 60000}, RULE_SAFETY),
    Obligation("regain", regain_strategy, ex_safety("safety"), {"quick": 480, "thorough": 8000},
               "DIRECTED family (jittered hand-designed templates, not free exploration; same executor, oracle and signature namespace "
               "as `safety`): 5 "
               "nodes, fast network; leader n0 accepts two commands, is partitioned together with n1 whose answers to n0 take "
               "1.5-2 s; the majority side elects a leader, commits another command, the partition heals (n0's log is overwritten), "
               "that leader crashes (and may come back later); a second partition leaves whoever leads with one follower while the late answers of n1 arrive. "
               "In the 'kept progress' variant of this template n1 answers promptly (n0 learns in term 1 that n1 stores its entries, 2 of 5, "
               "nothing committed) and is down from the second leader's crash on, so the re-elected n0 hears nothing new from it. "
               "A third of the cases use a second template: the cut-off leader keeps appending while the majority side goes through "
               "two leaderships before the partition heals, so the consistency check of AppendEntries meets an entry of another term. "
               "Jitter: PRNG seed of the election timeouts, crashed node, partition/crash/submit times, delays. Reaches the state "
               "'a node leads for the second time while answers to its first leadership are still in flight'. Non-trivial as in "
               "`safety`; the label stale-ack-delivered-to-leader marks the histories that reach the targeted state"),
    Obligation("liveness", liveness_strategy, ex_liveness, {"quick": 300, "thorough": 12000},
               "fault-free network, delays 1-10 ms, heartbeat 30/50 ms, election timeout >= 100 ms (heartbeat + max delay < "
               "minimum timeout): a client polls until exactly one leader is established (all others followers of it in its "
               "term), submits k=1-6 distinct commands to it at generated gaps; 3 heartbeats + 5 max delays after the last "
               "submit every node must have applied exactly these commands in submission order and the futures must carry "
               "their own indices. Non-trivial = k >= 2 or more than one election was started before the leader was established"),
]
