"""C06 — faults act exactly during their windows and isolate only the target.

Obligations
* node     : CrashNode / PauseNode on scripted entities with immediate handlers and long generator
             processes in flight; oracle = silence inside [at, restart), liveness outside, bystander logs
             identical to the fault-free run, cancelled handles have no effect.
* net      : NetworkPartition / InjectLatency / InjectPacketLoss(1.0) windows (overlapping, nested, adjacent)
             on a 3-4 node Network with constant link latency; one probe per directed pair per half tick;
             oracle per probe from the union of windows covering its pair at the send instant.
* capacity : ReduceCapacity windows on a Resource with holding workers; oracle = capacity reduced exactly
             inside windows, conservation and release() validity, configured state afterwards.
``*-safe`` twins restrict the domain so that the open findings cannot occur and run with no exclusions.
"""
from __future__ import annotations

from hypothesis import strategies as st

from ..harness import TICK, SimProbe
from ..runner import Obligation, Result

P = "C06"
ASSUMPTIONS = [
    "fault windows are half-open [start, end): fault events are created when the Simulation is constructed, i.e. before any model event, so at a shared instant the activation/deactivation fires first (same-instant order is creation order, C01)",
    "crash/pause windows of one entity do not overlap (the statement defines resumption 'from the restart time'; overlapping crash windows on one entity are not specified)",
    "a process in flight at the crash instant may be killed or may continue after the restart; it must not advance or emit inside the window",
    "when several latency windows overlap, any total in [L0 + min extra, L0 + sum of extras] is accepted (magnitude under overlap is unspecified); InjectPacketLoss uses loss_rate 1.0 so every probe outcome is deterministic",
    "link delays are compared with a tolerance of 3 ns (extra latency is given in float milliseconds)",
    "capacity: acquire(amount > current capacity) raising ValueError is documented behaviour; ReduceCapacity factors are dyadic so capacities are exact",
]


def with_cancel_hypotheses(r, obl, cancel_modes, judge):
    """judge(treat_live: set[int]) -> list[(sig, detail)].  Correct semantics: cancelled handles (modes 1 = cancelled before the
    Simulation was built, 2 = cancelled after it was built, before run) have no effect (treat_live = {}).  If the observation
    violates that but is fully explained by cancelled faults having taken effect, one signature says so."""
    v = judge(set())
    if v and cancel_modes:
        for live, name in (({1}, "before-simulation-built"), ({2}, "after-simulation-built"), ({1, 2}, "any")):
            if live <= cancel_modes | {0} and (live & cancel_modes) and not judge(live):
                r.add(f"{P}/{obl}/cancelled-handle-took-effect/{name}", v[0][1])
                return
    seen = set()
    for sig, detail in v:
        if sig not in seen:
            seen.add(sig)
            r.add(sig, detail)


# =============================================================================================== node
def node_strategy(safe):
    def s(tier):
        fault = st.fixed_dictionaries({
            "ent": st.integers(0, 1), "kind": st.sampled_from(["crash", "pause", "crash-perm"]),
            "a": st.integers(0, 30), "len": st.integers(1, 12), "cancel": st.sampled_from([0, 0, 0, 0, 1, 2]),
        })
        poke = st.fixed_dictionaries({
            "ent": st.integers(0, 3), "t": st.integers(0, 44), "half": st.booleans(),
            "steps": st.lists(st.integers(0, 6), max_size=0 if safe else 4),
            "hook": st.booleans(),                  # the poke carries a completion hook that emits to the node's sink
        })
        return st.fixed_dictionaries({"n": st.integers(2, 4), "faults": st.lists(fault, max_size=5),
                                      "pokes": st.lists(poke, min_size=1, max_size=30 if tier == "thorough" else 18)})
    return s


def node_windows(case):
    """Non-overlapping effective windows per entity, in ns: {ent: [(a, b|None, cancelled)]} in generation order."""
    n = max(2, case["n"])
    out = {}
    for f in case["faults"]:
        e = f["ent"] % n
        a = f["a"] * TICK
        b = None if f["kind"] == "crash-perm" else a + max(1, f["len"]) * TICK
        ws = out.setdefault(e, [])
        clash = False
        for (x, y, c, _) in ws:
            if (y is None or a < y + TICK) and (b is None or x < b + TICK):     # keep one tick between windows of an entity
                clash = True
        if not clash:
            ws.append((a, b, int(f["cancel"]), f["kind"]))
    return out


def run_node(case, with_faults):
    from happysimulator import Entity, Event, Instant, Simulation
    from happysimulator.faults import CrashNode, FaultSchedule, PauseNode
    n = max(2, case["n"])
    logs = {i: [] for i in range(n)}
    sinks_seen = {i: [] for i in range(n)}

    class Sink(Entity):
        def __init__(self, i):
            super().__init__(f"sink{i}")
            self.i = i

        def handle_event(self, event):
            sinks_seen[self.i].append((self.now.nanoseconds, event.context["pid"]))

    class Node(Entity):
        def __init__(self, i):
            super().__init__(f"node{i}")
            self.i = i

        def handle_event(self, event):
            pid = event.context["pid"]
            logs[self.i].append(("enter", self.now.nanoseconds, pid))
            steps = event.context["steps"]
            if not steps:
                logs[self.i].append(("emit", self.now.nanoseconds, pid))
                return Event(time=self.now, event_type="out", target=sinks[self.i], context={"pid": pid})
            return self._proc(pid, steps)

        def _proc(self, pid, steps):
            for d in steps:
                yield d / 512
                logs[self.i].append(("resume", self.now.nanoseconds, pid))
            logs[self.i].append(("emit", self.now.nanoseconds, pid))
            return Event(time=self.now, event_type="out", target=sinks[self.i], context={"pid": pid})

    nodes = [Node(i) for i in range(n)]
    sinks = [Sink(i) for i in range(n)]
    sched = FaultSchedule()
    late_cancel = []
    if with_faults:
        for e, ws in sorted(node_windows(case).items()):
            for (a, b, cancelled, kind) in ws:
                if kind == "pause":
                    h = sched.add(PauseNode(f"node{e}", start=a / 1e9, end=b / 1e9))
                else:
                    h = sched.add(CrashNode(f"node{e}", at=a / 1e9, restart_at=None if b is None else b / 1e9))
                if cancelled == 1:
                    h.cancel()
                elif cancelled == 2:
                    late_cancel.append(h)
    sim = Simulation(entities=nodes + sinks, fault_schedule=sched)
    for h in late_cancel:
        h.cancel()
    def hook_for(i, pid):
        def hook(t):
            logs[i].append(("hook", t.nanoseconds, pid))
            return Event(time=t, event_type="out", target=sinks[i], context={"pid": 100000 + pid})
        return hook
    for pid, p in enumerate(case["pokes"]):
        t = p["t"] * TICK + (TICK // 2 if p["half"] else 0)
        ev = Event(time=Instant(t), event_type="poke", target=nodes[p["ent"] % n],
                   context={"pid": pid, "steps": [max(0, int(d)) for d in p["steps"]]})
        if p.get("hook"):
            ev.add_completion_hook(hook_for(p["ent"] % n, pid))
        sim.schedule(ev)
    SimProbe(sim, log=False).run()
    return logs, sinks_seen


def execute_node(obl):
    def execute(case):
        r = Result()
        n = max(2, case["n"])
        wins = node_windows(case)
        logs, sinks = run_node(case, True)
        base_logs, base_sinks = run_node(case, False)
        flags = {"inflight": False}

        def judge(treat_live):
            out = []
            active = {e: [(a, b) for (a, b, c, k) in ws if c == 0 or c in treat_live] for e, ws in wins.items()}

            def inside(e, t):
                return any(a <= t and (b is None or t < b) for (a, b) in active.get(e, []))
            for e in range(n):
                for (what, t, pid) in logs[e]:
                    if inside(e, t):
                        sub = {"enter": "handler-ran", "resume": "inflight-process-advances", "emit": "emitted",
                               "hook": "completion-hook-ran"}[what]
                        if what == "emit" and case["pokes"][pid]["steps"]:
                            sub = "inflight-process-advances"
                        out.append((f"{P}/{obl}/silence/{sub}", f"node{e} {what} at {t} ns (poke {pid}) inside a crash/pause window {active[e]}"))
                entered = {pid for (w, t, pid) in logs[e] if w == "enter"}
                for pid, p in enumerate(case["pokes"]):
                    if p["ent"] % n != e:
                        continue
                    t = p["t"] * TICK + (TICK // 2 if p["half"] else 0)
                    if not inside(e, t) and pid not in entered:
                        after = any(b is not None and t >= b for (a, b) in active.get(e, []))
                        out.append((f"{P}/{obl}/liveness/{'after-restart' if after else 'outside-window'}",
                                    f"poke {pid} to node{e} at {t} ns was not handled; windows {active.get(e)} (all: {wins.get(e)})"))
                    if not inside(e, t) and p["steps"] and not treat_live:
                        dur = sum(p["steps"]) * TICK
                        if any(t < a <= t + dur for (a, b) in active.get(e, [])):
                            flags["inflight"] = True
                if not active.get(e):
                    if logs[e] != base_logs[e] or sinks[e] != base_sinks[e]:
                        out.append((f"{P}/{obl}/isolation/bystander-changed",
                                    f"node{e} has no active fault but its activity differs from the fault-free run (all windows: {wins.get(e)})"))
            return out
        modes = {c for ws in wins.values() for (_, _, c, _) in ws if c}
        with_cancel_hypotheses(r, obl, modes, judge)
        has = any(c == 0 for ws in wins.values() for (_, _, c, _) in ws)
        r.nontrivial = has and (flags["inflight"] or obl.endswith("safe"))
        r.labels += [l for l, c in (("inflight-at-crash", flags["inflight"]), ("has-window", has), ("cancelled-handle", bool(modes)),
                                    ("hooked-poke", any(p_.get("hook") for p_ in case["pokes"]))) if c]
        return r
    return execute


# =============================================================================================== net
def net_strategy(safe):
    def s(tier):
        fault = st.fixed_dictionaries({
            "kind": st.sampled_from(["part", "part", "lat", "loss"]),
            "a": st.integers(0, 20), "len": st.integers(1, 10),
            "src": st.integers(0, 3), "dst": st.integers(0, 3), "more": st.integers(0, 3),
            "asym": st.booleans(), "extra": st.integers(1, 4), "cancel": st.sampled_from([0, 0, 0, 0, 0, 1, 2]),
        })
        return st.fixed_dictionaries({"n": st.integers(3, 4), "L0": st.integers(1, 3),
                                      "faults": st.lists(fault, min_size=1, max_size=6), "safe": st.just(safe),
                                      "bidir": st.booleans(),
                                      # a recurring RandomPartition among a subset S of the hosts (>= 2), next to the windowed faults:
                                      # pairs with an endpoint outside S must be unaffected by it
                                      "rand": st.fixed_dictionaries({"on": st.sampled_from([False, False, False, True]), "mask": st.integers(0, 15),
                                                                     "mtbf": st.integers(1, 8), "mttr": st.integers(1, 6), "seed": st.integers(0, 5)})})
    return s


def net_faults(case):
    """Normalised fault list: dicts with ns windows and explicit node groups."""
    n = max(3, case["n"])
    out = []
    for f in case["faults"]:
        src, dst = f["src"] % n, f["dst"] % n
        if src == dst:
            dst = (dst + 1) % n
        a = f["a"] * TICK
        b = a + max(1, f["len"]) * TICK
        g = {"kind": f["kind"], "a": a, "b": b, "src": src, "dst": dst, "cancel": int(f["cancel"]),
             "extra": max(1, f["extra"]), "asym": bool(f["asym"])}
        if f["kind"] == "part":
            third = f["more"] % n
            ga = [src] + ([third] if third not in (src, dst) and f["more"] % 2 == 0 else [])
            gb = [dst] + ([third] if third not in (src, dst) and f["more"] % 2 == 1 else [])
            g["ga"], g["gb"] = ga, gb
        out.append(g)
    if case.get("safe"):
        kept = []
        for g in out:
            clash = False
            for h in kept:
                if h["kind"] == g["kind"] and g["a"] < h["b"] + TICK and h["a"] < g["b"] + TICK and pairs_of(g) & pairs_of(h):
                    clash = True
            if not clash:
                kept.append(g)
        out = kept
    return out


def rand_nodes(case):
    """Hosts subject to the RandomPartition fault (empty when it is off or would cover fewer than two hosts)."""
    rd = case.get("rand") or {}
    n = max(3, case["n"])
    S = [i for i in range(n) if rd.get("on") and (int(rd.get("mask", 0)) >> i) & 1]
    return S if len(S) >= 2 else []


def pairs_of(g):
    if g["kind"] != "part":
        return {(g["src"], g["dst"])}
    ps = {(x, y) for x in g["ga"] for y in g["gb"]}
    if not g["asym"]:
        ps |= {(y, x) for (x, y) in ps}
    return ps


def run_net(case):
    from happysimulator import Entity, Event, Instant, Network, Simulation
    from happysimulator.components.network.link import NetworkLink
    from happysimulator.distributions.constant import ConstantLatency
    from happysimulator.faults import FaultSchedule, InjectLatency, InjectPacketLoss, NetworkPartition, RandomPartition
    n = max(3, case["n"])
    L0 = max(1, case["L0"]) * TICK
    got = {}

    class Host(Entity):
        def handle_event(self, event):
            got[event.context["metadata"]["pid"]] = self.now.nanoseconds

    hosts = [Host(f"h{i}") for i in range(n)]
    net = Network(name="net")
    links = {}
    for i in range(n):
        for j in range(n):
            if i == j:
                continue
            if case.get("bidir"):
                # one declaration per unordered pair: the reverse direction is the library's own copy of the link
                if i < j:
                    net.add_bidirectional_link(hosts[i], hosts[j], NetworkLink(name=f"l{i}{j}", latency=ConstantLatency(L0 / 1e9)))
            else:
                net.add_link(hosts[i], hosts[j], NetworkLink(name=f"l{i}{j}", latency=ConstantLatency(L0 / 1e9), egress=hosts[j]))
    for i in range(n):
        for j in range(n):
            if i != j:
                links[(i, j)] = net.get_link(f"h{i}", f"h{j}")
    sched = FaultSchedule()
    late = []
    faults = net_faults(case)
    for g in faults:
        if g["kind"] == "part":
            h = sched.add(NetworkPartition([f"h{x}" for x in g["ga"]], [f"h{x}" for x in g["gb"]], start=g["a"] / 1e9, end=g["b"] / 1e9,
                                           asymmetric=g["asym"]))
        elif g["kind"] == "lat":
            h = sched.add(InjectLatency(f"h{g['src']}", f"h{g['dst']}", extra_ms=g["extra"] * TICK / 1e6, start=g["a"] / 1e9, end=g["b"] / 1e9))
        else:
            h = sched.add(InjectPacketLoss(f"h{g['src']}", f"h{g['dst']}", loss_rate=1.0, start=g["a"] / 1e9, end=g["b"] / 1e9))
        if g["cancel"] == 1:
            h.cancel()
        elif g["cancel"] == 2:
            late.append(h)
    S = rand_nodes(case)
    if S:
        rd = case["rand"]
        sched.add(RandomPartition([f"h{i}" for i in S], mtbf=max(1, rd["mtbf"]) / 512, mttr=max(1, rd["mttr"]) / 512, seed=int(rd["seed"])))
    sim = Simulation(entities=[net] + hosts, fault_schedule=sched)
    for h in late:
        h.cancel()
    horizon = max([g["b"] for g in faults] + [0]) // TICK + 3
    probes = []
    for k2 in range(0, 2 * horizon + 1):
        t = k2 * (TICK // 2)
        for i in range(n):
            for j in range(n):
                if i != j:
                    pid = len(probes)
                    probes.append((t, i, j))
                    ev = Event(time=Instant(t), event_type="probe", target=net)
                    ev.context["metadata"].update({"source": f"h{i}", "destination": f"h{j}", "pid": pid})
                    sim.schedule(ev)
    SimProbe(sim, log=False).run()
    final = {"partitioned": sorted((i, j) for (i, j) in links if net.is_partitioned(f"h{i}", f"h{j}") and not (i in S and j in S)),
             "loss": {f"{i}{j}": l.packet_loss_rate for (i, j), l in links.items() if l.packet_loss_rate != 0}}
    return probes, got, faults, L0, final


def execute_net(obl):
    def execute(case):
        r = Result()
        probes, got, faults, L0, final = run_net(case)
        flags = {"nt": False}
        wild = set(rand_nodes(case))        # a pair inside this set may also be cut by the random partition at any time

        def judge(treat_live):
            out = []
            live = [g for g in faults if g["cancel"] == 0 or g["cancel"] in treat_live]

            def touching(kind, pair):
                """two windows of this kind on this directed pair overlap or are adjacent (share an end/start instant)"""
                ws = [g for g in live if g["kind"] == kind and pair in pairs_of(g)]
                return any(x is not y and x["a"] <= y["b"] and y["a"] <= x["b"] for x in ws for y in ws)

            def cls_of(kinds, pair):
                return "overlapping-or-adjacent-windows" if any(touching(k, pair) for k in kinds) else "disjoint-windows"
            for pid, (t, i, j) in enumerate(probes):
                act = {k: [g for g in live if g["kind"] == k and (i, j) in pairs_of(g) and g["a"] <= t < g["b"]] for k in ("part", "loss", "lat")}
                drop_expected = bool(act["part"] or act["loss"])
                arrived = got.get(pid)
                for k, other in (("part", "loss"), ("loss", "part")):
                    if act[k] and not act[other] and arrived is not None:
                        out.append((f"{P}/{obl}/{k}/not-in-effect-inside-window/{cls_of([k], (i, j))}",
                                    f"probe h{i}->h{j} sent at {t} ns was delivered although inside {[(g['a'], g['b']) for g in act[k]]}"))
                if not drop_expected and arrived is None and not (i in wild and j in wild):
                    kinds = [k for k in ("part", "loss") if any(g["kind"] == k and (i, j) in pairs_of(g) for g in live)] or ["none"]
                    k = kinds[0] if len(kinds) == 1 else "part-or-loss"
                    out.append((f"{P}/{obl}/{k}/in-effect-outside-window/{cls_of(('part', 'loss'), (i, j))}",
                                f"probe h{i}->h{j} sent at {t} ns was dropped outside every drop window; windows on the pair: "
                                f"{[(g['kind'], g['a'], g['b'], g['cancel']) for g in faults if (i, j) in pairs_of(g)]}"))
                if arrived is not None and not drop_expected:
                    d = arrived - t
                    extras = [g["extra"] * TICK for g in act["lat"]]
                    lo, hi = (L0 + min(extras), L0 + sum(extras)) if extras else (L0, L0)
                    if not (lo - 3 <= d <= hi + 3):
                        where = "inside-window" if extras else "outside-window"
                        out.append((f"{P}/{obl}/lat/wrong-delay-{where}/{cls_of(['lat'], (i, j))}",
                                    f"probe h{i}->h{j} sent at {t} ns took {d} ns; expected [{lo}, {hi}] (L0={L0}, active extras {extras}); windows "
                                    f"{[(g['a'], g['b'], g['cancel']) for g in faults if g['kind'] == 'lat' and (i, j) in pairs_of(g)]}"))
            if final["partitioned"] or final["loss"]:
                c = "overlapping-or-adjacent-windows" if any(touching(k, p) for k in ("part", "loss") for g in live for p in pairs_of(g)) \
                    else "disjoint-windows"
                out.append((f"{P}/{obl}/final-state-not-restored/{c}", str(final)))
            if not treat_live:
                flags["nt"] = any(touching(k, p) for k in ("part", "loss", "lat") for g in live for p in pairs_of(g))
                flags["live"] = bool(live)
            return out
        modes = {g["cancel"] for g in faults if g["cancel"]}
        with_cancel_hypotheses(r, obl, modes, judge)
        r.nontrivial = flags.get("live", False) and (flags["nt"] or obl.endswith("safe"))
        r.labels += [l for l, c in (("overlap-or-adjacent", flags["nt"]), ("cancelled", bool(modes)),
                                    ("bidirectional-links", bool(case.get("bidir"))), ("random-partition-nearby", bool(wild)),
                                    ("kinds:" + "".join(sorted({g["kind"][0] for g in faults if not g["cancel"]})), True)) if c]
        return r
    return execute


# =============================================================================================== capacity
def cap_strategy(safe):
    def s(tier):
        win = st.fixed_dictionaries({"a": st.integers(1, 24), "len": st.integers(1, 10), "f": st.sampled_from([0.5, 0.25, 0.75]),
                                     "cancel": st.sampled_from([0, 0, 0, 0, 1, 2])})
        w = st.fixed_dictionaries({"t": st.integers(0, 36), "amt": st.sampled_from([1, 2, 2, 3, 3, 4, 4, 6, 8]), "hold": st.integers(1, 10),
                                   "half": st.booleans()})    # amounts above the capacity are clamped to it
        return st.fixed_dictionaries({"cap": st.sampled_from([4, 8]), "wins": st.lists(win, min_size=1, max_size=1 if safe else 3),
                                      "workers": st.lists(w, min_size=1, max_size=8), "safe": st.just(safe)})
    return s


def execute_cap(obl):
    def execute(case):
        from happysimulator import Entity, Event, Instant, Simulation
        from happysimulator.components.resource import Resource
        from happysimulator.faults import FaultSchedule, ReduceCapacity
        r = Result()
        C = 8 if case["cap"] == 8 else 4
        res = Resource("res", capacity=C)
        wins = []
        for w in case["wins"]:
            a = w["a"] * TICK
            b = a + max(1, w["len"]) * TICK
            if any(a < y + TICK and x < b + TICK for (x, y, _, _) in wins):
                continue                                    # overlapping capacity windows: magnitude unspecified, not generated
            wins.append((a, b, w["f"] if w["f"] in (0.25, 0.5, 0.75) else 0.5, int(w["cancel"])))
        held = {}           # worker -> amount currently held
        events = []         # (time, what, worker, info)

        class Worker(Entity):
            def __init__(self, i, spec):
                super().__init__(f"w{i}")
                self.i, self.spec = i, spec

            def handle_event(self, event):
                amt = max(1, min(C, int(self.spec["amt"])))
                try:
                    fut = res.acquire(amt)
                except ValueError as e:
                    events.append((self.now.nanoseconds, "acquire-rejected", self.i, str(e)))
                    return
                events.append((self.now.nanoseconds, "requested", self.i, amt))
                grant = yield fut
                held[self.i] = amt
                events.append((self.now.nanoseconds, "granted", self.i, amt))
                yield max(1, self.spec["hold"]) / 512
                try:
                    grant.release()
                    events.append((self.now.nanoseconds, "released", self.i, amt))
                except ValueError as e:
                    events.append((self.now.nanoseconds, "release-raised", self.i, str(e)))
                held.pop(self.i, None)

        workers = [Worker(i, s) for i, s in enumerate(case["workers"])]
        starts = [s["t"] * TICK + (TICK // 2 if s["half"] else 0) for s in case["workers"]]
        if case.get("safe"):
            # no grant outstanding at an activation instant: workers start only after the (single) window's start
            first = max([a for (a, b, f, c) in wins] + [0])
            starts = [t if t > first else first + TICK // 2 + t for t in starts]
        sched = FaultSchedule()
        late = []
        for (a, b, f, c) in wins:
            h = sched.add(ReduceCapacity("res", factor=f, start=a / 1e9, end=b / 1e9))
            if c == 1:
                h.cancel()
            elif c == 2:
                late.append(h)
        samples = []

        class Sampler(Entity):
            def handle_event(self, event):
                samples.append((self.now.nanoseconds, res.capacity, res.available, sum(held.values())))

        sampler = Sampler("sampler")
        sim = Simulation(entities=[res, sampler] + workers, fault_schedule=sched)
        for h in late:
            h.cancel()
        for wk, t in zip(workers, starts):
            sim.schedule(Event(time=Instant(t), event_type="go", target=wk))
        horizon = max([b for (a, b, f, c) in wins] + starts + [0]) // TICK + sum(max(1, w["hold"]) for w in case["workers"]) + 3
        for k in range(2 * horizon):
            sim.schedule(Event(time=Instant(k * (TICK // 2) + TICK // 4), event_type="sample", target=sampler, daemon=True))
        # a last sampler event that is not a daemon keeps the run alive until every window has ended
        sim.schedule(Event(time=Instant(horizon * TICK), event_type="sample", target=sampler))
        SimProbe(sim, log=False).run()
        flags = {}

        def judge(treat_live):
            out = []
            live = [(a, b, f) for (a, b, f, c) in wins if c == 0 or c in treat_live]
            holder_at_activation = False
            for (a, b, f) in live:
                # the activation event was created first, so it fires before same-instant grants and releases
                if any(t0 < a for (t0, what, i, _) in events if what == "granted"
                       and not any(t1 < a and j == i for (t1, w2, j, _) in events if w2 in ("released", "release-raised"))):
                    holder_at_activation = True
            cls = "holders-at-activation" if holder_at_activation else "no-holder-at-activation"
            for (t, cap, avail, h) in samples:
                act = [f for (a, b, f) in live if a <= t < b]
                want = C * act[0] if act else C
                if cap != want:
                    where = "inside-window" if act else ("after-window" if any(b <= t for (a, b, f) in live) else "before-window")
                    out.append((f"{P}/{obl}/capacity-value/{where}", f"capacity {cap} at {t} ns, expected {want}; windows {wins}"))
                    break
            for (t, cap, avail, h) in samples:
                if avail + h != cap and not [1 for (a, b, f) in live if a <= t < b]:
                    out.append((f"{P}/{obl}/conservation-outside-window/{cls}", f"at {t} ns: available {avail} + held {h} != capacity {cap}"))
                    break
            for (t, what, i, info) in events:
                if what == "release-raised":
                    out.append((f"{P}/{obl}/release-raised/{cls}", f"worker {i} at {t} ns: {info}"))
                    break
            # back to the configured state once every window has ended: nobody is left waiting for units that are free again
            granted = {i for (t, what, i, _) in events if what == "granted"}
            for (t, what, i, amt) in events:
                if what == "requested" and i not in granted and not any(b is None for (a, b, f) in live):
                    out.append((f"{P}/{obl}/waiter-never-granted/{cls}",
                                f"worker {i} asked for {amt} unit(s) at {t} ns and was never granted although every window ended "
                                f"(final capacity {res.capacity}, available {res.available}); windows {wins}"))
                    break
            last = samples[-1] if samples else None
            if last and last[3] == 0 and not held and (last[1] != C or last[2] != C):
                out.append((f"{P}/{obl}/final-state-not-restored/{cls}",
                            f"after all windows and releases: capacity {last[1]}, available {last[2]}, configured {C}"))
            if not treat_live:
                flags.update(cls=cls, live=bool(live), hol=holder_at_activation)
            return out
        modes = {c for (_, _, _, c) in wins if c}
        with_cancel_hypotheses(r, obl, modes, judge)
        r.nontrivial = flags.get("live", False) and (flags.get("hol", False) or obl.endswith("safe"))
        r.labels += [l for l, c in ((flags.get("cls", "-"), flags.get("live")), ("cancelled", bool(modes)), ("stuck-holder", bool(held))) if c]
        return r
    return execute


# =============================================================================================== queue-fronted targets
def queued_strategy(tier, safe=False):
    win = st.fixed_dictionaries({"a": st.integers(1, 30), "len": st.integers(1, 12), "kind": st.sampled_from(["crash", "pause"])})
    arr = st.fixed_dictionaries({"t": st.integers(0, 50), "half": st.booleans(), "srv": st.integers(0, 1)})
    return st.fixed_dictionaries({"conc": st.integers(1, 2), "svc": st.integers(1, 6), "wins": st.lists(win, min_size=1, max_size=2),
                                  "arrivals": st.lists(arr, min_size=1, max_size=14), "safe": st.just(safe)})


def execute_queued(case):
    """A Server (queue + driver + worker behind one entity) is the crash/pause target; a second, identical Server is the bystander."""
    from happysimulator import Entity, Event, Instant, Simulation
    from happysimulator.components.server.server import Server
    from happysimulator.distributions.constant import ConstantLatency
    from happysimulator.faults import CrashNode, FaultSchedule, PauseNode
    r = Result()
    svc = max(1, case["svc"])
    wins = []
    for w in case["wins"]:
        a = w["a"] * TICK
        b = a + max(1, w["len"]) * TICK
        if not any(a < y + TICK and x < b + TICK for (x, y, _) in wins):
            wins.append((a, b, w["kind"]))

    arrivals = []
    first_start = min([a for (a, b, _) in wins] + [10**15])
    last_end_ = max([b for (a, b, _) in wins] + [0])
    for ar in case["arrivals"]:
        t = ar["t"] * TICK + (TICK // 2 if ar["half"] else 0)
        if case.get("safe") and ar["srv"] % 2 == 0 and t < last_end_ and t + (len(case["arrivals"]) + 1) * svc * TICK >= first_start:
            t = last_end_ + t          # restricted domain: the target is idle whenever a window opens and nothing arrives inside one
        arrivals.append((t, ar["srv"] % 2))
    obl = "queued-safe" if case.get("safe") else "queued"

    def run(with_faults):
        got = {0: [], 1: []}

        class Sink(Entity):
            def __init__(self, i):
                super().__init__(f"sink{i}")
                self.i = i

            def handle_event(self, event):
                got[self.i].append((self.now.nanoseconds, event.context.get("metadata", {}).get("rid")))

        sinks = [Sink(0), Sink(1)]
        servers = [Server(f"srv{i}", concurrency=max(1, case["conc"]), service_time=ConstantLatency(svc / 512), downstream=sinks[i])
                   for i in range(2)]
        sched = FaultSchedule()
        if with_faults:
            for (a, b, kind) in wins:
                sched.add(PauseNode("srv0", start=a / 1e9, end=b / 1e9) if kind == "pause" else CrashNode("srv0", at=a / 1e9, restart_at=b / 1e9))
        sim = Simulation(entities=servers + sinks, fault_schedule=sched)
        completed = []
        for rid, (t, srv) in enumerate(arrivals):
            ev = Event(time=Instant(t), event_type="req", target=servers[srv])
            ev.context["metadata"]["rid"] = rid
            sim.schedule(ev)
        probe = SimProbe(sim, log=False, on_event=lambda e: completed.append((e.time.nanoseconds, servers[0].stats.requests_completed)))
        probe.run()
        return got, completed, probe
    got, completed, probe = run(True)
    base, _, _ = run(False)
    if probe.spin_at is not None:
        r.add(f"{P}/{obl}/spin", f"at {probe.spin_at} ns")
        return r

    def inside(t):
        return any(a <= t < b for (a, b, _) in wins)
    for (t, rid) in got[0]:
        if inside(t):
            r.add(f"{P}/{obl}/silence/emitted-downstream-during-outage", f"request {rid} left srv0 at {t} ns inside {wins}")
            break
    prev = 0
    for (t, n) in completed:
        if n > prev and inside(t):
            r.add(f"{P}/{obl}/silence/completed-work-during-outage", f"srv0.requests_completed rose to {n} at {t} ns inside {wins}")
            break
        prev = n
    served = {rid for (_, rid) in got[0]}
    last_end = max(b for (a, b, _) in wins) if wins else 0
    for rid, (t, srv) in enumerate(arrivals):
        if srv == 0 and t >= last_end and rid not in served:
            r.add(f"{P}/{obl}/liveness/never-served-after-restart", f"request {rid} arrived at {t} ns, after the last restart at {last_end} ns, and never left srv0")
            break
    if got[1] != base[1]:
        r.add(f"{P}/{obl}/isolation/bystander-changed", f"srv1: {got[1][:4]} vs fault-free {base[1][:4]}")
    busy = any(srv == 0 and any(t <= a < t + 3 * svc * TICK for (a, b, _) in wins) for (t, srv) in arrivals)
    r.nontrivial = bool(wins) and (busy or bool(case.get("safe")))
    r.labels += [l for l, c in (("work-near-crash", busy), ("pause", any(k == "pause" for (_, _, k) in wins))) if c]
    return r


NODE_RULE = ("2-4 scripted nodes, 0-5 crash / pause / permanent-crash windows (tick grid, non-overlapping per entity, some handles "
             "cancelled before the run), 1-18 pokes on and between ticks, each an immediate handler or a generator of up to 4 delays "
             "(so processes are in flight at crash instants); non-trivial = an active window exists and a process is in flight at a crash instant")
NET_RULE = ("3-4 hosts, full mesh of constant-latency links (declared per direction, or per pair through add_bidirectional_link), 1-6 partition (groups, symmetric/asymmetric) / latency / loss(1.0) windows on "
            "the tick grid, overlapping, nested or adjacent, some cancelled; one probe per directed pair every half tick up to 3 ticks "
            "after the last window; non-trivial = two windows of one kind overlap on one directed pair")
CAP_RULE = ("Resource of capacity 4 or 8, 1-3 non-overlapping ReduceCapacity windows (factor .25/.5/.75), up to 8 workers acquiring 1-4 "
            "units for 1-10 ticks on and between ticks; capacity, available and held sampled every half tick; non-trivial = a grant is "
            "outstanding at an activation instant")

OBLIGATIONS = [
    Obligation("node", node_strategy(False), execute_node("node"), {"quick": 1500, "thorough": 60000}, NODE_RULE),
    Obligation("node-safe", node_strategy(True), execute_node("node-safe"), {"quick": 500, "thorough": 20000},
               "same without generator handlers (nothing is ever in flight); non-trivial = an active window exists"),
    Obligation("net", net_strategy(False), execute_net("net"), {"quick": 900, "thorough": 40000}, NET_RULE),
    Obligation("net-safe", net_strategy(True), execute_net("net-safe"), {"quick": 500, "thorough": 20000},
               "same with windows of one kind never overlapping (or touching) on a shared directed pair; non-trivial = an active window exists"),
    Obligation("queued", queued_strategy, execute_queued, {"quick": 700, "thorough": 30000},
               "a Server (queue + driver + worker adapter behind one entity; concurrency 1-2, constant service time 1-6 ticks, downstream sink) "
               "under 1-2 crash/pause windows with up to 14 requests on and between ticks, next to an identical bystander Server; oracle: nothing "
               "leaves the target and its completion counter does not move inside a window, every request that arrives after the last restart is "
               "served, the bystander equals the fault-free run; non-trivial = a request is queued or in service when a window opens"),
    Obligation("queued-safe", lambda tier: queued_strategy(tier, True), execute_queued, {"quick": 300, "thorough": 10000},
               "same, but requests to the target are moved behind the last restart unless they are certainly finished before the first window "
               "opens (the target is idle during every window): resumption after restart, no loss, bystander isolation; non-trivial = a window exists"),
    Obligation("capacity", cap_strategy(False), execute_cap("capacity"), {"quick": 900, "thorough": 40000}, CAP_RULE),
    Obligation("capacity-safe", cap_strategy(True), execute_cap("capacity-safe"), {"quick": 400, "thorough": 15000},
               "one window, every worker starts after its activation (no grant outstanding at the activation instant); non-trivial = an active window exists"),
]
