"""C16 — caches stay within capacity, never lose writes, respect staleness bounds.

Obligations (all drive the real generator API from worker processes inside a real Simulation, see
vfw/dsl/cachework.py; operations of different workers overlap in simulated time):

* ``cached``        CachedStore x 9 eviction policies x {write-through, write-back}: get/put/delete/invalidate/
                    invalidate_all/flush from 1..3 workers on 2..5 keys with capacity 1..3.  After every operation and
                    every engine event: size <= capacity, policy-tracked keys == held keys, dirty subset of cached.
                    Reads: interval oracle (DESIGN 3.4) against the writes issued through the cache.  A closing worker
                    flushes and reads every key; the backing store must then hold an acceptable final value.
* ``cached-safe``   the same executor on the domain in which none of the open findings can occur: workers use
                    disjoint key sets (no same-key overlap), write-back only without capacity pressure, without
                    invalidation of dirty keys and without mid-run flushes by concurrent workers.  No exclusions.
* ``multitier``     MultiTierCache over 2..3 CachedStore tiers x 3 promotion policies (+ direct reads through a lower
                    tier, which is how lower tiers get populated); per-tier invariants + interval oracle.
* ``multitier-safe`` disjoint key sets per worker.  No exclusions.
* ``softttl``       SoftTTLCache with soft/hard TTL on the tick grid, reads before/at/after both, writes through the
                    cache and directly on the backing store; a returned value must have been the backing store's value
                    at some instant of [max(start - hard_ttl, completion of the last own put), end]; capacity and LRU
                    bookkeeping.
* ``pagecache``     PageCache with overlapping read_page/write_page/flush: pages_cached <= capacity at every event,
                    every dirty page that leaves the cache (or turns clean) is accounted as a write-back.
* ``writepolicy``   WriteBack/WriteThrough/WriteAround bookkeeping objects against a set model.
"""
from __future__ import annotations

import copy
import os

from hypothesis import strategies as st

from ..dsl.cachework import NEG_INF, POS_INF, Seq, Write, acceptable_values, build_harness, seq_overlap
from ..harness import TICK, SimProbe
from ..runner import Obligation, Result

P = "C16"
ASSUMPTIONS = [
    "values are unique non-None strings (None means 'absent' in every store API); keys are strings",
    "all latencies and offsets are multiples of 1/512 s (exact in float seconds and integer ns); backing read/write "
    "latency 1..6 ticks, cache latency 0..1 tick",
    "CachedStore/MultiTierCache: the backing store is written only through the cache (the statement's read-after-write "
    "clause is about writes issued through the cache layer); SoftTTLCache additionally sees direct backing-store writes",
    "a read is judged with the interval rule: it may return any write overlapping it, or a completed write that no other "
    "write definitely follows before the read began; ties on timestamps are resolved in the permissive direction",
    "write-through CachedStore: put/delete update the cache at their start and the backing store at their completion, and "
    "KVStore has one write/delete latency, so start order = completion order = store order; there a completed write is also "
    "superseded by any write that completed strictly later before the read began (overlapping writes are ordered by completion)",
    "TTL eviction policy gets the simulation clock as clock_func; RandomEviction/SampledLRUEviction get a case seed",
    "policy-tracked keys are observed by draining a deepcopy of the policy object through evict()",
    "MultiTierCache tiers are write-through CachedStores sharing the backing store (as in the module docstring)",
    "soft-TTL staleness is judged against the recorded value history of the backing store, inclusive at both window ends",
    "PageCache has no data path; 'dirty data reaches the backing store' is judged through its dirty_writebacks counter "
    "(private page table read for the per-page dirty flags)",
]

POLICIES = ["LRU", "LFU", "TTL", "FIFO", "Random", "SLRU", "SampledLRU", "Clock", "TwoQ"]
OPS = ["get", "get", "get", "put", "put", "put", "del", "inv", "invall", "flush", "flush"]


def _clamp(x, lo, hi):
    try:
        x = int(x)
    except Exception:  # noqa: BLE001
        x = lo
    return max(lo, min(hi, x))


def make_policy(name, seed, ttl_ticks, clock):
    from happysimulator.components.datastore import eviction_policies as ep
    if name == "LRU":
        return ep.LRUEviction()
    if name == "LFU":
        return ep.LFUEviction()
    if name == "TTL":
        return ep.TTLEviction(ttl=ttl_ticks / 512, clock_func=clock)
    if name == "FIFO":
        return ep.FIFOEviction()
    if name == "Random":
        return ep.RandomEviction(seed=seed)
    if name == "SLRU":
        return ep.SLRUEviction(protected_ratio=[0.8, 0.5, 0.2][seed % 3])
    if name == "SampledLRU":
        return ep.SampledLRUEviction(sample_size=1 + seed % 3, seed=seed)
    if name == "Clock":
        return ep.ClockEviction()
    return ep.TwoQueueEviction(kin_ratio=[0.25, 0.5][seed % 2])


def drain(policy):
    c = copy.deepcopy(policy)
    c.__dict__.pop("evict", None)        # the harness-side evict monitor lives on the original instance only
    out = []
    for _ in range(200):
        k = c.evict()
        if k is None:
            break
        out.append(k)
    return out


class _Abort(Exception):
    """raised by harness-side monitors to stop a run whose verdict is already recorded (avoids unbounded loops)"""


def _ov(a, b):
    """closed-interval overlap of two ops (unfinished = open ended)"""
    ae = a.end if a.end is not None else POS_INF
    be = b.end if b.end is not None else POS_INF
    return a.start <= be and b.start <= ae


# =============================================================================== strategies
def workers_strategy(tier, ops, max_workers=3, max_ops=8, extra=None, gaps=(0, 0, 0, 1, 1, 2, 3, 5)):
    big = tier == "thorough"
    op = st.tuples(st.sampled_from(ops), st.integers(0, 4), st.sampled_from(list(gaps)),
                   extra if extra is not None else st.just(0)).map(list)
    worker = st.fixed_dictionaries({"start": st.integers(0, 8),
                                    "ops": st.lists(op, min_size=1, max_size=(14 if big else max_ops))})
    return st.lists(worker, min_size=1, max_size=max_workers)


def hot_cached_strategy(tier):
    """Hot-key shape: capacity 1-2 over 2-3 keys, 2-4 workers hammering key 0 with puts whose start offsets are smaller than
    the backing write latency (several writes to one key in flight at once), interleaved with puts to other keys
    (evictions), invalidations and gets of the hot key at every tick around the write completions; backing read latency
    drawn independently and smaller than the write latency."""
    big = tier == "thorough"
    op = st.tuples(st.sampled_from(["put", "put", "put", "get", "get", "get", "get", "inv", "del", "flush"]),
                   st.sampled_from([0, 0, 0, 0, 0, 1, 1, 2]), st.sampled_from([0, 0, 0, 1, 1, 2, 3]), st.just(0)).map(list)
    worker = st.fixed_dictionaries({"start": st.integers(0, 7), "ops": st.lists(op, min_size=1, max_size=10 if big else 6)})
    return st.fixed_dictionaries({
        "policy": st.integers(0, 8),
        "wt": st.sampled_from([True, True, True, True, False]),
        "cap": st.sampled_from([1, 1, 1, 2]),
        "nkeys": st.sampled_from([2, 2, 3]),
        "rl": st.integers(1, 3), "wl": st.integers(3, 8), "cl": st.integers(0, 1),
        "ttl": st.sampled_from([2, 8, 40]),
        "seed": st.integers(0, 50),
        "pre": st.lists(st.integers(0, 2), max_size=2),
        "warm": st.one_of(st.none(), st.fixed_dictionaries({"start": st.integers(0, 6), "gap": st.integers(0, 2),
                                                     "keys": st.lists(st.sampled_from([0, 0, 0, 1]), min_size=2, max_size=8)})),
        "workers": st.lists(worker, min_size=2, max_size=4),
    })


def cached_strategy(tier):
    return st.one_of(general_cached_strategy(tier), hot_cached_strategy(tier))


def general_cached_strategy(tier):
    return st.fixed_dictionaries({
        "policy": st.integers(0, 8),
        "wt": st.booleans(),
        "cap": st.sampled_from([1, 1, 2, 2, 3]),
        "nkeys": st.sampled_from([2, 2, 3, 3, 4, 5]),
        "rl": st.integers(1, 6), "wl": st.integers(1, 6), "cl": st.integers(0, 1),
        "ttl": st.sampled_from([2, 8, 40]),
        "seed": st.integers(0, 50),
        "pre": st.lists(st.integers(0, 4), max_size=3),
        "warm": st.one_of(st.none(), st.none(), st.fixed_dictionaries({"start": st.integers(0, 8), "gap": st.integers(0, 2),
                                                                  "keys": st.lists(st.integers(0, 4), min_size=1, max_size=6)})),
        "workers": workers_strategy(tier, OPS),
    })


def norm_workers(case, nkeys, disjoint=False, allowed=None, max_workers=3):
    ws = []
    raw = [w for w in (case.get("workers") or []) if isinstance(w, dict)][:max_workers]
    nw = max(1, len(raw))
    if disjoint:
        nw = min(nw, nkeys)
        raw = raw[:nw]
    for wi, w in enumerate(raw):
        ops = []
        for o in (w.get("ops") or [])[:20]:
            o = (list(o) + [0, 0, 0, 0])[:4] if isinstance(o, list) else ["get", 0, 0, 0]
            name = o[0] if isinstance(o[0], str) and (allowed is None or o[0] in allowed) else "get"
            k = _clamp(o[1], 0, 99)
            if disjoint:
                mine = [x for x in range(nkeys) if x % nw == wi]
                k = mine[k % len(mine)]
            else:
                k = k % nkeys
            ops.append([name, k, _clamp(o[2], 0, 8), _clamp(o[3], 0, 8)])
        ws.append({"start": _clamp(w.get("start", 0), 0, 16), "ops": ops})
    if not ws:
        ws = [{"start": 0, "ops": [["get", 0, 0, 0]]}]
    return ws


# =============================================================================== CachedStore
def run_cached(case, obl, safe=False):
    from happysimulator import Instant, Simulation
    from happysimulator.components.datastore.cached_store import CachedStore
    from happysimulator.components.datastore.kv_store import KVStore

    r = Result()
    pol_name = POLICIES[_clamp(case.get("policy", 0), 0, 10 ** 6) % 9]
    wt = bool(case.get("wt", True))
    nkeys = _clamp(case.get("nkeys", 2), 2, 5)
    cap = _clamp(case.get("cap", 1), 1, 3)
    rl, wl, cl = _clamp(case.get("rl", 2), 1, 6), _clamp(case.get("wl", 2), 1, 8), _clamp(case.get("cl", 0), 0, 1)
    seed = _clamp(case.get("seed", 0), 0, 10 ** 6)
    keys = [f"k{i}" for i in range(nkeys)]
    workers = norm_workers(case, nkeys, disjoint=safe, allowed=set(OPS), max_workers=4)
    if safe and not wt:
        cap = max(cap, nkeys)
    multi = len(workers) > 1

    kv = KVStore("kv", read_latency=rl / 512, write_latency=wl / 512)
    holder = {}
    policy = make_policy(pol_name, seed, _clamp(case.get("ttl", 8), 1, 100), lambda: holder["cs"].now.to_seconds())
    cs = CachedStore("cs", kv, cache_capacity=cap, eviction_policy=policy, cache_read_latency=cl / 512, write_through=wt)
    holder["cs"] = cs
    initial = {}
    for k in case.get("pre") or []:
        key = keys[_clamp(k, 0, 99) % nkeys]
        initial[key] = f"init.{key}"
        kv.put_sync(key, initial[key])

    # ---- closing worker: flush, then read every key -------------------------------------------
    per_op = max(rl, wl, cl, nkeys * wl) + 8
    t_close = max(w["start"] + len(w["ops"]) * per_op for w in workers) + 4
    # optional CacheWarmer running concurrently with the workers (not in the restricted twin: it reads every key)
    warm = case.get("warm") if not safe else None
    warmer = None
    if isinstance(warm, dict):
        wkeys = [keys[_clamp(x, 0, 99) % nkeys] for x in (warm.get("keys") or [])][:8]
        wgap = [1, 2, 4][_clamp(warm.get("gap", 0), 0, 99) % 3]
        wstart = _clamp(warm.get("start", 0), 0, 16)
        if wkeys:
            from happysimulator.components.datastore.cache_warming import CacheWarmer
            warmer = CacheWarmer("warmer", cache=cs, keys_to_warm=list(wkeys), warmup_rate=512 / wgap)
            t_close = max(t_close, wstart + len(wkeys) * (max(rl, cl) + wgap + 2) + 8)
    closer = len(workers)
    plan = [{"start": w["start"], "ops": [(o[0], keys[o[1]], None, o[2]) for o in w["ops"]]} for w in workers]
    plan.append({"start": t_close, "ops": [("flush", None, None, 0)] + [("get", k, None, 0) for k in keys]})

    seen = set()
    dirty_evicted, dirty_invalidated = [], []
    stats = {"evictions": 0, "skipped": 0}

    def add(sig, detail):
        if sig not in seen:
            seen.add(sig)
            r.add(sig, detail)

    seq = Seq()
    backing_writes = []          # every put issued to the backing store: [key, value, seq at start, seq at end]

    orig_bput = kv.put

    def bput(key, value):
        rec = [key, value, seq(), None]
        backing_writes.append(rec)
        yield from orig_bput(key, value)
        rec[3] = seq()
    kv.put = bput

    orig_evict = policy.evict

    def evict():
        k = orig_evict()
        if k is not None:
            stats["evictions"] += 1
            if k not in cs.get_cached_keys():
                # the policy hands out a key the cache does not hold: the eviction loop of _cache_put would never end
                add(f"{P}/{obl}/policy-keys-diverge/{pol_name}", f"evict() returned {k!r}, cache holds {sorted(cs.get_cached_keys())}")
                stats["abort"] = stats.get("abort", 0) + 1
                if stats["abort"] > 50:
                    raise _Abort()
            if k in cs.get_dirty_keys():
                dirty_evicted.append((cs.now.nanoseconds, k))
        return k
    policy.evict = evict

    def check_inv(where):
        held = cs.get_cached_keys()
        if cs.cache_size > cap or len(held) > cap:
            add(f"{P}/{obl}/over-capacity/{pol_name}", f"{where}: cache_size {cs.cache_size} > capacity {cap}: {held}")
        tracked = drain(policy)
        if sorted(set(tracked)) != sorted(held) or len(tracked) != len(set(tracked)):
            add(f"{P}/{obl}/policy-keys-diverge/{pol_name}", f"{where}: policy tracks {tracked}, cache holds {sorted(held)}")
        if not set(cs.get_dirty_keys()) <= set(held):
            add(f"{P}/{obl}/dirty-not-cached", f"{where}: dirty {cs.get_dirty_keys()} cached {held}")

    def drive_get(rec):
        """drive cs.get(); the public miss counter read right after the synchronous first step tells hit from miss"""
        gen = cs.get(rec.key)
        before = cs.stats.misses
        try:
            y = next(gen)
        except StopIteration as e:
            return e.value
        if cs.stats.misses > before:
            rec.exc = "miss"
        while True:
            sent = yield y
            try:
                y = gen.send(sent)
            except StopIteration as e:
                return e.value

    def run_op(rec):
        op, k = rec.op, rec.key
        if op == "get":
            return drive_get(rec)
        if op == "put":
            rec.val = f"{rec.w}.{rec.i}"
            return cs.put(k, rec.val)
        if op == "del":
            return cs.delete(k)
        if op == "inv":
            if not wt and k in cs.get_dirty_keys():
                if safe:
                    rec.extra = "skipped"; stats["skipped"] += 1
                    return None
                dirty_invalidated.append((cs.now.nanoseconds, k))
            cs.invalidate(k)
            return None
        if op == "invall":
            if not wt and cs.get_dirty_keys():
                if safe:
                    rec.extra = "skipped"; stats["skipped"] += 1
                    return None
                for d in cs.get_dirty_keys():
                    dirty_invalidated.append((cs.now.nanoseconds, d))
            cs.invalidate_all()
            return None
        if op == "flush":
            if safe and multi and rec.w != closer:
                rec.extra = "skipped"; stats["skipped"] += 1
                return None
            return cs.flush()
        return None

    harness, log, start_events = build_harness("h", plan, run_op, after_op=lambda rec: check_inv(f"after {rec!r}"), seq=seq)
    sim = Simulation(entities=[kv, cs, harness] + ([warmer] if warmer is not None else []),
                     end_time=Instant((t_close + (nkeys + 2) * per_op + 50) * TICK))
    for e in start_events():
        sim.schedule(e)
    if warmer is not None:
        from happysimulator import Event
        warmer.start_warming()
        sim.schedule(Event(time=Instant(wstart * TICK), event_type="cache_warm", target=warmer, context={"action": "warm_next"}))
    probe = SimProbe(sim, max_per_instant=5000, max_events=50000, log=False,
                     on_event=lambda ev: check_inv(f"t={ev.time.nanoseconds / TICK:g} after an engine event"))
    try:
        outcome = probe.run()
    except _Abort:
        outcome = "aborted"
    if outcome == "spin":
        add(f"{P}/{obl}/spin", f"more than 5000 events at one instant t={probe.spin_at}")
    if outcome != "done":
        r.labels.append("inconclusive-" + outcome)
        return r

    if os.environ.get("VFW_DEBUG"):
        print(pol_name, "wt" if wt else "wb", "cap", cap, "rl/wl/cl", rl, wl, cl, "\n " + "\n ".join(map(repr, log)),
              "\n dirty-evicted", dirty_evicted, "dirty-invalidated", dirty_invalidated)
    # ---- judge reads ---------------------------------------------------------------------------
    writes = {k: [Write(k, initial.get(k), NEG_INF, NEG_INF, None)] for k in keys}
    for o in log:
        if o.extra == "skipped":
            continue
        if o.op == "put":
            writes[o.key].append(Write(o.key, o.val, o.start, o.end if o.end is not None else POS_INF, o))
        elif o.op == "del":
            writes[o.key].append(Write(o.key, None, o.start, o.end if o.end is not None else POS_INF, o))
    flushes = [o for o in log if o.op == "flush" and o.extra != "skipped"]
    gets = [o for o in log if o.op == "get"]

    def classify(k, upto, g=None):
        """root-cause class of a lost/stale value of key k; a function of the recorded history (exact event order)"""
        if not wt:
            if any(t <= upto and key == k for t, key in dirty_evicted):
                return "dirty-evicted"
            if any(t <= upto and key == k for t, key in dirty_invalidated):
                return "dirty-invalidated"
            # write-back delete drops the unflushed entry first and deletes from the backing store later: a read in
            # between sees the backing store's pre-write value
            if g is not None and any(w.src is not None and w.src.op == "del" and seq_overlap(g.ss, g.se, w.src.ss, w.src.se)
                                     for w in writes[k]):
                return "read-during-delete"
            # a put reached the cache while a write-back of the same key was in flight
            if any(w.src is not None and w.src.op == "put" and b[0] == k and b[2] < w.src.ss and (b[3] is None or w.src.ss < b[3])
                   for w in writes[k] for b in backing_writes):
                return "flush-races-put"
        if any(x.key == k and x.start <= upto and seq_overlap(x.ss, x.se, w.src.ss, w.src.se)
               for x in gets for w in writes[k] if w.src is not None):
            return "fill-races-write"
        return "other"

    mode = "wt" if wt else "wb"
    fill_overlap = any(seq_overlap(g.ss, g.se, w.src.ss, w.src.se) for g in gets for w in writes[g.key] if w.src is not None)
    for g in gets:
        if not g.done():
            continue
        ok = acceptable_values(writes[g.key], g.start, g.end, by_completion=wt)
        if not any(w.val == g.res for w in ok):
            known = any(w.val == g.res for w in writes[g.key])
            clause = "stale-read" if known else "read-of-unwritten-value"
            add(f"{P}/{obl}/{classify(g.key, g.end, g)}/{clause}/{mode}",
                f"{g!r} but acceptable values are {[w.val for w in ok]} ({pol_name}, cap {cap}); "
                f"ops on the key: {[o for o in log if o.key == g.key][:8]}")
    # ---- final backing-store value after the closing flush -----------------------------------
    fl = next((o for o in log if o.w == closer and o.op == "flush"), None)
    if fl is not None and fl.done():
        for k in keys:
            ok = acceptable_values(writes[k], fl.end, fl.end, by_completion=wt)
            have = kv.get_sync(k)
            if not any(w.val == have for w in ok):
                add(f"{P}/{obl}/{classify(k, POS_INF)}/final-backing-value/{mode}",
                    f"after the closing flush the backing store holds {k}={have!r}, acceptable {[w.val for w in ok]} "
                    f"({pol_name}, cap {cap}); ops on the key: {[o for o in log if o.key == k][:8]}")
        if cs.get_dirty_keys():
            add(f"{P}/{obl}/dirty-after-flush", f"dirty keys {cs.get_dirty_keys()} remain after a quiescent flush")
    unfinished = [o for o in log if not o.done()]
    if unfinished:
        add(f"{P}/{obl}/operation-never-completed", f"{unfinished[:3]}")

    overlap = any(a.w != b.w and _ov(a, b) for i, a in enumerate(log) for b in log[i + 1:] if a.w != closer and b.w != closer)
    if safe:
        r.nontrivial = stats["evictions"] >= 1 and (overlap or not multi)
    else:
        r.nontrivial = bool(dirty_evicted) or fill_overlap
    put_in_writeback = sum(1 for k in keys for w in writes[k] for b in backing_writes
                           if w.src is not None and w.src.op == "put" and not wt and b[0] == k and b[2] < w.src.ss
                           and (b[3] is None or w.src.ss < b[3]))
    # gets that missed while >= 2 writes (put/delete through the cache) to the same key were in flight
    miss_2w = sum(1 for g in gets if g.exc == "miss" and
                  sum(1 for w in writes[g.key] if w.src is not None and w.src.ss < g.ss and (w.src.se is None or g.ss < w.src.se)) >= 2)
    miss_1w = sum(1 for g in gets if g.exc == "miss" and
                  any(w.src is not None and w.src.ss < g.ss and (w.src.se is None or g.ss < w.src.se) for w in writes[g.key]))
    r.target = float(3 * min(put_in_writeback, 3) + 2 * min(len(dirty_evicted), 3) + (2 if fill_overlap else 0) + (1 if overlap else 0)
                     + 5 * min(miss_2w, 3) + 2 * min(miss_1w, 3))
    if miss_2w:
        r.nontrivial = True
    r.labels.append("warmer" if warmer is not None else "no-warmer")
    r.labels += [pol_name, mode, "evict" if stats["evictions"] else "no-evict",
                 "miss-during-2-writes" if miss_2w else ("miss-during-1-write" if miss_1w else "no-miss-during-write"),
                 "put-during-writeback" if put_in_writeback else "no-put-during-writeback",
                 "dirty-evict" if dirty_evicted else "no-dirty-evict", "fill-overlap" if fill_overlap else "no-fill-overlap",
                 "overlap" if overlap else "sequential"]
    r.observed = {"ops": len(log), "events": probe.n}
    return r


def ex_cached(case):
    return run_cached(case, "cached")


def ex_cached_safe(case):
    return run_cached(case, "cached-safe", safe=True)


# =============================================================================== MultiTierCache
MT_OPS = ["get", "get", "get", "put", "put", "del", "inv", "invall", "tget", "tget", "tget"]


def multitier_strategy(tier):
    return st.fixed_dictionaries({
        "tiers": st.lists(st.tuples(st.integers(0, 8), st.integers(1, 3), st.integers(0, 2)).map(list), min_size=2, max_size=3),
        "promo": st.integers(0, 2),
        "nkeys": st.integers(2, 5),
        "rl": st.integers(1, 6), "wl": st.integers(1, 6),
        "seed": st.integers(0, 50),
        "pre": st.lists(st.integers(0, 4), min_size=1, max_size=4),
        "workers": workers_strategy(tier, MT_OPS, extra=st.integers(0, 2)),
    })


def run_multitier(case, obl, safe=False):
    from happysimulator import Instant, Simulation
    from happysimulator.components.datastore.cached_store import CachedStore
    from happysimulator.components.datastore.kv_store import KVStore
    from happysimulator.components.datastore.multi_tier_cache import MultiTierCache

    r = Result()
    nkeys = _clamp(case.get("nkeys", 2), 2, 5)
    rl, wl = _clamp(case.get("rl", 2), 1, 6), _clamp(case.get("wl", 2), 1, 6)
    seed = _clamp(case.get("seed", 0), 0, 10 ** 6)
    keys = [f"k{i}" for i in range(nkeys)]
    tiers_cfg = [(list(t) + [0, 1, 0])[:3] for t in (case.get("tiers") or []) if isinstance(t, list)][:3]
    while len(tiers_cfg) < 2:
        tiers_cfg.append([0, 1, 0])
    promo = ["always", "on_second_access", "never"][_clamp(case.get("promo", 0), 0, 99) % 3]
    workers = norm_workers(case, nkeys, disjoint=safe, allowed=set(MT_OPS))

    kv = KVStore("kv", read_latency=rl / 512, write_latency=wl / 512)
    tiers, pols, caps = [], [], []
    for ti, (p, c, l) in enumerate(tiers_cfg):
        name = POLICIES[_clamp(p, 0, 10 ** 6) % 9]
        holder = {}
        pol = make_policy(name, seed + ti, 8, (lambda h=holder: h["t"].now.to_seconds()))
        t = CachedStore(f"L{ti + 1}", kv, cache_capacity=_clamp(c, 1, 3), eviction_policy=pol,
                        cache_read_latency=_clamp(l, 0, 2) / 512, write_through=True)
        holder["t"] = t
        tiers.append(t); pols.append((name, pol)); caps.append(_clamp(c, 1, 3))
    mt = MultiTierCache("mt", tiers=tiers, backing_store=kv, promotion_policy=promo)
    initial = {}
    for k in case.get("pre") or []:
        key = keys[_clamp(k, 0, 99) % nkeys]
        initial[key] = f"init.{key}"
        kv.put_sync(key, initial[key])

    per_op = max(rl, 2 * wl, 2) + 8 + 2
    t_close = max(w["start"] + len(w["ops"]) * per_op for w in workers) + 4
    closer = len(workers)
    plan = [{"start": w["start"], "ops": [(o[0], keys[o[1]], o[3], o[2]) for o in w["ops"]]} for w in workers]
    plan.append({"start": t_close, "ops": [("get", k, None, 0) for k in keys]})
    seen = set()

    def add(sig, detail):
        if sig not in seen:
            seen.add(sig)
            r.add(sig, detail)

    aborts = [0]

    def monitor(ti, t, name, pol):
        orig = pol.evict

        def evict():
            k = orig()
            if k is not None and k not in t.get_cached_keys():
                add(f"{P}/{obl}/policy-keys-diverge/{name}", f"tier L{ti + 1}: evict() returned {k!r}, tier holds {sorted(t.get_cached_keys())}")
                aborts[0] += 1
                if aborts[0] > 50:
                    raise _Abort()
            return k
        pol.evict = evict

    for ti, t in enumerate(tiers):
        monitor(ti, t, pols[ti][0], pols[ti][1])

    def check_inv(where):
        for ti, t in enumerate(tiers):
            held = t.get_cached_keys()
            name, pol = pols[ti]
            if t.cache_size > caps[ti]:
                add(f"{P}/{obl}/over-capacity/{name}", f"{where}: tier L{ti + 1} size {t.cache_size} > {caps[ti]}")
            tracked = drain(pol)
            if sorted(set(tracked)) != sorted(held) or len(tracked) != len(set(tracked)):
                add(f"{P}/{obl}/policy-keys-diverge/{name}", f"{where}: tier L{ti + 1} policy tracks {tracked}, holds {sorted(held)}")

    def run_op(rec):
        op, k = rec.op, rec.key
        if op == "get":
            return mt.get(k)
        if op == "tget":
            return tiers[(rec.val or 0) % len(tiers)].get(k)
        if op == "put":
            rec.val = f"{rec.w}.{rec.i}"
            return mt.put(k, rec.val)
        if op == "del":
            return mt.delete(k)
        if op == "inv":
            mt.invalidate(k)
            return None
        if op == "invall":
            mt.invalidate_all()
            return None
        return None

    harness, log, start_events = build_harness("h", plan, run_op, after_op=lambda rec: check_inv(f"after {rec!r}"), seq=Seq())
    sim = Simulation(entities=[kv, mt, harness] + tiers, end_time=Instant((t_close + (nkeys + 2) * per_op + 50) * TICK))
    for e in start_events():
        sim.schedule(e)
    probe = SimProbe(sim, max_per_instant=5000, max_events=50000, log=False,
                     on_event=lambda ev: check_inv(f"t={ev.time.nanoseconds / TICK:g} after an engine event"))
    try:
        outcome = probe.run()
    except _Abort:
        outcome = "aborted"
    if outcome == "spin":
        add(f"{P}/{obl}/spin", f"more than 5000 events at one instant t={probe.spin_at}")
    if outcome != "done":
        r.labels.append("inconclusive-" + outcome)
        return r
    writes = {k: [Write(k, initial.get(k), NEG_INF, NEG_INF, None)] for k in keys}
    for o in log:
        if o.op == "put":
            writes[o.key].append(Write(o.key, o.val, o.start, o.end if o.end is not None else POS_INF, o))
        elif o.op == "del":
            writes[o.key].append(Write(o.key, None, o.start, o.end if o.end is not None else POS_INF, o))
    gets = [o for o in log if o.op in ("get", "tget")]
    def sov(a, b):
        return seq_overlap(a.ss, a.se, b.ss, b.se)

    fill_overlap = any(sov(g, w.src) for g in gets for w in writes[g.key] if w.src is not None)
    ww_overlap = any(a.src is not None and b.src is not None and a is not b and sov(a.src, b.src)
                     for k in keys for a in writes[k] for b in writes[k])

    def classify(k, upto):
        if any(g.key == k and g.start <= upto and sov(g, w.src) for g in gets for w in writes[k] if w.src is not None):
            return "fill-races-write"
        if any(a.src is not None and b.src is not None and a is not b and sov(a.src, b.src) for a in writes[k] for b in writes[k]):
            return "write-races-write"
        return "other"

    for g in log:
        if g.op != "get" or not g.done():
            continue
        ok = acceptable_values(writes[g.key], g.start, g.end)
        if not any(w.val == g.res for w in ok):
            known = any(w.val == g.res for w in writes[g.key])
            add(f"{P}/{obl}/{classify(g.key, g.end)}/{'stale-read' if known else 'read-of-unwritten-value'}",
                f"{g!r} but acceptable values are {[w.val for w in ok]} (promotion {promo}); ops on the key: "
                f"{[o for o in log if o.key == g.key][:8]}")
    end_ns = max((o.end for o in log if o.done()), default=0)
    for k in keys:
        ok = acceptable_values(writes[k], end_ns, end_ns)
        have = kv.get_sync(k)
        if not any(w.val == have for w in ok):
            add(f"{P}/{obl}/{classify(k, POS_INF)}/final-backing-value", f"backing store holds {k}={have!r}, acceptable {[w.val for w in ok]}")
    if any(not o.done() for o in log):
        add(f"{P}/{obl}/operation-never-completed", f"{[o for o in log if not o.done()][:3]}")
    lower_hit = mt.stats.tier_hits.get(1, 0) + mt.stats.tier_hits.get(2, 0)
    r.nontrivial = (fill_overlap or safe) and (lower_hit >= 1 or mt.stats.promotions >= 1 or any(t.stats.evictions for t in tiers))
    r.labels += [f"promo-{promo}", f"tiers-{len(tiers)}", "lower-hit" if lower_hit else "no-lower-hit",
                 "fill-overlap" if fill_overlap else "no-fill-overlap", "ww-overlap" if ww_overlap else "no-ww-overlap"]
    return r


def ex_multitier(case):
    return run_multitier(case, "multitier")


def ex_multitier_safe(case):
    return run_multitier(case, "multitier-safe", safe=True)


# =============================================================================== SoftTTLCache
ST_OPS = ["get", "get", "get", "get", "put", "put", "inv", "invall", "bput", "bdel", "bdel"]


def short_softttl_strategy(tier):
    """hard TTL at or below the backing read latency, one or two hot keys read densely by 3-4 workers, with puts and direct
    backing-store writes in between: stale hits start refreshes, later readers join them after the entry expired, and the
    refreshed entry can itself be over-age when they wake up"""
    op = st.tuples(st.sampled_from(["get", "get", "get", "get", "get", "put", "bput", "bput", "bdel", "inv"]),
                   st.sampled_from([0, 0, 0, 1]), st.sampled_from([0, 0, 1, 1, 2, 3, 4, 6]), st.just(0)).map(list)
    worker = st.fixed_dictionaries({"start": st.integers(0, 8), "ops": st.lists(op, min_size=2, max_size=10)})
    return st.fixed_dictionaries({
        "soft": st.integers(0, 3), "extra": st.sampled_from([0, 1, 1, 2, 3]),
        "cap": st.none(),
        "nkeys": st.sampled_from([1, 1, 2]),
        "rl": st.integers(3, 8), "wl": st.integers(1, 4), "cl": st.integers(0, 1),
        "pre": st.lists(st.integers(0, 1), max_size=2),
        "workers": st.lists(worker, min_size=2, max_size=4),
    })


def softttl_strategy(tier):
    return st.one_of(general_softttl_strategy(tier), short_softttl_strategy(tier))


def general_softttl_strategy(tier):
    return st.fixed_dictionaries({
        "soft": st.integers(0, 10), "extra": st.sampled_from([0, 1, 1, 2, 2, 3, 4, 6, 12]),
        "cap": st.one_of(st.none(), st.none(), st.integers(1, 3)),
        "nkeys": st.sampled_from([1, 1, 2, 2, 3, 4]),
        "rl": st.integers(1, 6), "wl": st.integers(1, 6), "cl": st.integers(0, 1),
        "pre": st.lists(st.integers(0, 3), max_size=3),
        "workers": workers_strategy(tier, ST_OPS, max_ops=10, gaps=(0, 0, 1, 1, 2, 2, 3, 4, 6, 8)),
    })


def ex_softttl(case, obl="softttl"):
    from happysimulator import Instant, Simulation
    from happysimulator.components.datastore.kv_store import KVStore
    from happysimulator.components.datastore.soft_ttl_cache import SoftTTLCache
    from happysimulator.core.temporal import Duration

    r = Result()
    nkeys = _clamp(case.get("nkeys", 1), 1, 4)
    rl, wl, cl = _clamp(case.get("rl", 2), 2, 8), _clamp(case.get("wl", 2), 1, 6), _clamp(case.get("cl", 0), 0, 1)
    soft = _clamp(case.get("soft", 0), 0, 40)
    hard = soft + _clamp(case.get("extra", 0), 0, 40)
    cap = case.get("cap")
    cap = None if cap is None else _clamp(cap, 1, 3)
    keys = [f"k{i}" for i in range(nkeys)]
    workers = norm_workers(case, nkeys, allowed=set(ST_OPS), max_workers=4)
    kv = KVStore("kv", read_latency=rl / 512, write_latency=wl / 512)
    sc = SoftTTLCache("sc", kv, soft_ttl=Duration(soft * TICK), hard_ttl=Duration(hard * TICK), cache_capacity=cap,
                      cache_read_latency=cl / 512)
    for k in case.get("pre") or []:
        key = keys[_clamp(k, 0, 99) % nkeys]
        kv.put_sync(key, f"init.{key}")
    plan = [{"start": w["start"], "ops": [(o[0], keys[o[1]], None, o[2])for o in w["ops"]]} for w in workers]
    seen = set()

    def add(sig, detail):
        if sig not in seen:
            seen.add(sig)
            r.add(sig, detail)

    # backing-store value history: per key list of (t_ns, value) change points (value in effect from t on)
    hist = {k: [(NEG_INF, kv.get_sync(k))] for k in keys}

    def sample(t):
        for k in keys:
            v = kv.get_sync(k)
            if hist[k][-1][1] != v:
                hist[k].append((t, v))

    def check_inv(where):
        if cap is not None and (sc.cache_size > cap or len(sc.get_cached_keys()) > cap):
            add(f"{P}/{obl}/over-capacity", f"{where}: cache_size {sc.cache_size} > capacity {cap}")
        order = getattr(sc, "_access_order", None)
        if order is not None and (sorted(order) != sorted(sc.get_cached_keys())):
            add(f"{P}/{obl}/lru-keys-diverge", f"{where}: LRU list {order} vs cached {sorted(sc.get_cached_keys())}")

    def drive_get(rec):
        """drive sc.get() and note (from the public stats counter, read right after the synchronous first step)
        whether this read joined an in-flight refresh"""
        gen = sc.get(rec.key)
        ent = getattr(sc, "_cache", {}).get(rec.key)            # anchored state: CacheEntry.cached_at
        cached_at = getattr(getattr(ent, "cached_at", None), "nanoseconds", None)
        rec.val = None if cached_at is None else sc.now.nanoseconds - cached_at      # age of the held entry at read start
        before = sc.stats.coalesced_requests

        def finish(value):
            # the very entry that was already expired when the read began is still held and its value is what was returned
            # (a fetch would have stored a fresh entry): the reply came from an entry older than hard_ttl
            e2 = getattr(sc, "_cache", {}).get(rec.key)
            at2 = getattr(getattr(e2, "cached_at", None), "nanoseconds", None)
            if (value is not None and cached_at is not None and at2 == cached_at and e2.value == value
                    and rec.val >= hard * TICK):
                rec.exc = "expired-entry"
            # whichever entry is held now: if it carries the returned value, was not stored at this very instant (a fetch stores
            # a fresh entry when it returns) and was already hard_ttl old one cache-read latency ago - the latest moment at which
            # any path decides to serve from the cache - then the reply came from an expired entry (e.g. one refreshed while
            # the reader waited for an in-flight refresh)
            now_ns = sc.now.nanoseconds
            if (value is not None and at2 is not None and e2.value == value and at2 < now_ns
                    and now_ns - cl * TICK - at2 >= hard * TICK):
                rec.exc = "expired-entry"
                rec.val = now_ns - at2
            return value
        try:
            y = next(gen)
        except StopIteration as e:
            return finish(e.value)
        if sc.stats.coalesced_requests > before:
            rec.extra = "coalesced"
        while True:
            sent = yield y
            try:
                y = gen.send(sent)
            except StopIteration as e:
                return finish(e.value)

    def run_op(rec):
        op, k = rec.op, rec.key
        if op == "get":
            return drive_get(rec)
        if op == "put":
            rec.val = f"{rec.w}.{rec.i}"
            return sc.put(k, rec.val)
        if op == "bput":
            rec.val = f"{rec.w}.{rec.i}b"
            return kv.put(k, rec.val)
        if op == "bdel":
            return kv.delete(k)
        if op == "inv":
            sc.invalidate(k)
            return None
        if op == "invall":
            sc.invalidate_all()
            return None
        return None

    harness, log, start_events = build_harness("h", plan, run_op, after_op=lambda rec: check_inv(f"after {rec!r}"))
    t_end = max(w["start"] + len(w["ops"]) * (max(rl, wl) + 10) for w in workers) + 60
    sim = Simulation(entities=[kv, sc, harness], end_time=Instant(t_end * TICK))
    for e in start_events():
        sim.schedule(e)

    def on_event(ev):
        sample(ev.time.nanoseconds)
        check_inv(f"t={ev.time.nanoseconds / TICK:g} after an engine event")
    probe = SimProbe(sim, max_per_instant=5000, max_events=50000, log=False, on_event=on_event)
    outcome = probe.run()
    if outcome == "spin":
        add(f"{P}/{obl}/spin", f"more than 5000 events at one instant t={probe.spin_at}")
    if outcome != "done":
        r.labels.append("inconclusive-" + outcome)
        return r

    def values_in(k, lo, hi):
        """values the backing store held for k at some instant of [lo, hi] (inclusive, permissive at change points)"""
        out = []
        h = hist[k]
        for idx, (t, v) in enumerate(h):
            nxt = h[idx + 1][0] if idx + 1 < len(h) else POS_INF
            if t <= hi and nxt >= lo:
                out.append(v)
        return out

    if os.environ.get("VFW_DEBUG"):
        print("soft", soft, "hard", hard, "rl/wl/cl", rl, wl, cl, "cap", cap, "\n " + "\n ".join(map(repr, log)),
              "\n hist", {k: [(t / TICK if t > NEG_INF else "-inf", v) for t, v in h] for k, h in hist.items()}, sc.stats)
    zones = set()
    for g in log:
        if g.op != "get" or not g.done():
            continue
        if g.exc == "expired-entry":
            add(f"{P}/{obl}/{'coalesced-read/' if g.extra == 'coalesced' else ''}expired-entry-served",
                f"{g!r}: the entry that was served was {g.val / TICK:g} ticks old (hard_ttl {hard})")
        elif g.val is not None and g.val >= hard * TICK and g.end - g.start < rl * TICK and g.res is not None:
            # module table: "Expired: age >= hard_ttl -> block until fresh data fetched"; a reply faster than a backing
            # read can only have come from the expired entry
            add(f"{P}/{obl}/expired-entry-served-from-cache",
                f"{g!r}: held entry was {g.val / TICK:g} ticks old (hard_ttl {hard}) yet the read returned after "
                f"{(g.end - g.start) / TICK:g} ticks (< read latency {rl})")
        own = max((o.end for o in log if o.op == "put" and o.key == g.key and o.done() and o.end < g.start), default=NEG_INF)
        # every path decides what to serve no later than one cache-read latency before it returns (hits at the start,
        # coalesced readers on wake-up, fetches read the store when they return)
        lo_ttl = g.end - cl * TICK - hard * TICK
        ok = values_in(g.key, max(lo_ttl, own), g.end)
        if g.res in ok:
            dur = g.end - g.start
            zones.add("fast" if dur <= cl * TICK and rl > cl else "slow")
            continue
        path = "coalesced-read/" if g.extra == "coalesced" else ""
        if g.res in values_in(g.key, own, g.end):
            add(f"{P}/{obl}/{path}served-beyond-hard-ttl",
                f"{g!r}: value was last in the backing store more than hard_ttl={hard} ticks before the read began "
                f"(history {[(t / TICK if t > NEG_INF else '-inf', v) for t, v in hist[g.key]]}, soft {soft})")
        elif g.res in values_in(g.key, NEG_INF, g.end):
            add(f"{P}/{obl}/{path}stale-after-own-write",
                f"{g!r}: older than the put through the cache that completed at {own / TICK:g}")
        else:
            add(f"{P}/{obl}/{path}read-of-unwritten-value", f"{g!r}: the backing store never held this value for the key")
    if any(not o.done() for o in log):
        add(f"{P}/{obl}/operation-never-completed", f"{[o for o in log if not o.done()][:3]}")
    s = sc.stats
    r.nontrivial = s.stale_hits >= 1 and s.hard_misses >= 1 and any(o.op in ("bput", "bdel") for o in log)
    r.target = float(4 * min(s.coalesced_requests, 3) + min(s.stale_hits, 4) + (2 if any(o.op == "bdel" for o in log) else 0))
    r.labels += ["stale-hit" if s.stale_hits else "no-stale-hit", "coalesced" if s.coalesced_requests else "no-coalesce",
                 "evict" if s.evictions else "no-evict", "fresh" if s.fresh_hits else "no-fresh", f"hard-minus-soft-{min(hard - soft, 3)}"]
    return r


# =============================================================================== PageCache
PG_OPS = ["read", "read", "write", "write", "flush"]


def pagecache_strategy(tier):
    return st.fixed_dictionaries({
        "cap": st.integers(1, 4), "ra": st.integers(0, 2),
        "rl": st.integers(1, 4), "wl": st.integers(1, 4),
        "workers": workers_strategy(tier, PG_OPS, max_ops=8),
    })


def ex_pagecache_safe(case):
    return ex_pagecache(case, "pagecache-safe", safe=True)


def ex_pagecache(case, obl="pagecache", safe=False):
    from happysimulator import Instant, Simulation
    from happysimulator.components.infrastructure.page_cache import PageCache

    r = Result()
    cap = _clamp(case.get("cap", 1), 1, 4)
    ra = _clamp(case.get("ra", 0), 0, 2)
    rl, wl = _clamp(case.get("rl", 1), 1, 4), _clamp(case.get("wl", 1), 1, 4)
    workers = norm_workers(case, 6, allowed=set(PG_OPS))
    if safe:
        workers = workers[:1]            # one process at a time: no concurrent access to the page table
    pc = PageCache("pc", capacity_pages=cap, readahead_pages=ra, disk_read_latency_s=rl / 512, disk_write_latency_s=wl / 512)
    plan = [{"start": w["start"], "ops": [(o[0], o[1], None, o[2]) for o in w["ops"]]} for w in workers]
    seen = set()

    def add(sig, detail):
        if sig not in seen:
            seen.add(sig)
            r.add(sig, detail)

    state = {"dirty": set(), "left": 0, "max": 0}

    def check(where):
        n = pc.pages_cached
        state["max"] = max(state["max"], n)
        if n > cap:
            add(f"{P}/{obl}/over-capacity", f"{where}: pages_cached {n} > capacity {cap}")
        pages = getattr(pc, "_pages", None)
        if pages is not None:
            now_dirty = {pid for pid, pg in pages.items() if pg.dirty}
            state["left"] += len(state["dirty"] - now_dirty)
            state["dirty"] = now_dirty
            if state["left"] > pc.stats.dirty_writebacks:
                add(f"{P}/{obl}/dirty-page-dropped-without-writeback",
                    f"{where}: {state['left']} dirty pages left the cache or turned clean, dirty_writebacks={pc.stats.dirty_writebacks}")

    def run_op(rec):
        if rec.op == "read":
            return pc.read_page(rec.key)
        if rec.op == "write":
            return pc.write_page(rec.key)
        return pc.flush()

    harness, log, start_events = build_harness("h", plan, run_op, after_op=lambda rec: check(f"after {rec!r}"))
    t_end = max(w["start"] + len(w["ops"]) * (cap + 4) * (rl + wl + 8) for w in workers) + 60
    sim = Simulation(entities=[pc, harness], end_time=Instant(t_end * TICK))
    for e in start_events():
        sim.schedule(e)
    probe = SimProbe(sim, max_per_instant=5000, max_events=50000, log=False,
                     on_event=lambda ev: check(f"t={ev.time.nanoseconds / TICK:g} after an engine event"))
    outcome = probe.run()
    if outcome == "spin":
        add(f"{P}/{obl}/spin", f"more than 5000 events at one instant t={probe.spin_at}")
    if outcome != "done":
        r.labels.append("inconclusive-" + outcome)
        return r
    if any(not o.done() for o in log):
        add(f"{P}/{obl}/operation-never-completed", f"{[o for o in log if not o.done()][:3]}")
    overlap = any(a.w != b.w and _ov(a, b) and a.end != a.start and b.end != b.start for i, a in enumerate(log) for b in log[i + 1:])
    r.nontrivial = pc.stats.evictions >= 1 and pc.stats.dirty_writebacks >= 1
    r.labels += ["evict" if pc.stats.evictions else "no-evict", "wb" if pc.stats.dirty_writebacks else "no-wb",
                 "overlap" if overlap else "no-overlap", f"ra-{ra}"]
    return r


# =============================================================================== write policies
def writepolicy_strategy(tier):
    return st.fixed_dictionaries({
        "max_dirty": st.integers(1, 4),
        "ops": st.lists(st.tuples(st.sampled_from(["w", "w", "w", "flush", "pflush", "take", "take", "ack", "ack"]),
                                  st.integers(0, 4)).map(list), max_size=20),
    })


def ex_writepolicy(case, obl="writepolicy"):
    from happysimulator.components.datastore.write_policies import WriteAround, WriteBack, WriteThrough
    r = Result()
    md = _clamp(case.get("max_dirty", 1), 1, 4)
    wb, wth, wa = WriteBack(flush_interval=1.0, max_dirty=md), WriteThrough(), WriteAround()
    dirty, pending_inv = set(), []
    flushed_any = False
    taken = []                 # dirty-key lists handed to flushes that are still in flight (acknowledged later, in any order)
    late_ack = False
    for op, k in case.get("ops") or []:
        key = f"k{_clamp(k, 0, 4)}"
        if op == "take":
            taken.append(list(wb.get_keys_to_flush()))
        elif op == "ack":
            if taken:
                ks = taken.pop(_clamp(k, 0, 99) % len(taken))
                late_ack = late_ack or not set(ks) >= dirty
                wb.on_flush(ks)            # acknowledges exactly these keys; keys written since stay dirty
                dirty -= set(ks)
                flushed_any = True
        elif op == "w":
            wb.on_write(key, 1); wth.on_write(key, 1); wa.on_write(key, 1)
            dirty.add(key); pending_inv.append(key)
        elif op == "flush":
            ks = wb.get_keys_to_flush()
            if set(ks) != dirty:
                r.add(f"{P}/{obl}/keys-to-flush-differ", f"{sorted(ks)} vs written-and-unflushed {sorted(dirty)}")
            wb.on_flush(ks)
            dirty -= set(ks)
            flushed_any = True
            got = wa.get_keys_to_invalidate()
            if got != pending_inv:
                r.add(f"{P}/{obl}/write-around-invalidations-differ", f"{got} vs {pending_inv}")
            pending_inv = []
        else:
            ks = sorted(wb.get_keys_to_flush())[:1]
            wb.on_flush(ks)
            dirty -= set(ks)
        if set(wb.get_keys_to_flush()) != dirty or wb.dirty_count != len(dirty):
            r.add(f"{P}/{obl}/dirty-set-differs", f"{sorted(wb.get_keys_to_flush())} vs {sorted(dirty)}")
        if wb.should_flush() != (len(dirty) >= md):
            r.add(f"{P}/{obl}/should-flush-differs", f"dirty {len(dirty)} max_dirty {md} should_flush {wb.should_flush()}")
        if not wth.should_write_through() or wth.should_flush() or wth.get_keys_to_flush():
            r.add(f"{P}/{obl}/write-through-buffers", "")
        if wb.should_write_through() or not wa.should_write_through():
            r.add(f"{P}/{obl}/mode-flags", "")
    r.nontrivial = flushed_any and len(case.get("ops") or []) >= 4
    r.labels.append("flushed" if flushed_any else "no-flush")
    r.labels.append("ack-not-covering-dirty-set" if late_ack else "acks-cover")
    return r


# =============================================================================== registry
OBLIGATIONS = [
    Obligation("cached", cached_strategy, ex_cached, {"quick": 4000, "thorough": 160000},
               "CachedStore with one of the 9 eviction policies, write-through or write-back, capacity 1..3 over 2..5 keys, "
               "backing latencies 1..6 ticks; 1..3 workers with start offsets 0..8 ticks and gaps 0..5 ticks issue get/put/"
               "delete/invalidate/invalidate_all/flush so that operations overlap; a closing worker flushes and reads all keys; "
               "half of the cases use the hot-key shape (capacity 1-2 over 2-3 keys, 2-4 workers issuing back-to-back puts to one key "
               "with start offsets below the backing write latency 3..8, read latency 1..3, gets/invalidations of that key at "
               "every tick around the write completions, puts to other keys as evictors), target() on gets that miss while >=2 "
               "writes to the key are in flight; "
               "non-trivial = a dirty key was evicted, a get overlapped a write of the same key, or a get missed while >=2 writes "
               "to its key were in flight"),
    Obligation("cached-safe", cached_strategy, ex_cached_safe, {"quick": 2000, "thorough": 80000},
               "as `cached` on the domain where the open findings cannot occur: workers use disjoint key sets, write-back runs "
               "have capacity >= number of keys, dirty keys are not invalidated, only the closing worker flushes when workers are "
               "concurrent; no exclusions; non-trivial = at least one eviction and (overlapping workers or a single worker)"),
    Obligation("multitier", multitier_strategy, ex_multitier, {"quick": 1200, "thorough": 50000},
               "MultiTierCache over 2..3 write-through CachedStore tiers (any policy, capacity 1..3, tier latency 0..2 ticks) with "
               "ALWAYS/ON_SECOND_ACCESS/NEVER promotion; workers issue get/put/delete/invalidate/invalidate_all and direct reads "
               "through a lower tier; non-trivial = a get overlapped a write of the same key and a lower tier / promotion / eviction was exercised"),
    Obligation("multitier-safe", multitier_strategy, ex_multitier_safe, {"quick": 800, "thorough": 30000},
               "as `multitier` with disjoint key sets per worker (no same-key overlap); no exclusions"),
    Obligation("softttl", softttl_strategy, ex_softttl, {"quick": 3000, "thorough": 120000},
               "SoftTTLCache with soft TTL 0..12 ticks and hard TTL soft+0..12 ticks, optional capacity 1..3, 1..4 keys; workers "
               "issue get/put/invalidate/invalidate_all and direct backing-store put/delete; non-trivial = a stale hit, a hard miss "
               "and a direct backing-store write occurred"),
    Obligation("pagecache", pagecache_strategy, ex_pagecache, {"quick": 1200, "thorough": 50000},
               "PageCache capacity 1..4, read-ahead 0..2, workers issue read_page/write_page/flush on 6 pages with overlap; "
               "non-trivial = an eviction and a dirty write-back happened"),
    Obligation("pagecache-safe", pagecache_strategy, ex_pagecache_safe, {"quick": 600, "thorough": 25000},
               "as `pagecache` with a single worker (sequential access), the domain in which the concurrency findings of PageCache "
               "cannot occur; no exclusions"),
    Obligation("writepolicy", writepolicy_strategy, ex_writepolicy, {"quick": 300, "thorough": 10000},
               "sequences of on_write / full flush / partial flush on WriteBack, WriteThrough, WriteAround against a set model; "
               "non-trivial = a flush happened in a sequence of >= 4 steps"),
]
