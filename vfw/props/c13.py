"""C13 — SWIM-style membership: no false deaths on a healthy network, real failures are detected, DEAD is final
without a higher incarnation, phi-accrual suspicion is monotone while no heartbeat arrives.

Real ``MembershipProtocol`` nodes on the scripted network of ``dsl/netsched`` (per-message delays from the case, in
1/100 of the probe interval; probe orders and delegate choices from the RNG shim; crash windows through the engine's
``CrashNode``).  After every event delivered to a member the harness reads ``get_member_state`` of every peer.
"""
from __future__ import annotations

import math

from hypothesis import strategies as st

from .. import harness
from ..dsl import netsched
from ..runner import Obligation, Result

P = "C13"
ASSUMPTIONS = [
    "parameter ranges (the docstrings give defaults only: probe 1.0 s, suspicion timeout 5.0 s, 3 delegates, phi 8.0): probe "
    "interval 0.1-2 s, suspicion timeout 0.5-10 probe intervals, 0-5 delegates, phi threshold 0.5-16, 3-8 members",
    "'well below the probe interval' = every one-way delay <= 10 % of the probe interval (round trip <= 20 %, under the "
    "protocol's own ack timeout of 50 %), no loss, no partition",
    "'a bounded number of probe rounds' is made concrete from the mechanism the code documents (phi-accrual over the observed "
    "heartbeat gaps): with G = 2(N-1) intervals + 2 max delays (longest gap between two heartbeats a live member can leave at "
    "one observer: it pings each peer once per shuffled cycle of N-1 rounds) every interval sample is <= G, so mean <= G and "
    "std <= G/2, and phi reaches the threshold at the latest G + y*max(G/2, min_std=0.1 s) after the last heartbeat, y = the "
    "standard-normal quantile of 1-10^-threshold; deadline = crash + G (age of the last heartbeat) + that + 2 intervals",
    "accuracy-slow widens 'well below the probe interval' to round trips of 52-90 % of the probe interval (one-way 26-45 %): still "
    "below the probe interval, and the orphan-free protocol cancels its suspicion timer on the late ack because ack window (0.5) + "
    "suspicion timeout (>= 0.5) >= 1 interval > round trip",
    "gossip: injected messages are delivered straight to m0.handle_event (no network), nobody runs probe ticks, so the only way a "
    "view changes is the update rule; a DEAD that was not caused by a 'dead' rumour in the same message cannot occur there",
    "crash = the engine's CrashNode (events to the member are dropped); in `flap` a restarted member calls start() again",
    "the implementation never raises an incarnation, so 'DEAD is not reported ALIVE again without a higher incarnation' is "
    "checked as: an observer that reported DEAD never reports anything else for that member afterwards",
    "phi(t1) <= phi(t2) + 1e-9 for t1 < t2, both at or after the last heartbeat (inf counts as the largest value)",
    "sliding window (docstrings: 'maintains a sliding window of heartbeat inter-arrival times', 'max_sample_size: maximum number of "
    "inter-arrival intervals to keep', 'mean_interval: mean inter-arrival time'): judged only once at least max_sample_size real "
    "intervals were recorded, so that the bootstrap sample plays no role; the twin detector is fed exactly the last "
    "max_sample_size+1 heartbeats with the same constructor arguments; phi values are compared with 1e-6 relative tolerance",
]

ALIVE, SUSPECT, DEAD = "ALIVE", "SUSPECT", "DEAD"


def _int(x, lo, hi, default=None):
    try:
        v = int(x)
    except (TypeError, ValueError):
        v = lo if default is None else default
    return max(lo, min(hi, v))


def _pick(seq, i, default=0):
    return seq[_int(i, 0, 10 ** 9, default) % len(seq)]


INTERVALS_MS = [100, 200, 500, 1000, 2000]
SUSP_FACTORS = [0.5, 1, 2, 3, 5, 10]
THRESHOLDS = [0.5, 1.0, 2.0, 3.0, 5.0, 8.0, 12.0, 16.0]


def y_of(threshold):
    """Standard-normal quantile y with -log10(0.5*erfc(y/sqrt 2)) = threshold (bisection, rounded up)."""
    lo, hi = -10.0, 40.0
    for _ in range(200):
        mid = (lo + hi) / 2
        p = 0.5 * math.erfc(mid / math.sqrt(2))
        phi = float("inf") if p <= 0 else -math.log10(p)
        if phi >= threshold:
            hi = mid
        else:
            lo = mid
    return hi


def cluster_strategy(*, crash, flap=False, late=False):
    def s(tier):
        big = tier == "thorough"
        d = {
            "n": st.integers(3, 8),
            "interval": st.integers(0, len(INTERVALS_MS) - 1),
            "susp": st.integers(0, len(SUSP_FACTORS) - 1),
            "thr": st.integers(0, len(THRESHOLDS) - 1),
            "k": st.integers(0, 5),
            "rounds": st.integers(20, 60 if big else 40),
            "shuffle": st.lists(st.integers(0, 999), max_size=40),
            "delays": st.lists(st.integers(0, 10), max_size=60),
            "seed": st.integers(0, 2 ** 16),
        }
        if crash:
            # crash time in 1/100 interval: inside the first round, mid-run, late
            d["victim"] = st.integers(0, 7)
            d["tc"] = st.one_of(st.integers(0, 150), st.integers(0, 2000))
            d["late"] = st.just(bool(late))      # True: the crash comes only after the victim's first full probe cycle
        if flap:
            d["down"] = st.integers(200, 4000)            # length of the outage in 1/100 interval
            d["loss"] = st.lists(st.sampled_from([0, 0, 1]), max_size=60)
        return st.fixed_dictionaries(d)
    return s


class View:
    """What every member reports about every peer, refreshed after every event delivered to that member."""

    def __init__(self, r, obl, nodes):
        self.r, self.obl, self.nodes = r, obl, nodes
        self.by_id = {id(x): x for x in nodes}
        self.state = {(a.name, b.name): ALIVE for a in nodes for b in nodes if a is not b}
        self.dead_at = {}            # (observer, peer) -> t_ns of the first DEAD report
        self.recoveries = 0          # SUSPECT -> ALIVE
        self.suspects = 0
        self.heard = set()           # (observer, peer): observer processed a Ping/Ack sent by peer
        self.seen = set()
        self.ever_down = set()

    def add(self, clause, detail):
        sig = f"{P}/{self.obl}/{clause}"
        if sig not in self.seen:
            self.seen.add(sig)
            self.r.add(sig, detail)

    def on_event(self, ev):
        m = self.by_id.get(id(ev.target))
        if m is None or getattr(m, "_crashed", False):
            return
        t = ev.time.nanoseconds
        if ev.event_type in ("MembershipPing", "MembershipAck", "MembershipIndirectAck"):
            src = (ev.context.get("metadata") or {}).get("from")
            if src is not None:
                self.heard.add((m.name, src))
        for p in self.nodes:
            if p is m:
                continue
            st_ = m.get_member_state(p.name)
            new = st_.name if st_ is not None else None
            key = (m.name, p.name)
            old = self.state[key]
            if new == old:
                continue
            self.state[key] = new
            if old == DEAD:
                self.add("dead-member-reported-not-dead-again",
                         f"{m.name} reported {p.name} DEAD at {self.dead_at.get(key, 0) / 1e9:.3f}s and {new} at "
                         f"{t / 1e9:.3f}s on {ev.event_type} (no higher incarnation exists)")
            if new == DEAD:
                self.dead_at.setdefault(key, t)
                if p.name not in self.ever_down:
                    self.add("live-member-marked-dead",
                             f"{m.name} marked {p.name} DEAD at {t / 1e9:.3f}s on {ev.event_type}; {p.name} never stopped")
            elif new == SUSPECT:
                self.suspects += 1
            elif new == ALIVE and old == SUSPECT:
                self.recoveries += 1


def build(case, *, lossy=False):
    from happysimulator.components.consensus.membership import MembershipProtocol
    n = _int(case.get("n"), 3, 10, 3)
    interval_ms = _pick(INTERVALS_MS, case.get("interval"))
    interval = interval_ms / 1000
    susp = _pick(SUSP_FACTORS, case.get("susp")) * interval
    thr = _pick(THRESHOLDS, case.get("thr"))
    k = _int(case.get("k"), 0, 5, 3)
    unit = interval / 100
    delays, dflt, dmax = case.get("delays"), 3, 10
    if case.get("slowrtt"):
        # accuracy-slow: every one-way delay in 26-45 % of the probe interval, so each probe is answered after the protocol's
        # internal ack window (50 %) but before the next probe round (round trip 52-90 %)
        delays = [26 + _int(x, 0, 10 ** 6, 0) % 20 for x in (delays or []) if isinstance(x, (int, float))] or [30]
        dflt, dmax = 30, 45
    netc = {"delays": delays, "seed": case.get("seed"), "loss": case.get("loss") if lossy else []}
    sn = netsched.ScriptedNet(netc, unit=unit, default_delay=dflt, max_delay=dmax)
    nodes = [MembershipProtocol(f"m{i}", sn.network, probe_interval=interval, suspicion_timeout=susp,
                                indirect_probe_count=k, phi_threshold=thr) for i in range(n)]
    for a in nodes:
        for b in nodes:
            if a is not b:
                a.add_member(b)
    sn.connect(nodes)
    return sn, nodes, dict(n=n, interval=interval, susp=susp, thr=thr, k=k, unit=unit)


def run_cluster(case, obl, *, crash=False, flap=False):
    import happysimulator.components.consensus.membership as mem_mod
    from happysimulator import Event, Instant, Simulation
    r = Result()
    case = case if isinstance(case, dict) else {}
    sn, nodes, p = build(case, lossy=flap)
    harness.seed_globals(sn.seed)
    view = View(r, obl, nodes)
    n, interval, unit = p["n"], p["interval"], p["unit"]
    rounds = _int(case.get("rounds"), 5, 200, 20)
    dmax = 10 * unit
    victim = None
    deadline = None
    if crash:
        victim = nodes[_int(case.get("victim"), 0, 10 ** 6, 0) % n]
        tc_units = _int(case.get("tc"), 0, 10 ** 6, 0)
        if case.get("late"):
            tc_units += (n + 1) * 100          # after N-1 rounds the victim has pinged every peer once (+ 2 rounds of slack)
        tc_units += _int(case.get("uptime"), 0, 5000, 0) * 100     # healthy rounds before the crash (completeness-uptime)
        tc = tc_units * unit
        if flap:
            down = _int(case.get("down"), 1, 10 ** 6, 200)
            sn.crashes = [{"node": nodes.index(victim), "t": tc_units, "dur": down, "rearm": True}]
            T = tc + down * unit + rounds * interval
        else:
            sn.crashes = [{"node": nodes.index(victim), "t": tc_units, "dur": 0, "rearm": False}]
            G = 2 * (n - 1) * interval + 2 * dmax
            need = G + y_of(p["thr"]) * max(G / 2, 0.1)
            deadline = tc + G + need + 2 * interval
            T = deadline + 3 * interval
        view.ever_down.add(victim.name)
    else:
        T = rounds * interval
    sim = Simulation(entities=[sn.network, *nodes], fault_schedule=sn.fault_schedule(),
                     end_time=Instant.from_seconds(T))
    for e in sn.control_events(on_restart=lambda node: node.start()):
        sim.schedule(e)
    at_deadline = {}
    if deadline is not None:
        def snap(e):
            for o in nodes:
                if o is not victim:
                    at_deadline[o.name] = o.get_member_state(victim.name).name
        sim.schedule(Event.once(time=Instant.from_seconds(deadline), event_type="judge.deadline", fn=snap, daemon=True))
    script = [(_int(x, 0, 999, 0)) / 1000 for x in (case.get("shuffle") or []) if isinstance(x, (int, float))]
    rng = harness.RandomShim(sn.seed, script)
    n_events = 400 * n * int(T / interval + 2) + 20000
    probe = harness.SimProbe(sim, max_per_instant=20000, max_events=n_events, log=False, on_event=view.on_event)
    with sn.installed(mem_mod, rng=rng):              # start() shuffles the probe order: inside the shim
        for x in nodes:
            sim.schedule(x.start())
        status = probe.run()
    if status == "spin":
        r.add(f"{P}/{obl}/spin-at-one-instant", f"more than 20000 events at t={probe.spin_at} ns")
    elif status == "budget":
        r.labels.append("event-budget")
    r.labels.append(f"n={n}")
    r.labels.append(f"thr={p['thr']}")
    if view.recoveries:
        r.labels.append("suspect-episode-recovered")
    elif view.suspects:
        r.labels.append("suspect-episode")
    r.observed = {"events": probe.n, "suspects": view.suspects, "recoveries": view.recoveries,
                  "dead": sorted(f"{a}>{b}" for (a, b), s in view.state.items() if s == DEAD)[:8]}
    return r, view, p, dict(victim=victim, deadline=deadline, at_deadline=at_deadline, status=status, nodes=nodes,
                            rounds=rounds, tc=(tc if crash else None))


# ------------------------------------------------------------------------------------------- accuracy
def ex_accuracy(case, obl="accuracy"):
    r, view, p, x = run_cluster(case, obl)
    r.nontrivial = x["rounds"] >= 20 and view.recoveries >= 1
    return r


def slow_strategy(tier):
    """Healthy clusters whose round trip lies between the internal ack window and the probe interval."""
    return st.fixed_dictionaries({
        "n": st.integers(5, 10), "interval": st.integers(0, len(INTERVALS_MS) - 1), "susp": st.sampled_from([0, 1, 2, 3]),
        "thr": st.integers(0, len(THRESHOLDS) - 1), "k": st.integers(0, 5), "rounds": st.integers(60, 120),
        "shuffle": st.lists(st.integers(0, 999), max_size=40), "delays": st.lists(st.integers(0, 19), max_size=60),
        "seed": st.integers(0, 2 ** 16), "slowrtt": st.just(True),
    })


# ------------------------------------------------------------------------------------------- gossip (incarnation rule)
def gossip_strategy(tier):
    up = st.fixed_dictionaries({"m": st.integers(1, 4), "s": st.sampled_from(["alive", "alive", "suspect", "dead"]),
                                "inc": st.integers(0, 6)})
    msg = st.fixed_dictionaries({"gap": st.integers(1, 50), "from": st.integers(1, 4),
                                 "ups": st.lists(up, min_size=1, max_size=4, unique_by=lambda u: u["m"])})
    return st.fixed_dictionaries({"n": st.integers(3, 5), "msgs": st.lists(msg, min_size=2, max_size=14),
                                  "seed": st.integers(0, 2 ** 16)})


def ex_gossip(case):
    """One observer (m0) of an unstarted cluster receives MembershipPing messages whose piggybacked update lists
    (alive/suspect/dead about the other members, incarnations 0-6, at most one update per member and message) and order
    come from the case - the rumours a long-lived cluster with refuting members would deliver in any order."""
    import happysimulator.components.consensus.membership as mem_mod
    from happysimulator import Event, Instant, Simulation
    obl = "gossip"
    r = Result()
    case = case if isinstance(case, dict) else {}
    sn, nodes, p = build({"n": _int(case.get("n"), 3, 5, 3), "interval": 3, "susp": 4, "thr": 5, "k": 0, "seed": case.get("seed")})
    harness.seed_globals(sn.seed)
    obs, n = nodes[0], len(nodes)
    sim = Simulation(entities=[sn.network, *nodes], end_time=Instant.from_seconds(5.0))
    msgs = []
    t = 0
    for mm in (case.get("msgs") or [])[:40]:
        if not isinstance(mm, dict):
            continue
        t += _int(mm.get("gap"), 1, 1000, 1)
        src = nodes[1 + (_int(mm.get("from"), 1, 10 ** 6, 1) - 1) % (n - 1)].name
        ups, seen = [], set()
        for u in (mm.get("ups") or [])[:6]:
            if not isinstance(u, dict):
                continue
            who = nodes[1 + (_int(u.get("m"), 1, 10 ** 6, 1) - 1) % (n - 1)].name
            st_ = u.get("s") if u.get("s") in ("alive", "suspect", "dead") else "alive"
            if who in seen:
                continue                       # at most one update per member and message (keeps the judgement order-free)
            seen.add(who)
            ups.append({"member": who, "state": st_, "incarnation": _int(u.get("inc"), 0, 100, 0)})
        msgs.append((t, src, ups))
    state = {x.name: ALIVE for x in nodes[1:]}
    dead_inc = {}
    revived = [0]
    for i, (tm, src, ups) in enumerate(msgs):
        def deliver(e, src=src, ups=ups):
            ev = Event(time=e.time, event_type="MembershipPing", target=obs, daemon=True,
                       context={"metadata": {"source": src, "destination": obs.name, "from": src, "incarnation": 0,
                                             "updates": [dict(u) for u in ups]}})
            out = obs.handle_event(ev)
            for x in nodes[1:]:
                new = obs.get_member_state(x.name).name
                old = state[x.name]
                if new == old:
                    continue
                state[x.name] = new
                mine = next((u for u in ups if u["member"] == x.name), None)
                if new == DEAD:
                    dead_inc[x.name] = mine["incarnation"] if mine and mine["state"] == "dead" else None
                elif old == DEAD:
                    d = dead_inc.get(x.name)
                    ok = mine is not None and mine["state"] == "alive" and d is not None and mine["incarnation"] > d
                    if ok:
                        revived[0] += 1
                    else:
                        r.add(f"{P}/{obl}/dead-member-revived-without-higher-incarnation",
                              f"m0 held {x.name} DEAD by a 'dead' rumour of incarnation {d}; the message from {src} with updates "
                              f"{ups} made it {new}")
            return out
        sim.schedule(Event.once(time=Instant(tm * 10 ** 6), event_type="inject.ping", fn=deliver, daemon=True))
    probe = harness.SimProbe(sim, max_per_instant=20000, max_events=20000, log=False)
    rng = harness.RandomShim(sn.seed, [])
    with sn.installed(mem_mod, rng=rng):
        probe.run()
    was_dead = bool(dead_inc)
    r.nontrivial = was_dead and any(u["state"] == "alive" and u["incarnation"] > 0 for _, _, ups in msgs for u in ups)
    r.labels.append("dead-rumour-applied" if was_dead else "no-dead")
    if revived[0]:
        r.labels.append("revived-by-higher-incarnation")
    return r


# ------------------------------------------------------------------------------------------- completeness
def ex_completeness(case, obl="completeness"):
    r, view, p, x = run_cluster(case, obl, crash=True)
    victim, tc, interval = x["victim"], x["tc"], p["interval"]
    if x["status"] == "done" and x["at_deadline"]:
        rounds_allowed = (x["deadline"] - tc) / interval
        for o in x["nodes"]:
            if o is victim:
                continue
            s_dead = x["at_deadline"].get(o.name)
            s_end = o.get_member_state(victim.name).name
            if ALIVE in (s_dead, s_end):
                never = (o.name, victim.name) not in view.heard
                cls = "crash-before-first-heartbeat" if never else "still-reported-alive-after-bound"
                view.add(cls, f"{victim.name} crashed at {tc:.3f}s (interval {interval}s, n={p['n']}, phi {p['thr']}); "
                              f"{o.name} reports it {s_dead} {rounds_allowed:.0f} rounds later and {s_end} at the end"
                              + ("; it had never received a message from it" if never else ""))
    r.labels.append("crash-in-first-round" if tc < interval else ("crash-mid-run" if tc < 10 * interval else "crash-late"))
    if any(view.state[(o.name, victim.name)] != ALIVE for o in x["nodes"] if o is not victim):
        r.labels.append("detected-by-someone")
    r.nontrivial = True
    return r


# ------------------------------------------------------------------------------------------- flap (DEAD is final)
def ex_flap(case):
    r, view, p, x = run_cluster(case, "flap", crash=True, flap=True)
    # only the finality clause (and exceptions / spins) is judged here: with loss and an outage, DEAD verdicts are legitimate
    r.violations = [v for v in r.violations if "live-member-marked-dead" not in v.sig]
    victim = x["victim"]
    was_dead = any(k[1] == victim.name for k in view.dead_at)
    r.labels.append("victim-declared-dead-then-restarted" if was_dead else "victim-not-declared-dead")
    if view.dead_at:
        r.labels.append("some-dead-verdict")
    r.nontrivial = was_dead
    return r


# ------------------------------------------------------------------------------------------- phi
def phi_strategy(tier):
    gap = st.one_of(st.integers(1, 3000), st.sampled_from([1, 10, 100, 500, 1000]))
    return st.fixed_dictionaries({
        "thr": st.integers(0, len(THRESHOLDS) - 1),
        "window": st.sampled_from([1, 2, 3, 5, 10, 20, 200]),
        "min_std_ms": st.sampled_from([1, 10, 100, 1000]),
        "initial_ms": st.sampled_from([0, 0, 100, 1000]),
        "t0_ms": st.integers(0, 10 ** 6),
        # mostly short histories against small windows (eviction after a handful of heartbeats); some long regular ones that
        # overflow the default window of 200
        "gaps_ms": st.one_of(st.lists(gap, max_size=30), st.lists(gap, max_size=30),
                             st.builds(lambda g, n, tail: [g] * n + tail, st.sampled_from([100, 500, 1000]), st.integers(201, 320),
                                       st.lists(gap, max_size=5))),
        "queries_ms": st.lists(st.one_of(st.integers(0, 5000), st.integers(0, 10 ** 6)), min_size=2, max_size=30),
        # further query times given as standard scores: t = last heartbeat + mean + (y/100)*std of the detector's own window,
        # so that the whole range of the tail probability (down to its underflow at y ~ 38) is visited whatever the scale
        "queries_y": st.lists(st.integers(-300, 4500), max_size=12),
    })


def ex_phi(case):
    from happysimulator.components.consensus.phi_accrual_detector import PhiAccrualDetector
    r = Result()
    case = case if isinstance(case, dict) else {}
    init = _int(case.get("initial_ms"), 0, 10 ** 7, 0)
    det = PhiAccrualDetector(threshold=_pick(THRESHOLDS, case.get("thr")), max_sample_size=_int(case.get("window"), 1, 1000, 200),
                             min_std=_int(case.get("min_std_ms"), 1, 10 ** 6, 100) / 1000,
                             initial_interval=(init / 1000) if init else None)
    t = _int(case.get("t0_ms"), 0, 10 ** 9, 0)
    det.heartbeat(t / 1000)
    n_hb = 1
    stamps = [t]
    for g in (case.get("gaps_ms") or [])[:400]:
        if isinstance(g, (int, float)):
            t += _int(g, 1, 10 ** 7, 1)
            det.heartbeat(t / 1000)
            n_hb += 1
            stamps.append(t)
    # ---- sliding window: the statistics are those of the last max_sample_size inter-arrival times
    window = _int(case.get("window"), 1, 1000, 200)
    twin = None
    if n_hb - 1 >= window:                       # the window is full of real intervals (the bootstrap sample, if any, is out)
        last = [(stamps[i] / 1000) - (stamps[i - 1] / 1000) for i in range(len(stamps) - window, len(stamps))]
        ref_mean = math.fsum(last) / len(last)
        got = det.stats.mean_interval
        if abs(got - ref_mean) > 1e-9 * max(1.0, abs(ref_mean)):
            r.add(f"{P}/phi/window-mean-is-not-the-mean-of-the-last-intervals",
                  f"max_sample_size={window}, {n_hb} heartbeats: mean_interval={got!r}, mean of the last {window} intervals={ref_mean!r}")
        if n_hb - 1 > window:
            # a detector that saw only the heartbeats of the window must rate the same silence the same way
            twin = PhiAccrualDetector(threshold=_pick(THRESHOLDS, case.get("thr")), max_sample_size=window,
                                      min_std=_int(case.get("min_std_ms"), 1, 10 ** 6, 100) / 1000,
                                      initial_interval=(init / 1000) if init else None)
            for x in stamps[len(stamps) - window - 1:]:
                twin.heartbeat(x / 1000)
    qs = {_int(q, 0, 10 ** 9, 0) / 1000 for q in (case.get("queries_ms") or []) if isinstance(q, (int, float))}
    stats = det.stats
    std = max(stats.std_interval, _int(case.get("min_std_ms"), 1, 10 ** 6, 100) / 1000)
    for yq in (case.get("queries_y") or [])[:40]:
        if isinstance(yq, (int, float)):
            qs.add(max(0.0, stats.mean_interval + _int(yq, -10 ** 4, 10 ** 4, 0) / 100 * std))
    prev = None
    rising = False
    for q in sorted(qs):
        now = t / 1000 + q
        v = det.phi(now)
        if isinstance(v, float) and math.isnan(v):
            r.add(f"{P}/phi/phi-is-nan", f"phi({now}) is NaN after {n_hb} heartbeats")
            break
        if prev is not None:
            if v + 1e-9 < prev[1]:
                r.add(f"{P}/phi/suspicion-decreased-without-heartbeat",
                      f"last heartbeat {t / 1000}s: phi({prev[0]})={prev[1]!r} > phi({now})={v!r}")
                break
            if v > prev[1]:
                rising = True
        prev = (now, v)
        if twin is not None:
            w = twin.phi(now)
            same = (v == w) or (not math.isinf(v) and not math.isinf(w) and abs(v - w) <= 1e-6 * max(1.0, abs(v), abs(w)))
            if not same:
                r.add(f"{P}/phi/phi-depends-on-heartbeats-older-than-the-window",
                      f"max_sample_size={window}: after {n_hb} heartbeats phi(silence {q:.3f}s)={v!r}; a detector that saw only "
                      f"the last {window + 1} of them says {w!r}")
                twin = None
    r.nontrivial = rising and n_hb >= 2
    r.labels.append("rising" if rising else "flat")
    r.labels.append("no-intervals" if (n_hb < 2 and not init) else "with-intervals")
    if n_hb - 1 > window:
        r.labels.append("window-overflowed")
    return r


def uptime_strategy(tier):
    """Tiny clusters that stay healthy for 1000-1600 probe rounds (every detector has seen several times more heartbeats
    than its window of 200 holds) before one member stops."""
    return st.fixed_dictionaries({
        "n": st.just(3), "interval": st.integers(0, len(INTERVALS_MS) - 1), "susp": st.integers(0, len(SUSP_FACTORS) - 1),
        "thr": st.sampled_from([5, 6, 7]), "k": st.integers(0, 2), "rounds": st.just(20),
        "shuffle": st.lists(st.integers(0, 999), max_size=10), "delays": st.lists(st.integers(0, 10), max_size=20),
        "seed": st.integers(0, 2 ** 16), "victim": st.integers(0, 2), "tc": st.integers(0, 300), "late": st.just(True),
        "uptime": st.integers(1000, 1600 if tier != "thorough" else 4000),
    })


RULE_CLUSTER = ("3-8 real MembershipProtocol nodes, probe interval 0.1-2 s, suspicion timeout 0.5-10 intervals, 0-5 delegates, phi "
                "threshold 0.5-16; per-message one-way delays 0-10 % of the probe interval from the case, probe orders and delegate "
                "choices from the RNG shim (first draws from the case), 20-40 probe rounds; ")

OBLIGATIONS = [
    Obligation("accuracy", cluster_strategy(crash=False), ex_accuracy, {"quick": 500, "thorough": 20000},
               RULE_CLUSTER + "nobody crashes; after every delivered event no member may report a peer DEAD (and a DEAD report must "
               "never be withdrawn). Non-trivial = >= 20 rounds and at least one "
               "SUSPECT episode that recovers"),
    Obligation("accuracy-slow", slow_strategy, lambda c: ex_accuracy(c, "accuracy-slow"), {"quick": 160, "thorough": 6000},
               "healthy clusters of 5-10 members running 60-120 rounds in which every one-way delay is 26-45 % of the probe interval: "
               "each probe is answered after the protocol's internal ack window (50 %) but before the next probe round (round trip "
               "52-90 %, still below the probe interval and below ack window + suspicion timeout), so the indirect-probe and "
               "suspicion-timer path runs although nobody stopped; suspicion timeout 0.5-3 intervals; same clauses as `accuracy`"),
    Obligation("gossip", gossip_strategy, ex_gossip, {"quick": 800, "thorough": 60000},
               "incarnation rule of piggybacked updates, detached from timing: the observer m0 of an unstarted 3-5 member cluster is "
               "handed 2-14 MembershipPing messages whose update lists (alive/suspect/dead about the other members, incarnations 0-6, "
               "one update per member and message) and order come from the case; once m0 holds X DEAD through a 'dead' rumour of "
               "incarnation d it may report X not-DEAD again only on a message carrying alive(X, i) with i > d. Non-trivial = a dead "
               "rumour was applied and some alive rumour with incarnation > 0 was delivered"),
    Obligation("completeness", cluster_strategy(crash=True), ex_completeness, {"quick": 400, "thorough": 16000},
               RULE_CLUSTER + "one member is crashed for good (CrashNode) at a generated time in [0, 20 intervals] (inside the first "
               "round / mid-run / late); at the deadline computed from N, interval, delays and phi threshold (see assumptions) and at "
               "the end of the run no live member may report it ALIVE; no live member may ever be marked DEAD; DEAD is final. Every "
               "case is non-trivial (classes: crash in first round / mid-run / late)"),
    Obligation("completeness-late", cluster_strategy(crash=True, late=True), lambda c: ex_completeness(c, "completeness-late"),
               {"quick": 200, "thorough": 8000},
               "restricted twin of `completeness` in which the open finding crash-before-first-heartbeat cannot occur by construction: "
               "the crash comes at least N+1 rounds after the start, i.e. after the victim's first full probe cycle, so every observer "
               "has received a ping from it; same clauses, nothing excluded"),
    Obligation("completeness-uptime", uptime_strategy, lambda c: ex_completeness(c, "completeness-uptime"),
               {"quick": 32, "thorough": 600},
               "completeness after a long healthy uptime: 3 members, phi threshold 8/12/16, the victim stops after 1000-1600 healthy probe "
               "rounds, i.e. after every detector has seen several times more heartbeats than its window of 200 intervals holds; the "
               "same deadline (it does not depend on the uptime) and the same clauses as `completeness`"),
    Obligation("flap", cluster_strategy(crash=True, flap=True), ex_flap, {"quick": 300, "thorough": 12000},
               RULE_CLUSTER + "with loss bits; one member is down for 2-40 intervals and then restarts (start() again). Only the "
               "finality clause is judged: an observer that reported a member DEAD never reports it ALIVE/SUSPECT again (the "
               "implementation has no higher incarnation). Non-trivial = the restarted member had been declared DEAD by someone"),
    Obligation("phi", phi_strategy, ex_phi, {"quick": 3000, "thorough": 120000},
               "PhiAccrualDetector alone: generated threshold/window/min_std/initial interval, 1-31 heartbeats with gaps 1 ms-3 s, an "
               "increasing grid of 2-42 query times at or after the last heartbeat (absolute offsets and standard scores -3..45 of the detector's own window); histories of up to 30 heartbeats against windows of 1-20 and some of 200-325 regular heartbeats against the default window of 200; phi must be non-decreasing along the grid "
               "(1e-9 tolerance, inf = top); once the window is full of real intervals, mean_interval must equal the mean of the last max_sample_size intervals (1e-9 relative) and phi for a given silence must equal (1e-6 relative) that of a detector that saw only the heartbeats of the window. Non-trivial = phi actually rises on the grid and >= 2 heartbeats"),
]
