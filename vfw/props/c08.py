"""C08 — queueing pipelines never lose, duplicate, misorder or strand work.

(a) ``policy``: generated push / pop / advance-clock sequences against every queue policy.  FIFO, LIFO,
    stable priority, earliest-deadline and round-robin fair share are compared with small reference models
    (exact pop result); WeightedFair, AdaptiveLIFO, CoDel, RED and Balking are judged on the contract only:
    ``len <= capacity``, ``accepted = popped + counted drops + held`` after every operation, every accepted
    item leaves at most once, per-flow / arrival order where the policy keeps it, a final drain returns
    exactly what is held.
(b) pipelines inside a real Simulation: tagged requests enter (through 0-8 zero-delay relay hops, so that
    same-nanosecond arrivals have different causal depth) a queue-fronted component whose queue policy is
    wrapped in a recording proxy (``QueuePolicy`` is a public extension point) and whose service start / end
    is observed from a harness worker or a thin subclass.  Whenever the clock moves (end of an instant) every
    request offered so far must be in exactly one bucket {rejected-and-counted, waiting, in service,
    completed once}; in service never exceeds the limit; the clock never moves while something waits and a
    worker slot is free; the component's public counters agree with the buckets."""
from __future__ import annotations

from hypothesis import strategies as st

from ..dsl.workers import stepwise
from ..harness import TICK, SimProbe, seed_globals, ticks
from ..runner import Obligation, Result

P = "C08"
ASSUMPTIONS = [
    "times are multiples of 1/512 s; service times are scripted per request",
    "a request discarded by Server/ThreadPool after dequeue because acquire() failed is 'rejected-and-counted' (requests_rejected / tasks_rejected) by the letter of the statement: accepted by the conservation clause, only labelled",
    "DeadlineQueue drops expired items at pop time (documented); RED/Balking draw from the global random module, seeded from the case; their drop decisions are not predicted, only counted",
    "WeightedFair / AdaptiveLIFO / CoDel / RED / Balking: only contract invariants, no exact order (AdaptiveLIFO: the popped item is the oldest or the newest held one)",
    "components without a QueuePolicy (PooledCycleResource, BatchProcessor, ConveyorBelt, GateController) are judged on conservation, limit and stranding from their public counters; no order is demanded of PooledCycleResource",
    "BatchProcessor: waiting for the batch to fill (or for the time-out) is the component's purpose and is not stranding",
    "stranding is sampled when the clock moves: an item waits, a slot is free (for weighted concurrency: every queued weight fits), the component is open",
    "spin guard 8000 deliveries per instant; event budget hit = inconclusive",
]
SPIN_CAP = 8000


class Once:
    def __init__(self, r, obl, suffix=""):
        self.r, self.obl, self.seen, self.suffix = r, obl, set(), suffix

    def __call__(self, clause, detail=""):
        sig = f"{P}/{self.obl}/{clause}{self.suffix}"
        if sig not in self.seen:
            self.seen.add(sig)
            self.r.add(sig, detail)


def tk(ns):
    return f"{ns / TICK:g}tk"


# =========================================================================================== (a) policies
class It:
    __slots__ = ("id", "prio", "dl", "flow")

    def __init__(self, i, prio, dl, flow):
        self.id, self.prio, self.dl, self.flow = i, prio, dl, flow

    def __repr__(self):
        return f"#{self.id}(p{self.prio},d{self.dl},f{self.flow})"


POLICIES = ["fifo", "lifo", "priority", "deadline", "fair", "wfq", "adaptive", "codel", "red", "balking"]


def policy_strategy(tier):
    n = 60 if tier == "thorough" else 40
    op = st.one_of(
        st.tuples(st.just("push"), st.integers(0, 3), st.integers(0, 6), st.integers(0, 2)),
        st.tuples(st.just("push"), st.integers(0, 3), st.integers(0, 6), st.integers(0, 2)),
        st.tuples(st.just("pop"), st.just(0), st.just(0), st.just(0)),
        st.tuples(st.just("adv"), st.integers(0, 3), st.just(0), st.just(0)),
        st.tuples(st.just("maint"), st.integers(0, 3), st.just(0), st.just(0)),
    )
    return st.fixed_dictionaries({
        "policy": st.sampled_from(POLICIES), "cap": st.sampled_from([0, 0, 1, 2, 3, 5]), "a": st.integers(1, 4),
        "b": st.integers(1, 4), "inner": st.sampled_from(["fifo", "lifo", "priority"]), "seed": st.integers(0, 10**6),
        "ops": st.lists(op, min_size=1, max_size=n),
    })


def _mk_policy(name, cap, a, b, inner, clock):
    from happysimulator.components import queue_policies as qp
    from happysimulator.components.queue_policy import FIFOQueue, LIFOQueue, PriorityQueue
    from happysimulator.core.temporal import Instant
    inf = float("inf")
    c = cap if cap else inf
    cn = cap if cap else None
    if name == "fifo":
        return FIFOQueue(c)
    if name == "lifo":
        return LIFOQueue(c)
    if name == "priority":
        return PriorityQueue(c, key=lambda it: it.prio)
    if name == "deadline":
        return qp.DeadlineQueue(get_deadline=lambda it: Instant(it.dl * TICK), capacity=cn, clock_func=clock)
    if name == "fair":
        return qp.FairQueue(get_flow_id=lambda it: f"f{it.flow}", max_flows=(a if cap else None), per_flow_capacity=(b if cap else None))
    if name == "wfq":
        return qp.WeightedFairQueue(get_flow_id=lambda it: f"f{it.flow}", get_weight=lambda f: 1 + (int(f[1:]) * a) % 3,
                                    capacity=cn, per_flow_capacity=(b if cap else None))
    if name == "adaptive":
        return qp.AdaptiveLIFO(congestion_threshold=a, capacity=cn)
    if name == "codel":
        return qp.CoDelQueue(target_delay=ticks(a), interval=ticks(b), capacity=cn, clock_func=clock)
    if name == "red":
        return qp.REDQueue(min_threshold=a - 1, max_threshold=a + b, max_probability=0.5, capacity=(a + b + cap) if cap else None, weight=0.5)
    from happysimulator.components.industrial.balking import BalkingQueue
    innerp = {"fifo": FIFOQueue, "lifo": LIFOQueue}.get(inner)
    ip = innerp(c) if innerp else PriorityQueue(c, key=lambda it: it.prio)
    return BalkingQueue(ip, balk_threshold=a, balk_probability=[1.0, 0.5, 0.0][b % 3])


class RefPolicy:
    """Reference models with an exact pop result (fifo, lifo, priority, deadline, fair)."""

    def __init__(self, name, cap, a, b):
        self.name, self.cap, self.a, self.b = name, (cap if cap else float("inf")), a, b
        self.items = []            # (seq, item); fair: list of [flow, [items]]
        self.seq = 0
        self.bounded = bool(cap)

    def __len__(self):
        if self.name == "fair":
            return sum(len(q) for _, q in self.items)
        return len(self.items)

    def push(self, it):
        if self.name == "fair":
            fl = next((f for f in self.items if f[0] == it.flow), None)
            if fl is None:
                if self.bounded and len(self.items) >= self.a:
                    return False
                fl = [it.flow, []]
                self.items.append(fl)
            if self.bounded and len(fl[1]) >= self.b:
                return False
            fl[1].append(it)
            return True
        if len(self.items) >= self.cap:
            return False
        self.items.append((self.seq, it))
        self.seq += 1
        return True

    def purge(self, now_tk):
        """deadline only: remove exactly the expired items; -> their ids"""
        gone = [e for e in self.items if e[1].dl < now_tk]
        self.items = [e for e in self.items if e[1].dl >= now_tk]
        return [e[1].id for e in gone]

    def pop(self, now_tk):
        """-> (item | None, number of expired items dropped on the way)"""
        if self.name == "fair":
            if not self.items:
                return None, 0
            fl = self.items.pop(0)
            it = fl[1].pop(0)
            if fl[1]:
                self.items.append(fl)
            return it, 0
        if not self.items:
            return None, 0
        if self.name == "fifo":
            return self.items.pop(0)[1], 0
        if self.name == "lifo":
            return self.items.pop()[1], 0
        if self.name == "priority":
            e = min(self.items, key=lambda e: (e[1].prio, e[0]))
            self.items.remove(e)
            return e[1], 0
        dropped = 0
        while self.items:
            e = min(self.items, key=lambda e: (e[1].dl, e[0]))
            self.items.remove(e)
            if e[1].dl < now_tk:
                dropped += 1
                continue
            return e[1], dropped
        return None, dropped


def _drops(name, p):
    """Drops *after acceptance* counted by the policy itself."""
    if name == "deadline":
        return p.stats.expired
    if name == "codel":
        return p.stats.dropped
    return 0


def policy_execute(case):
    from happysimulator.core.temporal import Instant
    r = Result()
    name = case.get("policy") if case.get("policy") in POLICIES else "fifo"
    bad = Once(r, "policy")
    cap = int(case.get("cap", 0)) % 8
    a = 1 + (int(case.get("a", 1)) - 1) % 4
    b = 1 + (int(case.get("b", 1)) - 1) % 4
    seed_globals(int(case.get("seed", 0)))
    now = [0]
    p = _mk_policy(name, cap, a, b, case.get("inner"), lambda: Instant(now[0] * TICK))
    ref = RefPolicy(name, cap, a, b) if name in ("fifo", "lifo", "priority", "deadline", "fair") else None
    held = {}                  # id -> item accepted and not yet seen leaving
    order = []                 # ids accepted, in order
    acc = popped = 0
    full_seen = False
    nid = 0

    def check(where):
        n = len(p)
        if n > p.capacity:
            bad(f"holds-more-than-capacity/{name}", f"{where}: len={n} capacity={p.capacity}")
        d = _drops(name, p)
        if acc != popped + d + n:
            bad(f"enqueued-not-dequeued-plus-dropped-plus-held/{name}", f"{where}: accepted={acc} popped={popped} counted drops={d} held={n}")
        if p.is_empty() != (n == 0):
            bad(f"is-empty-disagrees-with-len/{name}", f"{where}: is_empty={p.is_empty()} len={n}")
        s = getattr(p, "stats", None)
        if s is not None and name not in ("balking",):
            enq = getattr(s, "enqueued", None)
            deq = (s.dequeued_fifo + s.dequeued_lifo) if name == "adaptive" else getattr(s, "dequeued", None)
            if enq is not None and enq != acc:
                bad(f"stats-enqueued-wrong/{name}", f"{where}: stats.enqueued={enq} accepted={acc}")
            if deq is not None and deq != popped:
                bad(f"stats-dequeued-wrong/{name}", f"{where}: stats.dequeued={deq} popped={popped}")

    # ---- every public attribute of the policy class is either part of the QueuePolicy interface, an observer that is
    # compared with the harness's own bookkeeping below, or a maintenance method exercised by the "maint" op; anything
    # else (a method added later) is reported as a label so that it cannot silently stay unexercised
    INTERFACE = {"capacity", "push", "pop", "peek", "is_empty"}
    OBSERVERS = {"stats", "count_expired", "count_valid", "flow_count", "get_flow_depth", "get_flow_weight", "max_flows",
                 "per_flow_capacity", "congestion_threshold", "is_congested", "mode", "dropping", "interval", "target_delay",
                 "avg_queue_length", "max_probability", "max_threshold", "min_threshold", "inner", "balk_threshold",
                 "balk_probability", "balked"}
    MAINTENANCE = {"purge_expired", "set_clock"}
    for attr in dir(type(p)):
        if not attr.startswith("_") and attr not in INTERFACE | OBSERVERS | MAINTENANCE:
            r.labels.append(f"unexercised-public-method:{type(p).__name__}.{attr}")

    def observers(where):
        n0 = len(p)
        alive = [held[i] for i in order if i in held]
        pk = p.peek()
        if len(p) != n0:
            bad(f"observer-changes-queue/{name}", f"{where}: peek() changed len {n0} -> {len(p)}")
        if pk is not None and not isinstance(pk, It):
            bad(f"peek-returns-foreign-object/{name}", f"{where}: {pk!r}")
        if name == "deadline":
            exp_ = sum(1 for it in alive if it.dl < now[0])
            if p.count_expired() != exp_ or p.count_valid() != len(p) - exp_:
                bad(f"expired-count-wrong/{name}", f"{where}: count_expired={p.count_expired()} count_valid={p.count_valid()} "
                    f"len={len(p)}, held with deadline < now: {exp_}")
        if name in ("fair", "wfq"):
            flows = {}
            for it in alive:
                flows[it.flow] = flows.get(it.flow, 0) + 1
            for f in range(3):
                if p.get_flow_depth(f"f{f}") != flows.get(f, 0):
                    bad(f"flow-depth-wrong/{name}", f"{where}: get_flow_depth(f{f})={p.get_flow_depth(f'f{f}')} held {flows.get(f, 0)}")
            if p.flow_count != len(flows):
                bad(f"flow-depth-wrong/{name}", f"{where}: flow_count={p.flow_count} flows holding items {sorted(flows)}")
            if name == "wfq" and any(p.get_flow_weight(f"f{f}") < 1 for f in range(3)):
                bad(f"flow-weight-below-one/{name}", where)
        if name == "adaptive" and (p.is_congested != (len(p) >= p.congestion_threshold) or p.mode != ("LIFO" if p.is_congested else "FIFO")):
            bad(f"mode-disagrees-with-depth/{name}", f"{where}: len={len(p)} threshold={p.congestion_threshold} mode={p.mode}")
        if len(p) != n0:
            bad(f"observer-changes-queue/{name}", f"{where}: observers changed len {n0} -> {len(p)}")

    def maintenance(x):
        """Call the policy's public maintenance methods (today: DeadlineQueue.purge_expired / set_clock)."""
        if name == "deadline":
            if x % 4 == 3:
                p.set_clock(lambda: Instant(now[0] * TICK))          # same clock again: must change nothing
            e0 = p.stats.expired
            n = p.purge_expired()
            gone = ref.purge(now[0])
            if n != len(gone) or p.stats.expired - e0 != len(gone):
                bad(f"purge-count-wrong/{name}", f"purge_expired() -> {n}, stats.expired +{p.stats.expired - e0}, "
                    f"expired items held: {gone} (now={now[0]}tk)")
            for i in gone:
                held.pop(i, None)
            if gone:
                r.labels.append("purged")
        elif name == "codel":
            p.set_clock(lambda: Instant(now[0] * TICK))

    def on_pop(it, where, exp=None):
        nonlocal popped
        if it is None:
            return
        popped += 1
        if it.id not in held:
            bad(f"item-left-twice-or-never-accepted/{name}", f"{where}: pop returned {it!r}")
            return
        # items the policy dropped silently can only be discovered through its counters; order clauses:
        alive = [i for i in order if i in held]
        if name in ("codel", "red") or (name == "balking" and case.get("inner") == "fifo"):
            older = [i for i in alive if i < it.id]
            if name == "codel":
                for i in older:            # CoDel drops from the head: everything older is gone
                    held.pop(i, None)
            elif older:
                bad(f"order/{name}", f"{where}: {it!r} left before older {older[:3]}")
        if name in ("wfq", "fair"):
            older = [i for i in alive if i < it.id and held[i].flow == it.flow]
            if older:
                bad(f"per-flow-order/{name}", f"{where}: {it!r} left before older items of its flow {older[:3]}")
        if name == "adaptive" and alive and it.id not in (alive[0], alive[-1]):
            bad(f"order/{name}", f"{where}: {it!r} is neither the oldest nor the newest of {alive[:6]}")
        held.pop(it.id, None)

    for o in (case.get("ops") or [])[:80]:
        try:
            kind, x, y, z = o[0], int(o[1]), int(o[2]), int(o[3])
        except (TypeError, ValueError, IndexError):
            continue
        if kind == "adv":
            now[0] += x
        elif kind == "maint":
            maintenance(x)
            check("after maintenance")
        elif kind == "push":
            it = It(nid, x % 4, now[0] + y % 7 - 2, z % 3)
            nid += 1
            n0 = len(p)
            ok = p.push(it)
            if ok:
                acc += 1
                held[it.id] = it
                order.append(it.id)
            else:
                full_seen = True
            if ref is not None:
                want = ref.push(it)
                if want != ok:
                    bad(f"push-result-differs-from-reference/{name}", f"push({it!r}) -> {ok}, reference {want}; len before {n0} capacity {p.capacity}")
                    if ok:
                        ref.items.append((ref.seq, it)) if name != "fair" else None
                    return _fin(r, name, full_seen, acc)
            elif not ok and name in ("wfq", "adaptive", "codel") and n0 < p.capacity and not (name == "wfq" and cap):
                bad(f"push-refused-below-capacity/{name}", f"push({it!r}) refused with len={n0} capacity={p.capacity}")
            check(f"after push #{it.id}")
        elif kind == "pop":
            n0 = len(p)
            got = p.pop()
            if ref is not None:
                want, dropped = ref.pop(now[0])
                if (got.id if got else None) != (want.id if want else None):
                    bad(f"order/{name}", f"pop() -> {got!r}, reference {want!r} (held {sorted(held)[:8]}, now={now[0]}tk)")
                    return _fin(r, name, full_seen, acc)
                if name == "deadline":
                    for i in [i for i in list(held) if held[i].dl < now[0] and (want is None or (held[i].dl, i) < (want.dl, want.id))]:
                        held.pop(i)
            elif got is None and n0 > 0:
                bad(f"pop-none-while-holding/{name}", f"pop() -> None with len={n0}")
            on_pop(got, "pop")
            if name == "codel":            # drops after the pop are visible only in the counter; resync by length
                while len(held) > len(p):
                    held.pop(min(held))
            check("after pop")
        observers(f"after {kind}")
    # final drain
    aborted = False
    for _ in range(len(p) + 2):
        got = p.pop()
        if got is None:
            break
        if ref is not None:
            want, _d = ref.pop(now[0])
            if (want.id if want else None) != got.id:
                bad(f"order/{name}", f"drain pop() -> {got!r}, reference {want!r}")
                aborted = True          # reference and policy diverged: the remaining drain clauses would only echo this
                break
        on_pop(got, "drain")
        if name == "codel":
            while len(held) > len(p):
                held.pop(min(held))
    if aborted:
        return _fin(r, name, full_seen, acc)
    check("after drain")
    if len(p) != 0 and name != "deadline":
        bad(f"drain-leaves-items/{name}", f"len={len(p)} after popping until None")
    left = [i for i in held if not (name == "deadline" and held[i].dl < now[0])]
    if left and name not in ("codel",):
        bad(f"accepted-item-never-left/{name}", f"accepted items {left[:5]} were neither popped nor counted as dropped")
    return _fin(r, name, full_seen, acc)


def _fin(r, name, full_seen, acc):
    r.labels.append(name)
    r.nontrivial = acc >= 3
    if full_seen:
        r.labels.append("refused-push")
    return r


# =========================================================================================== (b) pipelines
def _rec_policy(inner, T):
    """Recording proxy around a real policy (QueuePolicy is a public extension point)."""
    from happysimulator.components.queue_policy import QueuePolicy

    class Rec(QueuePolicy):
        @property
        def capacity(self):
            return inner.capacity

        def push(self, item):
            ok = inner.push(item)
            T.pushed(item, ok)
            return ok

        def pop(self):
            st0 = getattr(inner, "stats", None)
            e0 = getattr(st0, "expired", 0)
            it = inner.pop()
            dropped = getattr(getattr(inner, "stats", None), "expired", 0) - e0
            if dropped:
                T.expired_at_pop(dropped)         # DeadlineQueue discards expired entries on its way to a live one
            if it is not None:
                T.popped(it)
            return it

        def peek(self):
            return inner.peek()

        def is_empty(self):
            return inner.is_empty()

        def __len__(self):
            return len(inner)
    return Rec()


class Track:
    """Per-request state from harness observations; judged at the end of every instant."""

    def __init__(self, bad, now):
        self.bad, self.now = bad, now
        self.st = {}             # rid -> dict
        self.pop_order = []
        self.push_order = []
        self.max_in = 0
        self.labels = set()
        self.yes = 0             # has_capacity() calls answered True (every poll needs one)
        self.pops = 0

    def answered(self, ok):
        if ok:
            self.yes += 1
        return ok

    def s(self, rid):
        return self.st.setdefault(rid, {"push": None, "pop": 0, "recv": 0, "start": 0, "rej": 0, "fin": 0, "sink": 0, "reneged": 0})

    def rid(self, ev):
        return ev.context.get("rid")

    def pushed(self, ev, ok):
        s = self.s(self.rid(ev))
        if s["push"] is not None:
            self.bad("duplicated/offered-to-queue-twice", f"request {self.rid(ev)} pushed again at {tk(self.now())}")
        s["push"] = ok
        s["w"] = ev.context.get("metadata", {}).get("weight", 1)
        s["prio"] = ev.context.get("prio", 0)
        s["dl"] = ev.context.get("dl")
        if ok:
            self.push_order.append(self.rid(ev))

    def popped(self, ev):
        s = self.s(self.rid(ev))
        s["pop"] += 1
        self.pops += 1
        s["unchecked"] = self.pops > self.yes       # dequeued although nobody was told "there is capacity"
        self.pop_order.append(self.rid(ev))
        if s["pop"] > 1:
            self.bad("duplicated/dequeued-twice", f"request {self.rid(ev)} at {tk(self.now())}")

    def expired_at_pop(self, n):
        """The policy counted n expired entries: they are the n earliest-deadline waiting requests, all past their deadline."""
        now = self.now()
        waiting = sorted((s["dl"], self.push_order.index(q), q) for q, s in self.st.items()
                         if s["push"] and not s["pop"] and not s.get("expired") and s.get("dl") is not None)
        for dl, _, q in waiting[:n]:
            self.st[q]["expired"] = True
            self.labels.add("expired-in-queue")
            if dl >= now:
                self.bad("lost/live-request-dropped-as-expired", f"request {q} (deadline {tk(dl)}) dropped at {tk(now)}")
        if len(waiting) < n:
            self.bad("counter-mismatch/expired", f"policy counted {n} expired entries at {tk(now)}, only {len(waiting)} requests waiting")

    def buckets(self, upto):
        b = {"dropped": [], "waiting": [], "transit": [], "service": [], "rejected": [], "done": [], "lost": [], "reneged": [],
             "expired": []}
        for rid in upto:
            s = self.st.get(rid)
            if s is None or s["push"] is None:
                b["lost"].append(rid)
            elif s["push"] is False:
                b["dropped"].append(rid)
            elif s.get("expired"):
                b["expired"].append(rid)
            elif not s["pop"]:
                b["waiting"].append(rid)
            elif not s["recv"]:
                b["transit"].append(rid)
            elif s["reneged"]:
                b["reneged"].append(rid)
            elif s["rej"]:
                b["rejected"].append(rid)
            elif s["fin"]:
                b["done"].append(rid)
            elif s["start"]:
                b["service"].append(rid)
            else:
                b["transit"].append(rid)
        return b


QTARGETS = ["qd", "qr", "server", "server", "threadpool", "reneging"]
MAX_HOPS = 8
# same-nanosecond arrivals through 0-8 zero-delay relay hops; `twin` = h adds a second request on the same instant that
# travels h hops (pairs {direct, 5-8 hops} are far apart in scheduler steps: the first one's wake-up / poll / delivery /
# re-check chain has run dry before the second is enqueued)
HOPS = st.sampled_from([0, 0, 0, 0, 1, 1, 2, 3, 4, 5, 6, 7, 8])
TWIN = st.sampled_from([0, 0, 0, 0, 5, 6, 7, 8])


def expand_arrivals(arrivals, cap=20):
    """-> list of (arrival dict, index of the arrival whose instant it shares)"""
    out = []
    for a in arrivals:
        if not isinstance(a, dict):
            continue
        first = len(out)
        out.append((a, first))
        tw = int(a.get("twin", 0) or 0) % (MAX_HOPS + 1)
        if tw:
            out.append((dict(a, hops=tw, twin=0), first))
    return out[:cap]


def relay_chain(entry, Relay):
    chain = [entry]
    for i in range(1, MAX_HOPS + 1):
        chain.append(Relay(f"r{i}", chain[-1]))
    return chain


def pipeline_strategy(kinds, safe=False, no_setlimit=False):
    def s(tier):
        big = tier == "thorough"
        arr = st.fixed_dictionaries({"t": st.sampled_from([0, 0, 0, 1, 2, 2, 3, 4, 6, 12, 20]), "hops": HOPS, "twin": TWIN,
                                     "prio": st.integers(0, 2), "w": st.integers(1, 3), "pat": st.sampled_from([0, 1, 2, 9])})
        return st.fixed_dictionaries({
            "target": st.sampled_from(kinds), "limit": st.just(1) if safe else st.sampled_from([1, 1, 2, 3]),
            "qcap": st.sampled_from([0, 0, 1, 2, 3]), "policy": st.sampled_from(["fifo", "fifo", "lifo", "priority", "deadline"]),
            "conc": st.sampled_from(["fixed", "fixed", "dynamic", "weighted"]),
            "svc": st.one_of(st.just([0]), st.lists(st.sampled_from([0, 1, 1, 2, 3, 4]), min_size=1, max_size=5),
                             st.lists(st.sampled_from([0, 1, 1, 2, 3, 4]), min_size=1, max_size=5)),
            "setlim": st.lists(st.tuples(st.sampled_from([1, 2, 3, 5, 7]), st.integers(1, 4)), max_size=0 if (safe or no_setlimit) else 2),
            "chain": st.booleans(), "discard": st.booleans(), "tagw": st.booleans(), "auto": st.booleans(), "instant": st.sampled_from([False, False, True]),
            "defpat": st.sampled_from([0, 0, 1, 2, 3]),
            "arrivals": st.lists(arr, min_size=1, max_size=14 if big else 10),
            "spread": st.just(True) if safe else st.just(False),
        })
    return s


def pipeline_execute(obl, safe=False, no_setlimit=False):
    def execute(case):
        if no_setlimit:
            case = dict(case, setlim=[])         # restricted domain: the limit never changes during the run
        from happysimulator import Entity, Event, Instant, Simulation
        from happysimulator.components.queue import Queue
        from happysimulator.components.queue_driver import QueueDriver
        from happysimulator.components.queue_policy import FIFOQueue, LIFOQueue, PriorityQueue
        from happysimulator.components.queued_resource import QueuedResource
        r = Result()
        kind = case.get("target") if case.get("target") in set(QTARGETS) else "qd"
        bad = Once(r, obl, "/" + kind)
        limit = 1 + (int(case.get("limit", 1)) - 1) % 3
        qcap = int(case.get("qcap", 0)) % 4
        svc = [int(x) % 8 for x in (case.get("svc") or [1])] or [1]
        pol = case.get("policy") if case.get("policy") in ("fifo", "lifo", "priority", "deadline") else "fifo"
        conc = case.get("conc") if (case.get("conc") in ("fixed", "dynamic", "weighted") and kind == "server") else "fixed"
        expanded = expand_arrivals((case.get("arrivals") or [])[:16])
        arrivals = [a for a, _ in expanded]
        if safe:
            # restricted domain: one worker slot; arrival i is shifted by i nanoseconds, so arrivals share an instant only
            # as generated {direct, far-relay} twins and (service times being whole ticks) no arrival coincides with the
            # completion of another request
            limit = 1
        auto = bool(case.get("auto"))
        instant = bool(case.get("instant"))
        clock = [None]
        now = lambda: clock[0].now.nanoseconds          # noqa: E731
        T = Track(bad, now)
        cap = qcap if qcap else float("inf")
        inner = {"fifo": FIFOQueue, "lifo": LIFOQueue}.get(pol)
        if pol == "deadline":
            from happysimulator.components.queue_policies import DeadlineQueue
            # the library never calls purge_expired() itself; expiry happens inside pop() once the clock has passed a deadline
            inner = DeadlineQueue(get_deadline=lambda e: Instant(e.context["dl"]), capacity=(qcap or None),
                                  clock_func=lambda: clock[0].now)
        else:
            inner = inner(cap) if inner else PriorityQueue(cap, key=lambda e: e.context.get("prio", 0))
        rec = _rec_policy(inner, T)
        in_service = []
        S = {"limit": limit, "weights": conc == "weighted", "rej_counter": lambda: 0, "chain": None}

        def svc_of(rid):
            return ticks(svc[rid % len(svc)])

        class Sink(Entity):
            def handle_event(self, event):
                rid = event.context.get("rid")
                s = T.s(rid)
                if event.event_type == "Reneged":
                    s["reneged_sink"] = s.get("reneged_sink", 0) + 1
                    return None
                s["sink"] += 1
                s["sink_t"] = self.now.nanoseconds
                s["sink_seq"] = S["sink_n"] = S.get("sink_n", 0) + 1
                if s["sink"] > 1:
                    bad("duplicated/completed-twice", f"request {rid} reached the sink {s['sink']}x at {tk(self.now.nanoseconds)}")
                return None

        sink = Sink("sink")
        ents = [sink]

        def begin(rid, w=1):
            s = T.s(rid)
            s["start"] += 1
            s["start_t"] = now()
            in_service.append((rid, w))
            used = sum(x[1] for x in in_service)
            T.max_in = max(T.max_in, used)
            lim = cur_limit()
            if used > lim:
                T.labels.add("over-limit")
                clause = "over-limit/" + ("polled-without-capacity-answer" if s.get("unchecked") else "capacity-answer-stale-at-dequeue")
                bad(clause, f"at {tk(now())} in service {in_service} limit {lim}; request {rid} was dequeued with "
                    f"{s.get('service_at_pop')} in service and {s.get('transit_at_pop')} more on their way to the worker "
                    f"(has_capacity() said yes {T.yes}x, {T.pops} dequeues)")

        def end(rid):
            s = T.s(rid)
            s["fin"] += 1
            s["fin_seq"] = S["fin_n"] = S.get("fin_n", 0) + 1
            for x in list(in_service):
                if x[0] == rid:
                    in_service.remove(x)
                    break

        def recv(rid):
            s = T.s(rid)
            s["recv"] += 1
            if s["recv"] > 1:
                bad("duplicated/delivered-to-worker-twice", f"request {rid} at {tk(now())}")

        # note the situation at dequeue time (root-cause classification of an over-limit)
        orig_popped = T.popped

        def popped(ev):
            orig_popped(ev)
            s = T.s(T.rid(ev))
            s["service_at_pop"] = sum(x[1] for x in in_service)
            s["transit_at_pop"] = sum(1 for q, x in T.st.items() if x["pop"] and not x["recv"] and q != T.rid(ev))
        T.popped = popped

        if kind == "qd":
            class Worker(Entity):
                def has_capacity(self):
                    return T.answered(sum(x[1] for x in in_service) < limit)

                def handle_event(self, event):
                    rid = event.context["rid"]
                    recv(rid)
                    begin(rid)
                    if instant:                       # work that completes at once: a plain (non-generator) handler that
                        end(rid)                      # emits nothing (no downstream event keeps the run alive)
                        return None
                    return self._serve(event, rid)

                def _serve(self, event, rid):
                    try:
                        yield svc_of(rid)
                    finally:
                        end(rid)
                    return [Event(time=self.now, event_type="Done", target=sink, context=event.context)]
            wk = Worker("worker")
            q = Queue(name="q", egress=None, policy=rec)
            drv = QueueDriver(name="drv", queue=q, target=wk)
            q.egress = drv
            comp, entry = q, q
            ents += [q, drv, wk]
            depth = lambda: q.depth                       # noqa: E731
            dropped = lambda: q.stats_dropped             # noqa: E731
            cur_limit = lambda: limit                     # noqa: E731
        elif kind in ("qr", "reneging"):
            if kind == "qr":
                class MyServer(QueuedResource):           # the CLAUDE.md pattern
                    def __init__(self, name, downstream, concurrency):
                        super().__init__(name, policy=rec)
                        self.downstream, self.concurrency, self._in_flight = downstream, concurrency, 0

                    def has_capacity(self):
                        return T.answered(self._in_flight < self.concurrency)

                    def handle_queued_event(self, event):
                        rid = event.context["rid"]
                        recv(rid)
                        self._in_flight += 1
                        begin(rid)
                        if instant:                   # non-generator handler: done within the delivery itself, emits nothing
                            self._in_flight -= 1
                            end(rid)
                            return None
                        return self._serve(event, rid)

                    def _serve(self, event, rid):
                        try:
                            yield svc_of(rid)
                        finally:
                            self._in_flight -= 1
                            end(rid)
                        return [Event(time=self.now, event_type="Done", target=self.downstream, context=event.context)]
                comp = MyServer("srv", sink, limit)
            else:
                from happysimulator.components.industrial.reneging import RenegingQueuedResource

                # discard mode (reneged_target=None, documented) or a reneged-sink; patience from the event context or from
                # default_patience_s
                discard = bool(case.get("discard"))
                defpat = int(case.get("defpat", 0) or 0) % 4

                class RS(RenegingQueuedResource):
                    def __init__(self):
                        super().__init__("srv", reneged_target=(None if discard else sink), policy=rec,
                                         default_patience_s=(ticks(defpat - 1) if defpat else float("inf")))
                        self._in_flight = 0

                    def has_capacity(self):
                        return T.answered(self._in_flight < limit)

                    def handle_queued_event(self, event):
                        rid = event.context["rid"]
                        recv(rid)
                        n0 = self.reneged
                        res = super().handle_queued_event(event)
                        if self.reneged > n0:
                            T.s(rid)["reneged"] += 1
                            T.labels.add("reneged-discarded" if discard else "reneged")
                        return res

                    def _handle_served_event(self, event):
                        rid = event.context["rid"]
                        if T.s(rid)["reneged"]:
                            bad("duplicated/reneged-and-served", f"at {tk(now())} request {rid} was counted as reneged "
                                f"(reneged={self.reneged}) and is served as well (reneged_target={'None' if discard else 'sink'})")
                        self._in_flight += 1
                        begin(rid)
                        try:
                            yield svc_of(rid)
                        finally:
                            self._in_flight -= 1
                            end(rid)
                        return [Event(time=self.now, event_type="Done", target=sink, context=event.context)]
                comp = RS()
            entry = comp
            ents += [comp]
            depth = lambda: comp.depth                    # noqa: E731
            dropped = lambda: comp.stats_dropped          # noqa: E731
            cur_limit = lambda: limit                     # noqa: E731
            if comp.queue.policy is not rec:
                if pol != "fifo" or cap != comp.queue.policy.capacity or type(comp.queue.policy).__name__ != "FIFOQueue":
                    bad("configured-policy-ignored", f"{type(comp).__mro__[1].__name__}(policy=<{pol}, capacity {cap}>) uses "
                        f"{type(comp.queue.policy).__name__}(capacity={comp.queue.policy.capacity}) instead")
                comp.queue.policy = rec      # keep judging the other clauses with the configuration that was asked for
        else:
            from ..harness import scripted_latency
            if kind == "server":
                from happysimulator.components.server.concurrency import DynamicConcurrency, WeightedConcurrency
                from happysimulator.components.server.server import Server as Base
                cm = limit if conc == "fixed" else (DynamicConcurrency(limit, min_limit=1, max_limit=None) if conc == "dynamic"
                                                    else WeightedConcurrency(limit))

                class Srv(Base):
                    def has_capacity(self, weight=1):
                        return T.answered(super().has_capacity(weight))

                    def handle_queued_event(self, event):
                        rid = event.context["rid"]
                        recv(rid)
                        rj0 = self.stats.requests_rejected
                        w = event.context.get("metadata", {}).get("weight", 1) if conc == "weighted" else 1

                        def first():
                            if self.stats.requests_rejected > rj0:
                                T.s(rid)["rej"] += 1
                                T.labels.add("rejected-after-dequeue")
                            else:
                                begin(rid, w)
                        res = yield from stepwise(super().handle_queued_event(event), first)
                        if not T.s(rid)["rej"]:
                            end(rid)
                        return res
                # every request draws its own scripted service time in start order
                lat = scripted_latency([ticks(x) for x in (svc * 8)[:40]], ticks(svc[0]), seed=1)
                down = sink
                if case.get("chain"):
                    # a second stage (documented QueuedResource pattern, two slots) between the server and the sink
                    st2 = {"in": 0, "recv": 0}

                    class Stage2(QueuedResource):
                        def has_capacity(self):
                            return st2["in"] < 2

                        def handle_queued_event(self, event):
                            st2["in"] += 1
                            st2["recv"] += 1
                            if st2["in"] > 2:
                                T.labels.add("stage2-over-limit")     # same driver defect, judged in stage 1 / qd
                            try:
                                yield ticks(1 + event.context["rid"] % 2)
                            finally:
                                st2["in"] -= 1
                            return [Event(time=self.now, event_type="Done", target=sink, context=event.context)]
                    down = Stage2("stage2")
                    ents.append(down)
                    S["chain"] = (down, st2)
                    T.labels.add("chained")
                comp = Srv("srv", concurrency=cm, service_time=lat, queue_policy=rec, downstream=down)
                S["rej_counter"] = lambda: comp.stats.requests_rejected
                cur_limit = lambda: comp.concurrency         # noqa: E731
            else:
                from happysimulator.components.server.thread_pool import ThreadPool

                class TP(ThreadPool):
                    def has_capacity(self):
                        return T.answered(super().has_capacity())

                    def handle_queued_event(self, event):
                        rid = event.context["rid"]
                        recv(rid)
                        rj0 = self.stats.tasks_rejected

                        def first():
                            if self.stats.tasks_rejected > rj0:
                                T.s(rid)["rej"] += 1
                                T.labels.add("rejected-after-dequeue")
                            else:
                                begin(rid)
                        yield from stepwise(super().handle_queued_event(event), first)
                        if not T.s(rid)["rej"]:
                            end(rid)
                            return [Event(time=self.now, event_type="Done", target=sink, context=event.context)]
                        return None
                comp = TP("srv", limit, queue_policy=rec, processing_time_extractor=lambda e: svc_of(e.context["rid"]))
                S["rej_counter"] = lambda: comp.stats.tasks_rejected
                cur_limit = lambda: limit                     # noqa: E731
            entry = comp
            ents += [comp]
            depth = lambda: comp.depth                    # noqa: E731
            dropped = lambda: comp.stats_dropped          # noqa: E731

        class Relay(Entity):
            def __init__(self, name, nxt):
                super().__init__(name)
                self.nxt = nxt

            def handle_event(self, event):
                return [Event(time=self.now, event_type=event.event_type, target=self.nxt, context=event.context)]
        chain = relay_chain(entry, Relay)
        ents += chain[1:]

        class Ctl(Entity):
            def handle_event(self, event):
                old = comp.concurrency
                comp.concurrency_model.set_limit(event.context["n"])
                T.labels.add("limit-changed")
                # lowest limit in force since the queue was last empty: a slot above it is free only thanks to set_limit()
                S["low"] = min(x for x in (S.get("low"), old, comp.concurrency) if x is not None)
                return None
        ctl = Ctl("ctl")
        ents.append(ctl)

        # `auto`: no end_time and no keep-alive event - the run auto-terminates when only daemon events are left, so
        # component-internal housekeeping events must not be what the remaining work depends on
        sim = Simulation(entities=ents) if auto else Simulation(entities=ents, end_time=Instant(2000 * TICK))
        clock[0] = sim._clock
        arr_t = {}
        for rid, a in enumerate(arrivals):
            t = int(a.get("t", 0)) % 64
            at = t * TICK + (expanded[rid][1] if safe else 0)
            arr_t[rid] = at
            pat_ = int(a.get("pat", 9)) % 10
            ctx = {"rid": rid, "prio": int(a.get("prio", 0)) % 3, "dl": at + (pat_ + 1 if pat_ < 9 else 5000) * TICK}
            if conc == "weighted":
                ctx["metadata"] = {"weight": 1 + (int(a.get("w", 1)) - 1) % limit}
            elif kind == "server" and case.get("tagw"):
                # requests still carry the weight tag of an upstream weighted stage; Fixed/Dynamic concurrency document the
                # weight as ignored: every request occupies exactly one slot
                ctx["metadata"] = {"weight": 1 + (int(a.get("w", 1)) - 1) % 3}
            if kind == "reneging":
                ctx["created_at"] = Instant(at)
                pat = int(a.get("pat", 9)) % 10
                if not (int(case.get("defpat", 0) or 0) % 4 and pat % 2):       # otherwise default_patience_s applies
                    ctx["patience_s"] = ticks(pat) if pat < 9 else float("inf")
            sim.schedule(Event(time=Instant(at), event_type="req", target=chain[int(a.get("hops", 0)) % (MAX_HOPS + 1)], context=ctx))
        if kind == "server" and conc == "dynamic":
            for t, n in (case.get("setlim") or [])[:3]:
                sim.schedule(Event(time=Instant((int(t) % 16) * TICK), event_type="set", target=ctl, context={"n": 1 + (int(n) - 1) % 4}))

        def quiescent(t_ns, final=False):
            upto = [rid for rid, t in arr_t.items() if t <= t_ns]
            b = T.buckets(upto)
            if b["lost"]:
                bad("lost/never-reached-the-queue", f"end of instant {tk(t_ns)}: requests {b['lost']} were offered but never pushed")
            if b["transit"]:
                bad("lost/between-queue-and-worker", f"end of instant {tk(t_ns)}: requests {b['transit']} left the queue but never reached the worker")
            if depth() != len(b["waiting"]):
                bad("counter-mismatch/depth", f"end of instant {tk(t_ns)}: depth={depth()} but waiting per trace {b['waiting']}")
            if dropped() != len(b["dropped"]):
                bad("counter-mismatch/dropped", f"end of instant {tk(t_ns)}: stats_dropped={dropped()} but refused pushes {b['dropped']}")
            if kind == "reneging" and comp.reneged != len(b["reneged"]):
                bad("counter-mismatch/reneged", f"end of instant {tk(t_ns)}: reneged={comp.reneged} trace {b['reneged']}")
            if kind == "reneging":
                started = sum(1 for q in upto if T.st.get(q) and T.st[q]["start"])
                if comp.served != started or comp.served + comp.reneged != sum(1 for q in upto if T.st.get(q) and T.st[q]["recv"]):
                    bad("counter-mismatch/served-plus-reneged", f"end of instant {tk(t_ns)}: served={comp.served} reneged={comp.reneged}, "
                        f"{started} requests started service, "
                        f"{sum(1 for q in upto if T.st.get(q) and T.st[q]['recv'])} left the queue")
                for q in b["reneged"]:
                    if T.st[q]["sink"] or T.st[q]["start"]:
                        bad("duplicated/reneged-and-served", f"request {q} reneged but was served / reached the sink")
            if pol == "deadline" and inner.stats.expired != len(b["expired"]):
                bad("counter-mismatch/expired", f"end of instant {tk(t_ns)}: stats.expired={inner.stats.expired} trace {b['expired']}")
            if S["rej_counter"]() != len(b["rejected"]):
                bad("counter-mismatch/rejected", f"end of instant {tk(t_ns)}: rejected counter={S['rej_counter']()} trace {b['rejected']}")
            for rid in b["done"]:
                if S["chain"] and not final:
                    continue            # still travelling through the second stage
                if instant and kind in ("qd", "qr"):
                    continue            # instant workers have no downstream: completion is the end of the handler
                if T.st[rid]["sink"] != 1:
                    bad("lost/completed-but-not-at-sink" if T.st[rid]["sink"] == 0 else "duplicated/completed-twice",
                        f"request {rid} finished service, sink saw it {T.st[rid]['sink']}x")
            for rid in upto:
                s = T.st.get(rid)
                if s and s["sink"] and not s["fin"]:
                    bad("duplicated/at-sink-while-not-finished", f"request {rid}")
            used = sum(x[1] for x in in_service)
            lim = cur_limit()
            if not b["waiting"]:
                S["low"] = None
            if b["waiting"] and not final:
                wmax = max(T.st[q].get("w", 1) for q in b["waiting"]) if S["weights"] else 1
                if used + wmax <= lim:
                    if S.get("low") is not None and used + wmax > S["low"]:
                        clause = "stranded/after-limit-raised"      # the slot is free only because set_limit() raised the limit
                    else:
                        clause = "stranded/single-slot" if lim == 1 else "stranded/free-slot-not-polled"
                    bad(clause, f"clock leaves {tk(t_ns)} with waiting {b['waiting']} and {used}/{lim} in service")
            return b

        probe = SimProbe(sim, max_per_instant=SPIN_CAP, max_events=200000, log=False,
                         on_advance=lambda t: quiescent(probe._at if probe._at is not None else 0))
        status = probe.run()
        if status == "spin":
            bad("spin", f"> {SPIN_CAP} deliveries at {tk(probe.spin_at)}")
        elif status == "budget":
            r._inconclusive = True
            r.labels.append("inconclusive-budget")
        else:
            b = quiescent(now(), final=True)
            if b["waiting"] or b["service"]:
                bad("stranded/left-at-end", f"run ended at {tk(now())} with waiting {b['waiting']} in service {b['service']}")
            if S["chain"]:
                st2c, st2 = S["chain"]
                if st2c.depth or st2["in"] or st2c.stats_dropped or st2["recv"] != len(b["done"]):
                    bad("lost/in-second-stage", f"stage 2 received {st2['recv']} of {len(b['done'])} completed requests; "
                        f"depth={st2c.depth} in service={st2['in']} dropped={st2c.stats_dropped} at the end")
            # order the policy defines, from the recorded push/pop sequence is checked by the policy obligation;
            # here: FIFO + single slot => completion order = admission order
            # (meaningless once two requests were in service together: that is the over-limit clause's business)
            if pol == "fifo" and limit == 1 and conc == "fixed" and kind != "reneging" and "over-limit" not in T.labels:
                done = sorted((T.st[q]["fin_seq"], q) for q in b["done"])
                seq = [q for _, q in done]
                adm = [q for q in T.push_order if q in set(seq)]
                if seq != adm:
                    bad("misordered/fifo-single-slot", f"completion order {seq} admission order {adm}")
        same = len({a_t for a_t in arr_t.values()}) < len(arr_t)
        hops = {int(a.get("hops", 0)) % (MAX_HOPS + 1) for a in arrivals}
        if any(abs(int(a.get("hops", 0)) % (MAX_HOPS + 1) - int(b.get("hops", 0)) % (MAX_HOPS + 1)) >= 5
               for i, a in enumerate(arrivals) for j, b in enumerate(arrivals) if i < j and arr_t[i] == arr_t[j]):
            r.labels.append("same-instant-hop-gap>=5")
        fin_t = {s.get("sink_t") for s in T.st.values() if s.get("sink_t") is not None}
        r.nontrivial = (same and len(hops) > 1) or bool(fin_t & set(arr_t.values())) or "limit-changed" in T.labels
        r.labels += [kind] + sorted(T.labels) + (["auto-terminating"] if auto else []) + (["instant-worker"] if instant and kind in ("qd", "qr") else [])
        if bool(fin_t & set(arr_t.values())):
            r.labels.append("arrival-on-completion-instant")
        return r
    return execute


# =========================================================================================== industrial variants
def industrial_strategy(tier):
    big = tier == "thorough"
    arr = st.fixed_dictionaries({"t": st.sampled_from([0, 0, 0, 1, 2, 2, 3, 4, 6, 9, 14]), "hops": HOPS, "twin": TWIN})
    return st.fixed_dictionaries({
        "target": st.sampled_from(["shifted", "shifted", "pooled", "pooled", "batch", "conveyor", "gate"]),
        "n": st.integers(1, 3), "qcap": st.sampled_from([0, 0, 1, 2]), "svc": st.sampled_from([0, 1, 2, 3]),
        "tmo": st.sampled_from([0, 1, 3, 5]),
        # gap 0 = back-to-back windows (close of one and open of the next on the same instant)
        "windows": st.lists(st.tuples(st.sampled_from([0, 0, 0, 1, 2, 3, 5, 8]), st.integers(1, 5), st.integers(0, 3)), min_size=1, max_size=3),
        "default": st.integers(0, 2), "open": st.booleans(),
        # a burst of extra direct arrivals on one instant (backlog behind several units that then finish together)
        "burst": st.sampled_from([0, 0, 3, 5, 7, 9]), "burst_t": st.sampled_from([0, 0, 1, 2]),
        "arrivals": st.lists(arr, min_size=1, max_size=14 if big else 10),
    })


def industrial_execute(case):
    from happysimulator import Entity, Event, Instant, Simulation
    r = Result()
    kind = case.get("target") if case.get("target") in ("shifted", "pooled", "batch", "conveyor", "gate") else "pooled"
    bad = Once(r, "industrial", "/" + kind)
    n = 1 + (int(case.get("n", 1)) - 1) % 3
    qcap = int(case.get("qcap", 0)) % 4
    svc = int(case.get("svc", 1)) % 8
    tmo = int(case.get("tmo", 0)) % 8
    arrivals = [a for a, _ in expand_arrivals((case.get("arrivals") or [])[:16])]
    arrivals += [{"t": int(case.get("burst_t", 0) or 0) % 4, "hops": 0}] * (int(case.get("burst", 0) or 0) % 10)
    seen = {}
    order = []

    class Sink(Entity):
        def handle_event(self, event):
            rid = event.context.get("rid")
            seen[rid] = seen.get(rid, 0) + 1
            order.append((self.now.nanoseconds, rid))
            if seen[rid] > 1:
                bad("duplicated/completed-twice", f"request {rid} reached the sink {seen[rid]}x")
            return None
    sink = Sink("sink")
    extra = []
    wins = []
    t0 = 0
    for w in (case.get("windows") or [])[:3]:
        try:
            gap, ln, c = int(w[0]) % 12, 1 + (int(w[1]) - 1) % 6, int(w[2]) % 4
        except (TypeError, ValueError, IndexError):
            continue
        wins.append((t0 + gap, t0 + gap + ln, c))
        t0 += gap + ln
    S = {"in": [], "T": None}
    if kind == "shifted":
        from happysimulator.components.industrial.shift_schedule import Shift, ShiftedServer, ShiftSchedule
        from happysimulator.components.queue_policy import FIFOQueue
        T = Track(bad, lambda: sim._clock.now.nanoseconds)
        S["T"] = T
        rec = _rec_policy(FIFOQueue(qcap if qcap else float("inf")), T)
        default = int(case.get("default", 0)) % 3

        class SS(ShiftedServer):
            def has_capacity(self):
                return T.answered(super().has_capacity())

            def handle_queued_event(self, event):
                rid = event.context["rid"]
                T.s(rid)["recv"] += 1
                T.s(rid)["start"] += 1
                S["in"].append(rid)
                lowered_now = S.get("cap_prev") is not None and self.current_capacity < S["cap_prev"]   # shift ended this instant
                if len(S["in"]) > self.current_capacity and not lowered_now:
                    s = T.s(rid)
                    bad("over-limit/" + ("polled-without-capacity-answer" if s.get("unchecked") else "capacity-answer-stale-at-dequeue"),
                        f"at {tk(self.now.nanoseconds)} in service {S['in']} capacity {self.current_capacity}")
                res = yield from super().handle_queued_event(event)
                S["in"].remove(rid)
                T.s(rid)["fin"] += 1
                return res
        comp = SS("srv", ShiftSchedule([Shift(ticks(a), ticks(b), c) for a, b, c in wins], default_capacity=default),
                  service_time=ticks(svc), downstream=sink, policy=rec)
        if comp.queue.policy is not rec:
            if qcap and comp.queue.policy.capacity != qcap:
                bad("configured-policy-ignored", f"ShiftedServer(policy=<FIFOQueue capacity {qcap}>) uses "
                    f"{type(comp.queue.policy).__name__}(capacity={comp.queue.policy.capacity}) instead")
            comp.queue.policy = rec
    elif kind == "pooled":
        from happysimulator.components.industrial.pooled_cycle import PooledCycleResource
        PS = S["pool"] = {"in": [], "handoff": [], "fresh_started_at": []}

        class PC(PooledCycleResource):       # Entity subclass: observe what happens to every delivery
            def handle_event(self, event):
                rid = event.context["rid"]
                now_ns = self.now.nanoseconds
                q0, rj0 = self.queued, self.rejected
                ho = next((h for h in PS["handoff"] if h["rid"] == rid and not h["seen"]), None)
                res = super().handle_event(event)
                if isinstance(res, list):
                    if ho is not None:
                        ho["seen"] = True
                        # a waiting item was taken out of the line and put back (or rejected) instead of being started
                        # (a new arrival that slips in between the hand-off and its delivery takes the unit: barging by a
                        # request that never waited is not judged, only noted)
                        barged = any(t == now_ns and seq > ho["base"] for t, seq in PS["fresh_started_at"])
                        if not barged:
                            bad("misordered/dequeued-item-lost-its-turn", f"at {tk(now_ns)} request {rid} was dequeued for a free unit "
                                f"but found none and was {'re-queued at the back' if self.queued > q0 else 'rejected'}; in service "
                                f"{PS['in']} pool_size={n}; no new arrival took the unit in between")
                        else:
                            r.labels.append("dequeued-item-overtaken-by-new-arrival")
                    return res
                if ho is not None:
                    ho["seen"] = True
                else:
                    PS["seq"] = PS.get("seq", 0) + 1
                    PS["fresh_started_at"].append((now_ns, PS["seq"]))
                return self._observe(res, rid)

            def _observe(self, gen, rid):
                PS["in"].append(rid)
                if len(PS["in"]) > n:
                    bad("over-limit", f"at {tk(self.now.nanoseconds)} cycles running for {PS['in']} pool_size={n}")
                out = yield from gen
                PS["in"].remove(rid)
                for e in out or []:
                    if e.target is self:
                        PS["seq"] = PS.get("seq", 0) + 1
                        base = min([h["seq"] for h in PS["handoff"] if not h["seen"]] + [PS["seq"]])
                        PS["handoff"].append({"rid": e.context["rid"], "seen": False, "seq": PS["seq"], "base": base})
                return out
        comp = PC("srv", pool_size=n, cycle_time=ticks(svc), downstream=sink, queue_capacity=qcap)
    elif kind == "batch":
        from happysimulator.components.industrial.batch_processor import BatchProcessor
        comp = BatchProcessor("srv", sink, batch_size=n, process_time=ticks(svc), timeout_s=ticks(tmo))
    elif kind == "conveyor":
        from happysimulator.components.industrial.conveyor import ConveyorBelt
        comp = ConveyorBelt("srv", sink, transit_time=ticks(svc), capacity=qcap)
    else:
        from happysimulator.components.industrial.gate_controller import GateController
        comp = GateController("srv", sink, schedule=[(ticks(a), ticks(b)) for a, b, _ in wins], initially_open=bool(case.get("open")),
                              queue_capacity=qcap)
        extra = comp.start_events()

    class Relay(Entity):
        def __init__(self, name, nxt):
            super().__init__(name)
            self.nxt = nxt

        def handle_event(self, event):
            return [Event(time=self.now, event_type=event.event_type, target=self.nxt, context=event.context)]
    chain = relay_chain(comp, Relay)
    sim = Simulation(entities=[comp, sink] + chain[1:], end_time=Instant(400 * TICK))
    arr_t = {}
    for rid, a in enumerate(arrivals):
        t = int(a.get("t", 0)) % 16
        arr_t[rid] = t * TICK
        sim.schedule(Event(time=Instant(t * TICK), event_type="req", target=chain[int(a.get("hops", 0)) % (MAX_HOPS + 1)], context={"rid": rid}))
    for e in extra:
        sim.schedule(e)
    waited = [False]

    def quiescent(t_ns, final=False):
        offered = sum(1 for t in arr_t.values() if t <= t_ns)
        done = len(seen)
        if kind == "pooled":
            total = comp.active + comp.queued + comp.completed + comp.rejected
            if total != offered:
                bad("lost-or-duplicated/counters", f"end of instant {tk(t_ns)}: offered {offered} != active {comp.active} + queued "
                    f"{comp.queued} + completed {comp.completed} + rejected {comp.rejected}")
            if comp.active > n or comp.active + comp.available != n:
                bad("over-limit", f"active={comp.active} available={comp.available} pool_size={n}")
            if comp.completed != done:
                bad("lost/completed-but-not-at-sink", f"completed={comp.completed} sink saw {done}")
            if comp.queued:
                waited[0] = True
                if comp.available > 0 and not final:
                    bad("stranded/free-unit", f"clock leaves {tk(t_ns)} with queued={comp.queued} available={comp.available}")
                if final:
                    bad("stranded/left-at-end", f"queued={comp.queued} active={comp.active} at the end")
        elif kind == "conveyor":
            if comp.items_in_transit + comp.items_transported + comp.items_rejected != offered:
                bad("lost-or-duplicated/counters", f"offered {offered} != in transit {comp.items_in_transit} + transported "
                    f"{comp.items_transported} + rejected {comp.items_rejected}")
            if qcap and comp.items_in_transit > qcap:
                bad("over-limit", f"in transit {comp.items_in_transit} capacity {qcap}")
            if comp.items_transported != done:
                bad("lost/completed-but-not-at-sink", f"transported={comp.items_transported} sink saw {done}")
        elif kind == "gate":
            st_ = comp.stats
            if st_.passed_through + comp.queue_depth + st_.rejected != offered:
                bad("lost-or-duplicated/counters", f"offered {offered} != passed {st_.passed_through} + queued {comp.queue_depth} + rejected {st_.rejected}")
            if st_.passed_through != done:
                bad("lost/completed-but-not-at-sink", f"passed={st_.passed_through} sink saw {done}")
            if qcap and comp.queue_depth > qcap:
                bad("over-limit", f"queue depth {comp.queue_depth} capacity {qcap}")
            if comp.queue_depth:
                waited[0] = True
                if comp.is_open:
                    bad("stranded/gate-open", f"clock leaves {tk(t_ns)} with the gate open and {comp.queue_depth} queued")
                elif any(a * TICK <= t_ns < b * TICK for a, b, _ in wins):
                    # the schedule is a list of (open_at, close_at) intervals: inside one of them the gate has to be open
                    bad("stranded/gate-shut-inside-scheduled-window", f"clock leaves {tk(t_ns)} with {comp.queue_depth} queued and the gate "
                        f"shut although the schedule {[(a, b) for a, b, _ in wins]} (ticks) says open")
        elif kind == "batch":
            inproc = offered - comp.buffer_depth - comp.items_processed
            if inproc < 0 or comp.items_processed != done:
                bad("lost-or-duplicated/counters", f"offered {offered} buffer {comp.buffer_depth} processed {comp.items_processed} sink {done}")
            if comp.buffer_depth:
                waited[0] = True
            if final and (inproc != 0 or (comp.buffer_depth and tmo > 0)):
                bad("stranded/left-at-end", f"buffer={comp.buffer_depth} in processing={inproc} at the end (timeout {tmo}tk)")
        else:
            T = S["T"]
            upto = [rid for rid, t in arr_t.items() if t <= t_ns]
            b = T.buckets(upto)
            if b["lost"] or b["transit"]:
                bad("lost/never-reached-the-worker", f"end of instant {tk(t_ns)}: {b['lost']} never pushed, {b['transit']} popped but not delivered")
            if comp.depth != len(b["waiting"]) or comp.stats_dropped != len(b["dropped"]):
                bad("counter-mismatch/depth", f"depth={comp.depth} waiting {b['waiting']} dropped={comp.stats_dropped} refused {b['dropped']}")
            if comp.processed != len(b["done"]) or len(b["done"]) != done:
                bad("lost/completed-but-not-at-sink", f"processed={comp.processed} trace done {b['done']} sink saw {done}")
            if b["waiting"]:
                waited[0] = True
                free = comp.current_capacity - len(S["in"])
                if free > 0 and not final:
                    # root-cause class: did the capacity go up while this work was already waiting?
                    bad("stranded/" + ("after-shift-change" if S.get("shifted_while_waiting") else "free-slot-not-polled" if comp.current_capacity > 1
                                       else "single-slot"),
                        f"clock leaves {tk(t_ns)} with waiting {b['waiting']}, {len(S['in'])}/{comp.current_capacity} in service")
            S["cap_prev"] = comp.current_capacity

    def on_adv(_t):
        at = probe._at if probe._at is not None else 0
        if kind == "shifted":
            # a capacity increase during the instant that just ended, with work waiting
            prev = S.get("cap_prev")
            if prev is not None and comp.current_capacity > prev and comp.depth > 0:
                S["shifted_while_waiting"] = True
            elif comp.depth == 0:
                S["shifted_while_waiting"] = False
        quiescent(at)

    probe = SimProbe(sim, max_per_instant=SPIN_CAP, max_events=100000, log=False, on_advance=on_adv)
    if kind == "shifted":
        S["cap_prev"] = comp.current_capacity
    status = probe.run()
    if status == "spin":
        bad("spin", f"> {SPIN_CAP} deliveries at {tk(probe.spin_at)}")
    elif status == "budget":
        r._inconclusive = True
    else:
        quiescent(sim._clock.now.nanoseconds, final=True)
        if kind == "conveyor":
            for t, rid in order:
                if t != arr_t[rid] + svc * TICK:
                    bad("misordered/transit-time", f"request {rid} arrived {tk(arr_t[rid])} left {tk(t)} transit {svc}tk")
    r.nontrivial = waited[0]
    r.labels.append(kind)
    return r


# =========================================================================================== obligations
RULE_PIPE = ("1-10 tagged requests (thorough 14) at ticks 0-6 (bursts on one ns) entering directly or through 1-8 zero-delay relay hops (biased towards {direct, 5-8 hops} twins on one nanosecond, also with zero service time and an idle target); "
             "worker limit 1-3, queue capacity none/1-3, policy fifo/lifo/priority, scripted service 0-4 ticks so completions coincide with "
             "arrivals; Server with Fixed/Dynamic(set_limit events)/Weighted concurrency; non-trivial = a burst arriving through paths of "
             "different hop counts, or an arrival on the instant of a completion, or a limit change")

OBLIGATIONS = [
    Obligation("policy", policy_strategy, policy_execute, {"quick": 5000, "thorough": 200000},
               "op sequences (push with priority/deadline/flow, pop, advance clock, maintenance = every public maintenance method of the policy, i.e. DeadlineQueue.purge_expired / set_clock; all public observers are compared with the harness bookkeeping after every step) of up to 40 (60) steps against each of the 10 policies "
               "with capacity none/1-5; exact reference models for fifo/lifo/priority/deadline/fair, contract invariants for the rest; "
               "non-trivial = at least 3 accepted pushes"),
    Obligation("qd", pipeline_strategy(["qd", "qr"]), pipeline_execute("qd"), {"quick": 1400, "thorough": 60000},
               "Queue + QueueDriver + harness worker, and the documented QueuedResource pattern (_in_flight / has_capacity): " + RULE_PIPE),
    Obligation("server", pipeline_strategy(["server", "server", "threadpool", "reneging"]), pipeline_execute("server"),
               {"quick": 1600, "thorough": 70000}, "Server / ThreadPool / RenegingQueuedResource: " + RULE_PIPE),
    Obligation("server-safe", pipeline_strategy(["server", "server", "threadpool", "reneging"], no_setlimit=True),
               pipeline_execute("server-safe", no_setlimit=True), {"quick": 800, "thorough": 30000},
               "restricted domain of `server` without exclusions: no set_limit() event ever happens (Fixed, Weighted, or Dynamic with a "
               "constant limit), so the open finding 'raised limit does not wake the driver' cannot occur; same clauses, same non-trivial rule"),
    Obligation("qd-safe", pipeline_strategy(["qd", "qr", "server", "threadpool"], safe=True), pipeline_execute("qd-safe", safe=True),
               {"quick": 600, "thorough": 20000},
               "restricted domain without exclusions: one worker slot, arrival i shifted by i ns so that arrivals share an instant only as generated "
               "{direct, 5-8 relay hops} twins and no arrival coincides with the completion of another request"),
    Obligation("industrial", industrial_strategy, industrial_execute, {"quick": 1500, "thorough": 60000},
               "ShiftedServer (1-3 shift windows with capacity 0-3, default 0-2), PooledCycleResource, BatchProcessor (size 1-3, time-out), "
               "ConveyorBelt, GateController (schedule, initially open/closed) with 1-10 requests through 0-8 relay hops; non-trivial = "
               "something waited"),
]
