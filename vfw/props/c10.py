"""C10 — rate limiters never over-admit; time_until_available is truthful; rate-limited entities
forward, queue or drop every request exactly once and forward in arrival order.

Policy obligations drive the pure policy classes directly with generated, non-decreasing
``Instant(ns)`` sequences (gaps are quarter-multiples of the policy's own period plus a +-2 ns
jitter, so arrivals sit exactly on / one nanosecond around window and refill boundaries) and judge
the admitted timestamps with integer-nanosecond arithmetic.  Entity obligations run
RateLimitedEntity / Inductor / DistributedRateLimiter / NullRateLimiter inside a real Simulation
and judge what the downstream entity actually received."""
from __future__ import annotations

import copy
import math
from collections import Counter

from hypothesis import strategies as st

from ..harness import SimProbe
from ..runner import Obligation, Result

P = "C10"
NS = 10**9

ASSUMPTIONS = [
    "window sizes are decimal values that are whole nanoseconds (1.0, 0.5, 0.1, 0.3, 0.57, 0.001, 0.7, 0.05, 2.5, 0.25 and, above "
    "one second, 1.7, 2.05, 3.3, 4.1, 8.2, 16.4 - for four of these int(W*1e9) is 1 ns below round(W*1e9)) so that 'aligned "
    "window' and 'window length' have one exact integer-ns meaning (round(W*1e9)); rates are from "
    "{1, 2, 0.5, 3, 7, 10, 1000, 8, 100, 1/4.1, 1/3.3, 0.3, 1/8.2} per second",
    "comparisons that go through the library's float seconds get a 1 ns tolerance: leaky spacing >= 1e9/rate - 1 ns, sliding "
    "N+1 admits span >= W - 1 ns; token/adaptive bucket bounds get +1e-6 tokens for accumulated float rounding; fixed-window "
    "clauses are judged exactly in integer ns",
    "adaptive bucket bound: admits in [a,b] <= max(1, R*window) + R*(b-a) where R is the largest rate that was in force at a "
    "refill between the first policy call of instant a and b (a bucket that can hold less than one token can admit nothing, so "
    "the capacity term is taken as at least one token); tokens carried over from a higher rate are not clamped until the next "
    "refill, which this R accounts for",
    "time_until_available truthfulness is judged on deep copies of the policy without intervening feedback; 'a few steps' = an "
    "admitting instant is reached after at most 4 waits of the returned duration",
    "entity runs use an explicit end_time beyond a computed drain horizon (poll events are daemon events, so an auto-terminating "
    "run would legitimately stop with requests still queued); horizon = last arrival + 2 x (queue_capacity+2) x the policy's "
    "slowest admission period + 1 s",
    "DistributedRateLimiter: over-admission caused by the documented non-atomic read-modify-write is accepted; the per-window "
    "limit is only judged for one instance whose requests do not overlap in time (gap > read+write latency), by arrival time",
    "arrival order = order in which the limiter entity handled the request events (observed with sim.control.on_event)",
]

POLICIES = ["token", "leaky", "sliding", "fixed", "adaptive"]
W_TABLE = [1.0, 0.5, 0.1, 0.3, 0.57, 0.001, 0.7, 0.05, 2.5, 0.25,
           1.7, 2.05, 3.3, 4.1, 8.2, 16.4]      # > 1 s: int(W*1e9) truncates below round(W*1e9) for 2.05, 4.1, 8.2, 16.4
W_IDX = list(range(10)) + [10, 11, 12, 13, 14, 15] * 2      # sampling weights: the values above one second twice
DYADIC_W = [1.0, 0.5, 0.25, 2.0]
RATE_TABLE = [1.0, 2.0, 0.5, 3.0, 7.0, 10.0, 1000.0, 8.0, 100.0, 1 / 4.1, 1 / 3.3, 0.3, 1 / 8.2]
R_IDX = list(range(9)) + [9, 10, 11, 12] * 2
DEC_TABLE = [0.5, 0.9, 0.1, 0.75]
STEP_TABLE = [None, 1.0, 0.5, 5.0, 100.0]
LAT_TABLE = [0.0, 0.001, 1 / 512, 0.005, 0.05]
THR_TABLE = [0.8, 1.0, 0.1, 0.5]


def _i(x, lo=0, hi=None):
    """Total int coercion for shrunk cases."""
    try:
        v = int(x)
    except (TypeError, ValueError):
        v = 0
    v = max(lo, v)
    return v if hi is None else min(hi, v)


def _pick(table, idx):
    return table[_i(idx) % len(table)]


# ------------------------------------------------------------------------------ policy model
class Pol:
    """Normalised, total view of a generated policy description."""

    def __init__(self, pc, dyadic_fixed=False):
        pc = pc if isinstance(pc, dict) else {}
        self.kind = POLICIES[_i(pc.get("k")) % len(POLICIES)]
        self.N = _i(pc.get("n"), 1, 6) if pc.get("n") else 1
        self.cap = _i(pc.get("cap"), 1, 10) if pc.get("cap") else 1
        self.rate = _pick(RATE_TABLE, pc.get("r"))
        wt = DYADIC_W if dyadic_fixed else W_TABLE
        self.W = _pick(wt, pc.get("w"))
        self.Wn = round(self.W * NS)
        init = pc.get("init")
        self.init_tokens = None if init is None else float(min(_i(init), self.cap))
        # adaptive
        self.min_rate = _pick([1.0, 0.5, 2.0, 10.0], pc.get("mn"))
        self.max_rate = max(self.min_rate, _pick([50.0, 10.0, 1.0, 1000.0, 4.0], pc.get("mx")))
        self.init_rate = min(self.max_rate, max(self.min_rate, _pick([2.0, 10.0, 1.0, 100.0, 0.5], pc.get("ir"))))
        self.step = _pick(STEP_TABLE, pc.get("st"))
        self.dec = _pick(DEC_TABLE, pc.get("de"))
        if self.kind in ("token", "leaky"):
            self.period = round(NS / self.rate)
        elif self.kind == "adaptive":
            self.period = round(NS / self.init_rate)
        else:
            self.period = self.Wn
        self.period = max(4, self.period)

    def build(self):
        from happysimulator.components.rate_limiter import policy as pm
        if self.kind == "token":
            return pm.TokenBucketPolicy(capacity=self.cap, refill_rate=self.rate, initial_tokens=self.init_tokens)
        if self.kind == "leaky":
            return pm.LeakyBucketPolicy(leak_rate=self.rate)
        if self.kind == "sliding":
            return pm.SlidingWindowPolicy(window_size_seconds=self.W, max_requests=self.N)
        if self.kind == "fixed":
            return pm.FixedWindowPolicy(requests_per_window=self.N, window_size=self.W)
        return pm.AdaptivePolicy(initial_rate=self.init_rate, min_rate=self.min_rate, max_rate=self.max_rate,
                                 increase_step=self.step, decrease_factor=self.dec, window_size=self.W)

    def slowest_period_ns(self):
        """Upper bound on the time one more admission can take once the limiter is saturated."""
        if self.kind in ("token", "leaky"):
            return round(NS / self.rate) + 2
        if self.kind == "adaptive":
            return round(NS / self.init_rate) + self.Wn + 2
        return self.Wn + 2

    def describe(self):
        if self.kind == "token":
            return f"TokenBucketPolicy(capacity={self.cap}, refill_rate={self.rate}, initial_tokens={self.init_tokens})"
        if self.kind == "leaky":
            return f"LeakyBucketPolicy(leak_rate={self.rate})"
        if self.kind == "sliding":
            return f"SlidingWindowPolicy({self.W}, {self.N})"
        if self.kind == "fixed":
            return f"FixedWindowPolicy({self.N}, {self.W})"
        return (f"AdaptivePolicy(initial_rate={self.init_rate}, min_rate={self.min_rate}, max_rate={self.max_rate}, "
                f"increase_step={self.step}, decrease_factor={self.dec}, window_size={self.W})")


def times_from(steps, period):
    """Non-decreasing ns timestamps from [quarter-multiples of period, jitter ns, raw ns] steps.  The grid position
    advances by quarter periods (+ raw ns, rare); the jitter displaces only its own arrival, so later arrivals are
    back on the grid (exactly on window / refill boundaries)."""
    base, prev, out = 0, 0, []
    for s in steps:
        s = s if isinstance(s, (list, tuple)) else [0, 0, 0]
        num = _i(s[0] if len(s) > 0 else 0, 0, 64)
        jit = _i(s[1], -3, 3) if (len(s) > 1 and isinstance(s[1], int)) else 0
        raw = _i(s[2] if len(s) > 2 else 0, 0, 50 * NS)
        base += (num * period) // 4 + raw
        prev = max(prev, base + jit, 0)
        out.append(prev)
    return out


# ------------------------------------------------------------------------------ bounds on admitted timestamps
def check_bounds(r, pol, adm, prefix, rate_of=None):
    """Judge a sorted list of admitted ns timestamps against the bound of ``pol``.
    ``rate_of(i, j)`` (adaptive only) gives R for the admits i..j."""
    n = len(adm)
    if pol.kind == "token":
        for i in range(n):
            for j in range(i, n):
                if (j - i + 1) > pol.cap + pol.rate * (adm[j] - adm[i]) / NS + 1e-6:
                    r.add(f"{prefix}/bucket-bound", f"{pol.describe()}: {j - i + 1} admits in [{adm[i]},{adm[j]}] ns")
                    return
    elif pol.kind == "leaky":
        for a, b in zip(adm, adm[1:]):
            if b - a < NS / pol.rate - 1:
                r.add(f"{prefix}/spacing", f"{pol.describe()}: admits at {a} and {b} ns, {b - a} ns apart")
                return
    elif pol.kind == "sliding":
        for i in range(n - pol.N):
            if adm[i + pol.N] - adm[i] < pol.Wn - 1:
                r.add(f"{prefix}/more-than-n-in-window",
                      f"{pol.describe()}: {pol.N + 1} admits within {adm[i + pol.N] - adm[i]} ns: {adm[i:i + pol.N + 1]}")
                return
    elif pol.kind == "fixed":
        c = Counter(t // pol.Wn for t in adm)
        bad = sorted(k for k, v in c.items() if v > pol.N)
        if bad:
            k = bad[0]
            r.add(f"{prefix}/aligned-window-over-admit",
                  f"{pol.describe()}: {c[k]} admits in aligned window [{k * pol.Wn},{(k + 1) * pol.Wn}) ns: "
                  f"{[t for t in adm if t // pol.Wn == k][:8]}")
        for i in range(n - 2 * pol.N):
            if adm[i + 2 * pol.N] - adm[i] < pol.Wn:
                r.add(f"{prefix}/more-than-2n-in-window-length",
                      f"{pol.describe()}: {2 * pol.N + 1} admits within {adm[i + 2 * pol.N] - adm[i]} ns")
                return
    else:
        for i in range(n):
            for j in range(i, n):
                R = rate_of(i, j)
                if (j - i + 1) > max(1.0, R * pol.W) + R * (adm[j] - adm[i]) / NS + 1e-6:
                    r.add(f"{prefix}/bucket-bound",
                          f"{pol.describe()}: {j - i + 1} admits in [{adm[i]},{adm[j]}] ns with largest rate in force {R}")
                    return


# ------------------------------------------------------------------------------ truthfulness of time_until_available
def check_tua(r, pol, p, now_ns, w, prefix):
    """``w`` = Duration just returned by p.time_until_available(Instant(now_ns)); judged on deep copies."""
    from happysimulator.core.temporal import Instant
    wn = w.nanoseconds
    if wn < 0:
        r.add(f"{prefix}/tua-negative", f"{pol.describe()}: time_until_available({now_ns}) = {wn} ns")
        return "neg"
    if wn == 0:
        if not copy.deepcopy(p).try_acquire(Instant(now_ns)):
            r.add(f"{prefix}/tua-zero-but-denied",
                  f"{pol.describe()}: at {now_ns} ns time_until_available == 0 but try_acquire is denied")
        return "zero"
    if copy.deepcopy(p).try_acquire(Instant(now_ns)):
        r.add(f"{prefix}/tua-positive-but-admits-now", f"{pol.describe()}: at {now_ns} ns wait {wn} ns but try_acquire succeeds")
    if wn < 10**15:
        for tt in sorted({now_ns + 1, now_ns + (wn - 1) // 2, now_ns + wn - 1}):
            if now_ns < tt < now_ns + wn and copy.deepcopy(p).try_acquire(Instant(tt)):
                r.add(f"{prefix}/admits-before-wait-elapsed",
                      f"{pol.describe()}: at {now_ns} ns wait is {wn} ns but an acquire at +{tt - now_ns} ns succeeds")
                break
    # drain: repeatedly waiting the returned duration reaches an admitting instant within a few steps
    q = copy.deepcopy(p)
    t, trail = now_ns, []
    for _ in range(5):
        ww = q.time_until_available(Instant(t)).nanoseconds
        trail.append((t, ww))
        if ww <= 0:
            if not q.try_acquire(Instant(t)):
                r.add(f"{prefix}/tua-zero-but-denied",
                      f"{pol.describe()}: waiting the returned durations from {now_ns} ns: {trail}; then try_acquire is denied")
            return "pos"
        if ww > 10**15:
            break
        t += ww
    sub = ""
    if pol.kind == "adaptive" and getattr(p, "current_rate", 1.0) * pol.W < 1.0:
        sub = "/bucket-cap-below-one-token"
    r.add(f"{prefix}/drain-stalls{sub}", f"{pol.describe()}: waiting the returned durations never admits: {trail}")
    return "pos"


# ------------------------------------------------------------------------------ policy obligations
def policy_strategy(kind):
    k = POLICIES.index(kind)

    def s(tier):
        big = tier == "thorough"
        step = st.tuples(
            st.sampled_from([0, 0, 0, 0, 0, 0, 1, 2, 3, 4, 4, 4, 5, 8, 8, 12, 40]),
            st.sampled_from([0, 0, 0, 0, 1, -1, 2, -2]),
            st.sampled_from([0] * 40 + [1, 7, 1000, 123456789]),
            st.sampled_from(["a", "a", "a", "a", "t", "t", "ok", "fail", "timeout"] if kind == "adaptive"
                            else ["a", "a", "a", "t"]),
        ).map(list)
        pc = {"k": st.just(k)}
        if kind == "token":
            pc.update(cap=st.sampled_from([1, 1, 2, 2, 3, 5, 10]), r=st.sampled_from(R_IDX),
                      init=st.none() | st.integers(0, 10))
        elif kind == "leaky":
            pc.update(r=st.sampled_from(R_IDX))
        elif kind in ("sliding", "fixed"):
            pc.update(w=st.sampled_from(W_IDX), n=st.sampled_from([1, 1, 2, 2, 3, 5]))
        else:
            pc.update(w=st.sampled_from([0, 0, 1, 2, 9, 10, 11, 13]), mn=st.integers(0, 3), mx=st.integers(0, 4), ir=st.integers(0, 4),
                      st=st.integers(0, len(STEP_TABLE) - 1), de=st.integers(0, len(DEC_TABLE) - 1))
        return st.fixed_dictionaries({"pol": st.fixed_dictionaries(pc), "start": st.integers(0, 12).map(lambda k: 4 * k) | st.integers(0, 48),
                                      "ops": st.lists(step, min_size=6, max_size=120 if big else 60)})
    return s


def on_boundary(pol, ts, adm):
    """An arrival exactly on (or 1 ns around) a window / refill boundary relative to an earlier admit or to t=0."""
    per = pol.period
    for t in ts:
        if t > 0 and pol.kind == "fixed" and min(t % per, per - t % per) <= 1:
            return True
    aset = sorted(set(adm))
    for t in ts:
        for a in aset:
            if a >= t:
                break
            d = t - a
            if d >= per - 1 and min(d % per, per - d % per) <= 1:
                return True
    return False


def ex_policy(case):
    from happysimulator.core.temporal import Instant
    r = Result()
    pol = Pol(case.get("pol"))
    p = pol.build()
    prefix = f"{P}/{pol.kind}"
    ops = [o if isinstance(o, (list, tuple)) else [0, 0, 0, "a"] for o in (case.get("ops") or [])][:200]
    ts = times_from([[_i(case.get("start"), 0, 64), 0, 0]] + [list(o[:3]) for o in ops], pol.period)[1:]
    adm, denied, tuas = [], 0, Counter()
    # adaptive bookkeeping: rate in force at the refill of every instant at which the policy was called
    refill_rate = {}          # instant -> rate at the first policy call of that instant
    adm_instants = []
    for t, o in zip(ts, ops):
        kind = o[3] if isinstance(o, (list, tuple)) and len(o) > 3 else "a"
        now = Instant(t)
        if pol.kind == "adaptive" and kind in ("ok", "fail", "timeout"):
            from happysimulator.components.rate_limiter.policy import RateAdjustmentReason
            if kind == "ok":
                p.record_success(now)
            elif kind == "fail":
                p.record_failure(now)
            else:
                p.record_failure(now, RateAdjustmentReason.TIMEOUT)
            if not (pol.min_rate <= p.current_rate <= pol.max_rate):
                r.add(f"{prefix}/rate-out-of-range",
                      f"{pol.describe()}: current_rate {p.current_rate} after {kind} at {t} ns")
            continue
        if pol.kind == "adaptive":
            # the bucket starts with initial_rate*window tokens and the first call never refills/clamps
            refill_rate.setdefault(t, p.current_rate if refill_rate else max(pol.init_rate, p.current_rate))
        if kind == "t":
            w = p.time_until_available(now)
            tuas[check_tua(r, pol, p, t, w, prefix)] += 1
            continue
        if p.try_acquire(now):
            adm.append(t)
        else:
            denied += 1
    rate_of = None
    if pol.kind == "adaptive":
        inst = sorted(refill_rate)

        def rate_of(i, j):
            return max(refill_rate[x] for x in inst if adm[i] <= x <= adm[j])
    check_bounds(r, pol, adm, prefix, rate_of)
    bnd = on_boundary(pol, ts, adm)
    r.nontrivial = bnd and denied > 0 and len(adm) > 0
    r.labels += [f"boundary={int(bnd)}", f"denied={int(denied > 0)}", f"tua-pos={int(tuas['pos'] > 0)}",
                 f"tua-zero={int(tuas['zero'] > 0)}"]
    r.observed = {"admitted": adm[:40], "denied": denied}
    return r


# ------------------------------------------------------------------------------ entity harness
def make_rec(log):
    from happysimulator import Entity

    class Rec(Entity):
        def handle_event(self, event):
            log.append((self.now.nanoseconds, event.context.get("rid"), event.event_type))
            return None
    return Rec


def make_driver(times, target, etype="req", ctx_of=None):
    """Entity that creates the i-th request *during the run*, at its arrival instant."""
    from happysimulator import Entity, Event, Instant

    class Driver(Entity):
        def handle_event(self, event):
            i = event.context["i"]
            out = [Event(time=Instant(times[i]), event_type=etype, target=target(i),
                         context=(ctx_of(i) if ctx_of else {"rid": i}))]
            if i + 1 < len(times):
                out.append(Event(time=Instant(times[i + 1]), event_type="tick", target=self, context={"i": i + 1}))
            return out
    return Driver("driver")


def order_clause(r, prefix, arrivals, delivered_rids, suffix=""):
    """arrivals: list of (rid, outcome) in arrival order; delivered_rids in downstream order."""
    pos = {rid: k for k, (rid, _) in enumerate(arrivals)}
    outcome = dict(arrivals)
    seen = []
    worst = None
    for y in delivered_rids:
        if y not in pos:
            continue
        over = [x for x in seen if pos[x] > pos[y]]
        if over:
            cls = "new-arrival-overtakes-queued" if all(outcome.get(x) == "fwd" for x in over) else "queue-not-fifo"
            if worst is None or cls == "queue-not-fifo":
                worst = (cls, f"request #{y} (arrival position {pos[y]}) delivered after {over[:3]} which arrived later; "
                              f"delivery order {delivered_rids[:12]}")
            if cls == "queue-not-fifo":
                break
        seen.append(y)
    if worst:
        r.add(f"{prefix}/forward-order/{worst[0]}{suffix}", worst[1])
    return worst[0] if worst else None


def run_limiter_entity(r, prefix, limiter, rec_log, sim, probe_kw, qcap, n_req):
    """Run; returns (status, arrivals[(rid,outcome)], per-event accounting already judged)."""
    arrivals = []
    state = {"f": 0, "q": 0, "d": 0, "rcv": 0, "acct": False, "room": False, "multi": False, "over": False}

    def hook(event):
        if event.target is not limiter:
            return
        s = limiter.stats
        depth = limiter.queue_depth
        if s.received != s.forwarded + depth + s.dropped and not state["acct"]:
            state["acct"] = True
            r.add(f"{prefix}/accounting", f"after {event.event_type} at {event.time.nanoseconds} ns: received={s.received} "
                                          f"forwarded={s.forwarded} queue_depth={depth} dropped={s.dropped}")
        if depth > qcap and not state["over"]:
            state["over"] = True
            r.add(f"{prefix}/queue-over-capacity", f"queue_depth {depth} > capacity {qcap}")
        if event.event_type == "req":
            df, dq, dd = s.forwarded - state["f"], depth - state["q"], s.dropped - state["d"]
            if (df, dq, dd) == (1, 0, 0):
                out = "fwd"
            elif (df, dq, dd) == (0, 1, 0):
                out = "queued"
            elif (df, dq, dd) == (0, 0, 1):
                out = "dropped"
                if depth < qcap and not state["room"]:
                    state["room"] = True
                    r.add(f"{prefix}/drop-with-room", f"request #{event.context.get('rid')} dropped at "
                                                      f"{event.time.nanoseconds} ns with queue_depth {depth} < capacity {qcap}")
            else:
                out = "other"
                if not state["multi"]:
                    state["multi"] = True
                    r.add(f"{prefix}/request-not-exactly-one-outcome",
                          f"request #{event.context.get('rid')}: forwarded+{df} queued+{dq} dropped+{dd}")
            arrivals.append((event.context.get("rid"), out))
        state["f"], state["q"], state["d"] = s.forwarded, depth, s.dropped

    probe = SimProbe(sim, on_event=hook, log=False, **probe_kw)
    status = probe.run()
    return status, arrivals, probe


def judge_deliveries(r, prefix, limiter, rec_log, arrivals, status, tag):
    s = limiter.stats
    rids = [x[1] for x in rec_log]
    dup = [k for k, c in Counter(rids).items() if c > 1]
    if dup:
        r.add(f"{prefix}/duplicate-delivery", f"request #{dup[0]} reached the downstream {Counter(rids)[dup[0]]} times")
    outcome = dict(arrivals)
    ghost = [x for x in rids if outcome.get(x) not in ("fwd", "queued")]
    if ghost:
        r.add(f"{prefix}/delivered-but-not-admitted", f"request #{ghost[0]} (outcome {outcome.get(ghost[0])}) reached the downstream")
    if status == "done":
        if len(rids) != s.forwarded:
            r.add(f"{prefix}/forwarded-not-delivered",
                  f"stats.forwarded={s.forwarded} but the downstream received {len(rids)} events")
        ft = [t.nanoseconds for t in limiter.forwarded_times]
        if len(rids) == s.forwarded and [x[0] for x in rec_log] != ft:
            r.add(f"{prefix}/delivery-instant", f"downstream receive instants {[x[0] for x in rec_log][:6]} != forwarded_times {ft[:6]}")
        if limiter.queue_depth > 0:
            r.add(f"{prefix}/drain-stalls/{tag}",
                  f"{limiter.queue_depth} request(s) still queued at the horizon; forwarded={s.forwarded} received={s.received}")
    return rids


def entity_strategy(safe):
    def s(tier):
        big = tier == "thorough"
        pc = st.fixed_dictionaries({
            "k": st.integers(0, 4), "cap": st.integers(1, 4), "r": st.sampled_from(R_IDX),
            "init": st.none() | st.integers(0, 3), "w": st.sampled_from(W_IDX), "n": st.integers(1, 3),
            "mn": st.integers(0, 3), "mx": st.integers(0, 4), "ir": st.integers(0, 4), "st": st.just(0), "de": st.just(0)})
        if safe:
            arr = st.lists(st.integers(1, 7), min_size=1, max_size=6 if big else 4)
        else:
            arr = st.lists(st.tuples(st.sampled_from([0, 0, 0, 1, 2, 4, 4, 4, 8, 8, 12, 40]),
                                     st.sampled_from([0, 0, 0, 0, 1, -1, 2]),
                                     st.sampled_from([0] * 40 + [1, 1000, 123456789])).map(list),
                           min_size=4, max_size=40 if big else 24)
        return st.fixed_dictionaries({"pol": pc, "qcap": st.integers(0, 5), "arr": arr, "driver": st.booleans(),
                                      "start": st.sampled_from([0, 0, 1, 4, 12])})
    return s


def ex_entity_factory(obl, safe):
    def ex(case):
        from happysimulator import Event, Instant, Simulation
        from happysimulator.components.rate_limiter.rate_limited_entity import RateLimitedEntity
        r = Result()
        pol = Pol(case.get("pol"))
        prefix = f"{P}/{obl}"
        qcap = _i(case.get("qcap"), 0, 8)
        slow = pol.slowest_period_ns()
        drain = 2 * (qcap + 2) * slow + NS
        if safe:
            bursts = [_i(b, 1, 8) for b in (case.get("arr") or [1])][:8] or [1]
            ts, t = [], (_i(case.get("start"), 0, 64) * pol.period) // 4
            for b in bursts:
                ts += [t] * b
                t += drain + pol.period
        else:
            steps = list(case.get("arr") or [[0, 0, 0]])[:64]
            steps = [[_i(case.get("start"), 0, 64), 0, 0]] + [list(x) if isinstance(x, (list, tuple)) else [0, 0, 0] for x in steps]
            ts = times_from(steps, pol.period)[1:]
            ts = ts or [0]
        log = []
        rec = make_rec(log)("down")
        rl = RateLimitedEntity("rl", rec, pol.build(), queue_capacity=qcap)
        ents = [rl, rec]
        horizon = ts[-1] + drain
        driver = None
        if case.get("driver"):
            driver = make_driver(ts, lambda i: rl)
            ents.append(driver)
        sim = Simulation(entities=ents, end_time=Instant(horizon))
        if driver is not None:
            sim.schedule(Event(time=Instant(ts[0]), event_type="tick", target=driver, context={"i": 0}))
        else:
            for i, t in enumerate(ts):
                sim.schedule(Event(time=Instant(t), event_type="req", target=rl, context={"rid": i}))
        status, arrivals, probe = run_limiter_entity(r, prefix, rl, log, sim,
                                                     {"max_per_instant": 3000, "max_events": 60000}, qcap, len(ts))
        if status == "spin":
            r.add(f"{prefix}/spin/{pol.kind}", f"{pol.describe()} queue_capacity={qcap}: more than 3000 events at "
                                               f"{probe.spin_at} ns (zero-delay re-poll loop)")
        elif status == "budget":
            r.labels.append("inconclusive-budget")
        if status == "done" and len(arrivals) != len(ts):
            r.add(f"{prefix}/request-not-handled", f"{len(arrivals)} of {len(ts)} requests reached the limiter")
        rids = judge_deliveries(r, prefix, rl, log, arrivals, status, pol.kind)
        cls = order_clause(r, prefix, arrivals, rids)
        # the forwards themselves obey the policy's bound (dyadic-safe arithmetic as in the policy obligations)
        ft = [t.nanoseconds for t in rl.forwarded_times]
        if pol.kind != "adaptive":
            check_bounds(r, pol, ft, f"{prefix}/policy-bound/{pol.kind}")
        else:
            check_bounds(r, pol, ft, f"{prefix}/policy-bound/{pol.kind}", lambda i, j: pol.init_rate)
        outs = Counter(o for _, o in arrivals)
        drained = sum(1 for (rid, o) in arrivals if o == "queued" and rid in set(rids))
        r.nontrivial = outs["queued"] > 0 and drained > 0
        r.labels += [pol.kind, f"queued={int(outs['queued'] > 0)}", f"dropped={int(outs['dropped'] > 0)}",
                     f"drained={int(drained > 0)}", f"status={status}"] + ([cls] if cls else [])
        r.observed = {"arrivals": arrivals[:30], "delivered": rids[:30]}
        return r
    return ex


# ------------------------------------------------------------------------------ Inductor
TAU_TABLE = [1.0, 0.1, 2.0, 0.01, 10.0]


def inductor_strategy(safe):
    def s(tier):
        big = tier == "thorough"
        if safe:
            arr = st.tuples(st.integers(1, 6), st.integers(0, 8)).map(list)
        else:
            arr = st.lists(st.tuples(st.sampled_from([0, 0, 0, 1, 2, 4, 4, 8, 16]),
                                     st.sampled_from([0, 0, 0, 0, 1, -1, 2]),
                                     st.sampled_from([0] * 40 + [1, 1000, 123456789])).map(list),
                           min_size=4, max_size=40 if big else 24)
        return st.fixed_dictionaries({"tau": st.integers(0, len(TAU_TABLE) - 1), "qcap": st.integers(0, 5), "arr": arr,
                                      "driver": st.booleans(), "unit": st.sampled_from([NS // 10, NS // 512 * 4, 1000, NS]),
                                      "gap": st.sampled_from([1, 4, 8, 40])})
    return s


def ex_inductor_factory(obl, safe):
    def ex(case):
        from happysimulator import Event, Instant, Simulation
        from happysimulator.components.rate_limiter.inductor import Inductor
        r = Result()
        prefix = f"{P}/{obl}"
        qcap = _i(case.get("qcap"), 0, 8)
        tau = _pick(TAU_TABLE, case.get("tau"))
        unit = _i(case.get("unit"), 4, 10 * NS)
        if safe:
            a = case.get("arr") or [1, 0]
            n1 = _i(a[0] if len(a) > 0 else 1, 1, 8)
            n2 = _i(a[1] if len(a) > 1 else 0, 0, 10)
            gap = (_i(case.get("gap"), 1, 64) * unit) // 4
            ts = [0] * n1 + [max(1, gap)] * n2
        else:
            steps = [list(x) if isinstance(x, (list, tuple)) else [0, 0, 0] for x in (case.get("arr") or [[0, 0, 0]])][:64]
            ts = times_from(steps, unit) or [0]
        maxgap = max([b - a for a, b in zip(ts, ts[1:])] + [NS // 100])
        horizon = ts[-1] + 2 * (qcap + 2) * (maxgap + 2) + NS
        log = []
        rec = make_rec(log)("down")
        ind = Inductor("ind", rec, time_constant=tau, queue_capacity=qcap)
        ents = [ind, rec]
        driver = None
        if case.get("driver"):
            driver = make_driver(ts, lambda i: ind)
            ents.append(driver)
        sim = Simulation(entities=ents, end_time=Instant(horizon))
        if driver is not None:
            sim.schedule(Event(time=Instant(ts[0]), event_type="tick", target=driver, context={"i": 0}))
        else:
            for i, t in enumerate(ts):
                sim.schedule(Event(time=Instant(t), event_type="req", target=ind, context={"rid": i}))
        status, arrivals, probe = run_limiter_entity(r, prefix, ind, log, sim,
                                                     {"max_per_instant": 3000, "max_events": 60000}, qcap, len(ts))
        if status == "spin":
            r.add(f"{prefix}/spin", f"Inductor(time_constant={tau}, queue_capacity={qcap}): more than 3000 events at "
                                    f"{probe.spin_at} ns; smoothed interval {ind._smoothed_interval!r}")
        elif status == "budget":
            r.labels.append("inconclusive-budget")
        rids = judge_deliveries(r, prefix, ind, log, arrivals, status, "inductor")
        cls = order_clause(r, prefix, arrivals, rids)
        outs = Counter(o for _, o in arrivals)
        drained = sum(1 for (rid, o) in arrivals if o == "queued" and rid in set(rids))
        r.nontrivial = outs["queued"] > 0 and drained > 0
        r.labels += [f"queued={int(outs['queued'] > 0)}", f"dropped={int(outs['dropped'] > 0)}", f"status={status}"] + ([cls] if cls else [])
        r.observed = {"arrivals": arrivals[:30], "delivered": rids[:30]}
        return r
    return ex


# ------------------------------------------------------------------------------ DistributedRateLimiter
def distributed_strategy(tier):
    big = tier == "thorough"
    arr = st.lists(st.tuples(st.sampled_from([0, 0, 1, 1, 2, 4, 4, 4, 8]), st.sampled_from([0, 0, 0, 1, -1]),
                             st.sampled_from([0] * 40 + [1, 1000000, 20000000]), st.integers(0, 2)).map(list),
                   min_size=3, max_size=40 if big else 20)
    return st.fixed_dictionaries({"n": st.sampled_from([1, 1, 2, 3]), "limit": st.sampled_from([1, 1, 2, 3, 5]),
                                  "w": st.sampled_from(W_IDX),
                                  "rl": st.sampled_from([0, 0, 1, 2, 3, 4]), "wl": st.sampled_from([0, 0, 1, 2, 3, 4]),
                                  "thr": st.integers(0, len(THR_TABLE) - 1), "arr": arr, "driver": st.booleans(),
                                  "serial": st.booleans(),
                                  "start": st.integers(0, 12).map(lambda k: 4 * k) | st.integers(0, 48)})


def ex_distributed(case):
    from happysimulator import Event, Instant, Simulation
    from happysimulator.components.datastore.kv_store import KVStore
    from happysimulator.components.rate_limiter.distributed import DistributedRateLimiter
    r = Result()
    prefix = f"{P}/distributed"
    n = _i(case.get("n"), 1, 3)
    limit = _i(case.get("limit"), 1, 8)
    W = _pick(W_TABLE, case.get("w"))
    Wn = round(W * NS)
    rlat, wlat = _pick(LAT_TABLE, case.get("rl")), _pick(LAT_TABLE, case.get("wl"))
    thr = _pick(THR_TABLE, case.get("thr"))
    raw = [list(x) if isinstance(x, (list, tuple)) else [0, 0, 0, 0] for x in (case.get("arr") or [[0, 0, 0, 0]])][:64]
    if case.get("serial"):      # one instance, no two requests at one instant (judged a posteriori against the store latency)
        n = 1
        raw = [[max(1, _i(x[0] if x else 0))] + list(x[1:]) for x in raw]
    steps = [[_i(case.get("start"), 0, 64), 0, 0]] + [x[:3] for x in raw]
    ts = times_from(steps, Wn)[1:] or [0]
    inst_of = [_i(x[3] if len(x) > 3 else 0) % n for x in raw] or [0]
    kv = KVStore("kv", read_latency=rlat, write_latency=wlat)
    logs = [[] for _ in range(n)]
    recs = [make_rec(logs[i])(f"down{i}") for i in range(n)]
    lims = [DistributedRateLimiter(f"lim{i}", recs[i], kv, global_limit=limit, window_size=W, local_threshold=thr)
            for i in range(n)]
    ents = lims + recs + [kv]
    lat_ns = round((rlat + wlat) * NS)
    horizon = ts[-1] + 4 * lat_ns + NS
    driver = None
    if case.get("driver"):
        driver = make_driver(ts, lambda i: lims[inst_of[i]])
        ents.append(driver)
    sim = Simulation(entities=ents, end_time=Instant(horizon))
    if driver is not None:
        sim.schedule(Event(time=Instant(ts[0]), event_type="tick", target=driver, context={"i": 0}))
    else:
        for i, t in enumerate(ts):
            sim.schedule(Event(time=Instant(t), event_type="req", target=lims[inst_of[i]], context={"rid": i}))
    arrived = [[] for _ in range(n)]

    def hook(event):
        if event.event_type == "req":
            for k, lim in enumerate(lims):
                if event.target is lim:
                    arrived[k].append(event.context.get("rid"))

    probe = SimProbe(sim, on_event=hook, log=False, max_per_instant=3000, max_events=60000)
    status = probe.run()
    if status == "spin":
        r.add(f"{prefix}/spin", f"more than 3000 events at {probe.spin_at} ns")
    lost = False
    for k, lim in enumerate(lims):
        s = lim.stats
        rids = [x[1] for x in logs[k]]
        if status == "done":
            if s.requests_received != s.requests_forwarded + s.requests_dropped:
                r.add(f"{prefix}/accounting", f"lim{k}: received={s.requests_received} forwarded={s.requests_forwarded} "
                                              f"dropped={s.requests_dropped} at the horizon")
            if len(rids) != s.requests_forwarded:
                lost = True
                r.add(f"{prefix}/forwarded-not-delivered",
                      f"lim{k} (read_latency={rlat}, write_latency={wlat}): stats.requests_forwarded={s.requests_forwarded} but its "
                      f"downstream received {len(rids)} events; engine warnings: {len(probe.time_travel)} time-travel discards")
        dup = [x for x, c in Counter(rids).items() if c > 1]
        if dup:
            r.add(f"{prefix}/duplicate-delivery", f"lim{k}: request #{dup[0]} delivered {Counter(rids)[dup[0]]} times")
        ghost = [x for x in rids if x not in set(arrived[k])]
        if ghost:
            r.add(f"{prefix}/delivered-but-not-admitted", f"lim{k}: request #{ghost[0]} was never sent to this limiter")
        pos = {rid: j for j, rid in enumerate(arrived[k])}
        seq = [pos[x] for x in rids if x in pos]
        if any(a > b for a, b in zip(seq, seq[1:])):
            r.add(f"{prefix}/forward-order", f"lim{k}: arrival order {arrived[k][:10]}, delivery order {rids[:10]}")
    # per-window limit: one instance, requests that do not overlap in time
    serial = n == 1 and all(b - a > lat_ns for a, b in zip(ts, ts[1:]))
    if serial and status == "done":
        fwd = [t.nanoseconds for t in lims[0].forwarded_times]
        c = Counter(t // Wn for t in fwd)
        bad = sorted(k for k, v in c.items() if v > limit)
        if bad:
            k = bad[0]
            r.add(f"{prefix}/aligned-window-over-admit",
                  f"global_limit={limit} window_size={W}: {c[k]} requests that arrived in aligned window "
                  f"[{k * Wn},{(k + 1) * Wn}) ns were forwarded: {[t for t in fwd if t // Wn == k][:8]}")
    tot_f = sum(l.stats.requests_forwarded for l in lims)
    tot_d = sum(l.stats.requests_dropped for l in lims)
    r.nontrivial = tot_f > 0 and tot_d > 0 and lat_ns > 0
    r.labels += [f"n={n}", f"latency={int(lat_ns > 0)}", f"forwarded={int(tot_f > 0)}", f"dropped={int(tot_d > 0)}",
                 f"serial={int(serial)}", f"status={status}"]
    r.observed = {"delivered": [len(l) for l in logs], "forwarded": tot_f, "dropped": tot_d}
    return r


# ------------------------------------------------------------------------------ NullRateLimiter
def null_strategy(tier):
    arr = st.lists(st.tuples(st.sampled_from([0, 0, 0, 1, 4]), st.sampled_from([0, 0, 1]),
                             st.sampled_from([0, 0, 1, 1000]), st.sampled_from(["req", "other", "x::y"])).map(list),
                   min_size=1, max_size=25)
    return st.fixed_dictionaries({"arr": arr, "driver": st.booleans()})


def ex_null(case):
    from happysimulator import Event, Instant, Simulation
    from happysimulator.components.rate_limiter.null import NullRateLimiter
    r = Result()
    prefix = f"{P}/null"
    raw = [list(x) if isinstance(x, (list, tuple)) else [0, 0, 0, "req"] for x in (case.get("arr") or [[0, 0, 0, "req"]])][:64]
    ts = times_from([x[:3] for x in raw], NS // 512) or [0]
    types = [str(x[3]) if len(x) > 3 else "req" for x in raw]
    log = []
    rec = make_rec(log)("down")
    nl = NullRateLimiter("null", rec)
    ents = [nl, rec]
    sent = []

    def hook(event):
        if event.target is nl:
            sent.append((event.time.nanoseconds, event.context.get("rid")))

    if case.get("driver"):
        from happysimulator import Entity

        class Driver(Entity):
            def handle_event(self, event):
                i = event.context["i"]
                out = [Event(time=Instant(ts[i]), event_type=types[i], target=nl, context={"rid": i})]
                if i + 1 < len(ts):
                    out.append(Event(time=Instant(ts[i + 1]), event_type="tick", target=self, context={"i": i + 1}))
                return out
        d = Driver("driver")
        ents.append(d)
        sim = Simulation(entities=ents, end_time=Instant(ts[-1] + NS))
        sim.schedule(Event(time=Instant(ts[0]), event_type="tick", target=d, context={"i": 0}))
    else:
        sim = Simulation(entities=ents, end_time=Instant(ts[-1] + NS))
        for i, t in enumerate(ts):
            sim.schedule(Event(time=Instant(t), event_type=types[i], target=nl, context={"rid": i}))
    probe = SimProbe(sim, on_event=hook, log=False, max_per_instant=3000, max_events=20000)
    status = probe.run()
    if status == "spin":
        r.add(f"{prefix}/spin", f"more than 3000 events at {probe.spin_at} ns")
    if status == "done":
        if len(sent) != len(ts):
            r.add(f"{prefix}/request-not-handled", f"{len(sent)} of {len(ts)}")
        log = [x[:2] for x in log]          # (instant, request id); the event type is not part of the statement
        if log != sent:
            i = next((k for k, (a, b) in enumerate(zip(log, sent)) if a != b), min(len(log), len(sent)))
            r.add(f"{prefix}/not-forwarded-once-in-order",
                  f"handled {sent[max(0, i - 1):i + 2]} but downstream received {log[max(0, i - 1):i + 2]} "
                  f"({len(log)} deliveries for {len(sent)} requests)")
    r.nontrivial = len(ts) >= 3 and len(set(ts)) < len(ts)
    r.labels += [f"ties={int(len(set(ts)) < len(ts))}"]
    return r


# ------------------------------------------------------------------------------ registry
def _rule(kind):
    return (f"{kind}: policy parameters from float-unfriendly tables; up to 60 operations (try_acquire, time_until_available "
            "truthfulness probes on deep copies" + (", record_success/record_failure feedback" if kind == "adaptive" else "") +
            ") at non-decreasing instants whose gaps are quarter-multiples of the policy's window/refill period +-2 ns (0, 1 ns, "
            "exactly the period, multiples, large); non-trivial = at least one arrival exactly on (or 1 ns around) a window/refill "
            "boundary, at least one denial and at least one admit")


OBLIGATIONS = [Obligation(k, policy_strategy(k), ex_policy, {"quick": 2000, "thorough": 100000}, _rule(k)) for k in POLICIES] + [
    Obligation("entity", entity_strategy(False), ex_entity_factory("entity", False), {"quick": 1500, "thorough": 70000},
               "RateLimitedEntity x 5 policies x queue capacity 0..5 in a real Simulation; tagged requests scheduled before the run "
               "or created during the run by a driver entity, gaps as for the policies (so arrivals coincide with poll instants); "
               "judged: per-event accounting, one outcome per request, drops only when full, every forward delivered exactly once at "
               "the forward instant, arrival order, drained at a computed horizon, no spin, forwards obey the policy bound; "
               "non-trivial = a queued request was later forwarded by a poll"),
    Obligation("entity-safe", entity_strategy(True), ex_entity_factory("entity-safe", True), {"quick": 600, "thorough": 30000},
               "restricted domain in which a new arrival can never meet a non-empty queue with capacity available: bursts of "
               "same-instant arrivals separated by more than the drain horizon; all clauses, no exclusions; non-trivial = a queued "
               "request was later forwarded"),
    Obligation("inductor", inductor_strategy(False), ex_inductor_factory("inductor", False), {"quick": 1000, "thorough": 50000},
               "Inductor (tau from {1, .1, 2, .01, 10}, queue capacity 0..5) in a real Simulation with the same arrival shapes; same "
               "entity clauses (no rate bound: the Inductor has none); non-trivial = a queued request was later forwarded"),
    Obligation("inductor-safe", inductor_strategy(True), ex_inductor_factory("inductor-safe", True), {"quick": 300, "thorough": 15000},
               "restricted domain: arrivals at no more than two distinct instants (nothing is queued at the first, nothing arrives "
               "after the second), so a new arrival never meets a non-empty queue; all clauses, no exclusions"),
    Obligation("distributed", distributed_strategy, ex_distributed, {"quick": 800, "thorough": 40000},
               "1-3 DistributedRateLimiter instances sharing one KVStore with read/write latency from {0, 1 ms, 1/512 s, 5 ms, 50 ms}, "
               "limit 1..5, windows from the table; judged: received = forwarded + dropped at the horizon, every forwarded request "
               "reaches that instance's downstream exactly once, in arrival order; per-window limit only for one instance with "
               "non-overlapping requests; non-trivial = non-zero store latency and at least one forward and one drop"),
    Obligation("null", null_strategy, ex_null, {"quick": 300, "thorough": 10000},
               "NullRateLimiter: the downstream receives exactly the handled requests, once, at the same instant, in the same order; "
               "non-trivial = same-instant ties among >= 3 requests"),
]
