"""C19 — messaging: delivered until acknowledged, to the right consumers, in offset order.

Every obligation runs the real components inside a real Simulation; publishers, pollers, consumers and
subscribers are harness entities whose behaviour comes from the generated case; the oracle judges what
the consumer entities actually *received* (instant, message, attempt), the public counters and the
dead-letter queue contents.  Message ids are uuid4 strings: they are only ever used as opaque keys that
the harness maps to its own publication index, so the verdict is a pure function of the case."""
from __future__ import annotations

from collections import Counter, defaultdict

from hypothesis import strategies as st

from ..harness import TICK, SimProbe
from ..runner import Obligation, Result

P = "C19"
NS = 10**9

ASSUMPTIONS = [
    "MessageQueue is always given a DeadLetterQueue (unbounded, no retention): without one a final reject is a documented "
    "discard, which the statement's 'dead-lettered' does not cover",
    "redelivery limit: both readings of max_redeliveries are accepted (limit on deliveries or on re-deliveries): a message is "
    "never received more than 1+max_redeliveries times; a requeue-reject / redelivery request at attempt >= 1+max_redeliveries "
    "must dead-letter it; a message dead-lettered by such a request must have reached attempt >= max_redeliveries",
    "accounting is judged per message (queue / acknowledged / dead-letter queue) and on the published, acknowledged and "
    "dead-lettered counters; pending_count/in_flight_count are not summed because a message delivered twice may legitimately be "
    "rejected twice",
    "'delivery instant' = instant of the poll / redelivery event + Duration.from_seconds(delivery_latency); a delivery whose "
    "initiation instant equals the acknowledge instant is accepted (same-instant order is not specified)",
    "a consumer must have been subscribed at some moment of the initiation instant of a delivery it receives",
    "schedule_redelivery may return None only if the message is not in flight, was dead-lettered by the call, or an earlier "
    "granted redelivery timer for it has not fired yet (the harness tracks the granted events by identity); any other refusal of "
    "an in-flight, un-acknowledged message is a violation ('never refused forever')",
    "Topic: script actions happen at distinct instants, so 'active at publish time' is unambiguous; replayed history deliveries "
    "(is_replay) are not counted",
    "EventLog/ConsumerGroup: a consumer's own operations are sequential (one at a time; only a 'bounce' = leave followed 0-2 ticks "
    "later by a join under the same name is issued by a separate admin process and may overlap the rebalance delay) and it commits what a real consumer "
    "commits: highest polled offset + 1 per partition; committed offsets are read from ConsumerGroup._committed_offsets "
    "(read-only observation; consumer_lag exposes them only for currently assigned partitions)",
    "an assignment with no members is accepted (nothing can own the partitions)",
]

LAT = [0.0, 1 / 512, 2 / 512, 0.001, 8 / 512]
RDELAY = [4 / 512, 16 / 512, 0.03, 1 / 512]


def _i(x, lo=0, hi=None):
    try:
        v = int(x)
    except (TypeError, ValueError):
        v = 0
    v = max(lo, v)
    return v if hi is None else min(hi, v)


def _pick(t, i):
    return t[_i(i) % len(t)]


def _dur_ns(seconds):
    from happysimulator.core.temporal import Duration
    return Duration.from_seconds(float(seconds)).nanoseconds


def _script_times(script, min_dt=0):
    t, out = 0, []
    for s in script:
        dt = _i(s[0] if isinstance(s, (list, tuple)) and s else 0, min_dt, 64)
        t += dt * TICK
        out.append(t)
    return out


# ------------------------------------------------------------------------------ MessageQueue
def mq_strategy(tier):
    big = tier == "thorough"
    act = st.tuples(st.sampled_from([0, 0, 1, 1, 2, 4, 9]),
                    st.sampled_from(["pub", "pub", "pub", "poll", "poll", "poll", "poll", "sub", "unsub"]),
                    st.integers(0, 2)).map(list)
    react = st.tuples(st.sampled_from(["ack", "ack", "ack", "nack", "nack", "drop", "timeout", "timeout", "timeout", "tunsub", "tunsub", "none"]),
                      st.sampled_from([0, 0, 0, 1, 3])).map(list)
    return st.fixed_dictionaries({
        "lat": st.sampled_from([0, 0, 1, 1, 2, 3, 4]), "rdelay": st.integers(0, len(RDELAY) - 1),
        "maxr": st.integers(0, 3), "cap": st.none() | st.integers(1, 5), "ncons": st.integers(1, 3),
        "init": st.integers(0, 7), "autopoll": st.booleans(),
        "script": st.lists(act, min_size=6, max_size=40 if big else 22),
        "react": st.lists(react, min_size=1, max_size=8)})


def ex_mq(case):
    from happysimulator import Entity, Event, Instant, Simulation
    from happysimulator.components.messaging.dlq import DeadLetterQueue
    from happysimulator.components.messaging.message_queue import MessageQueue
    r = Result()
    pre = f"{P}/mq"
    lat = _pick(LAT, case.get("lat"))
    L = _dur_ns(lat)
    rdelay = _pick(RDELAY, case.get("rdelay"))
    maxr = _i(case.get("maxr"), 0, 4)
    cap = case.get("cap")
    cap = None if cap is None else _i(cap, 1, 8)
    ncons = _i(case.get("ncons"), 1, 3)
    script = [s if isinstance(s, (list, tuple)) and len(s) >= 3 else [0, "poll", 0] for s in (case.get("script") or [])][:60]
    script = script or [[0, "poll", 0]]
    react = [x if isinstance(x, (list, tuple)) and len(x) >= 2 else ["ack", 0] for x in (case.get("react") or [])][:16]
    react = react or [["ack", 0]]
    autopoll = bool(case.get("autopoll"))
    times = _script_times(script)

    dlq = DeadLetterQueue("dlq")
    q = MessageQueue("q", delivery_latency=lat, redelivery_delay=rdelay, max_redeliveries=maxr, capacity=cap,
                     dead_letter_queue=dlq)
    mid_of, pid_of = {}, {}          # pid -> message id, message id -> pid
    pubs = []                        # (pid, t, ok)
    receipts = []                    # (t, consumer, pid, attempt)
    acts = []                        # (t, kind, pid, attempt, exists_after, in_dlq_after, extra)
    acked_at = {}
    member = {c: [] for c in range(ncons)}     # consumer -> list of (t, +1/-1)
    nrec = [0]
    npub = [0]
    granted, outstanding, keep = {}, {}, []     # id(redelivery event) -> message id; message id -> timers not yet fired
    state = {"d": 0, "lost": False, "redel": False, "refused": False, "nosub": 0, "stuck": False, "maxtimers": 0}

    def in_dlq(mid):
        return any(m.id == mid for m in dlq.messages)

    class Consumer(Entity):
        def __init__(self, idx):
            super().__init__(f"c{idx}")
            self.idx = idx

        def handle_event(self, event):
            if event.event_type != "message_delivery":
                return None
            mid = event.context.get("message_id")
            k = event.context.get("delivery_count")
            pl = event.context.get("payload")
            pid = pl.context.get("pid") if pl is not None else pid_of.get(mid)
            if pid is not None:
                pid_of.setdefault(mid, pid)
            receipts.append((self.now.nanoseconds, self.idx, pid, k))
            kind, delay = react[nrec[0] % len(react)][:2]
            nrec[0] += 1
            d = _i(delay, 0, 8)
            if d:
                yield d / 512
            out = []
            m0 = q.get_message(mid)
            existed = m0 is not None
            if existed:
                k = max(k or 0, m0.delivery_count)      # attempts so far (the message may have been delivered again meanwhile)
            extra = None
            if kind == "ack":
                q.acknowledge(mid)
                if existed:
                    acked_at.setdefault(mid, self.now.nanoseconds)
            elif kind == "nack":
                q.reject(mid, requeue=True)
            elif kind == "drop":
                q.reject(mid, requeue=False)
            elif kind in ("timeout", "tunsub"):
                was_in_flight = existed and getattr(m0.state, "value", None) == "delivered"
                timers = outstanding.get(mid, 0)
                ev = q.schedule_redelivery(mid)
                extra = None if ev is None else ev.time.nanoseconds
                if ev is not None:
                    out.append(ev)
                    granted[id(ev)] = mid
                    outstanding[mid] = timers + 1
                    keep.append(ev)
                elif was_in_flight and timers == 0 and q.get_message(mid) is not None and not state["refused"]:
                    # in flight, un-acked, below the limit (still in the queue), no redelivery timer pending: must be granted
                    state["refused"] = True
                    r.add(f"{pre}/redelivery-request-refused",
                          f"schedule_redelivery(message #{pid}) returned None at {self.now.nanoseconds} ns although the message is in "
                          f"flight (attempt {k}, max_redeliveries={maxr}), not acknowledged, and no earlier redelivery timer is pending")
                if kind == "tunsub" and ev is not None:
                    # every consumer goes away before the timer fires; this one comes back after it and polls
                    for c in range(ncons):
                        if cons[c] in q.downstream_entities():
                            q.unsubscribe(cons[c])
                            member[c].append((self.now.nanoseconds, -1))
                    back = ev.time + (1 + _i(delay, 0, 8)) / 512
                    out.append(Event(time=back, event_type="resub", target=actor, context={"c": self.idx}))
                kind = "timeout"
            acts.append((self.now.nanoseconds, kind, pid, k, q.get_message(mid) is not None, in_dlq(mid), extra, existed))
            if autopoll:
                out.append(Event(time=self.now, event_type="poll", target=q))
            return out

    cons = [Consumer(i) for i in range(ncons)]

    class Actor(Entity):
        def handle_event(self, event):
            now = self.now.nanoseconds
            if event.event_type == "resub":
                c = _i(event.context.get("c")) % ncons
                q.subscribe(cons[c])
                member[c].append((now, 1))
                return [Event(time=self.now, event_type="poll", target=q)]
            i = event.context["i"]
            _, kind, arg = script[i][:3]
            if kind == "pub":
                pid = npub[0]
                npub[0] += 1
                try:
                    mid = yield from q.publish(Event(time=self.now, event_type="payload", target=self, context={"pid": pid}))
                except RuntimeError:
                    pubs.append((pid, now, False))
                    return None
                mid_of[pid] = mid
                pid_of[mid] = pid
                pubs.append((pid, now, True))
                return None
            if kind == "sub":
                c = _i(arg) % ncons
                q.subscribe(cons[c])
                member[c].append((now, 1))
            elif kind == "unsub":
                c = _i(arg) % ncons
                q.unsubscribe(cons[c])
                member[c].append((now, -1))
            elif kind == "poll":
                return [Event(time=self.now, event_type="poll", target=q)]
            return None

    actor = Actor("actor")
    init = _i(case.get("init"), 0, 7)
    for c in range(ncons):
        if init >> c & 1 or (c == 0 and init == 0):
            q.subscribe(cons[c])
            member[c].append((-1, 1))
    horizon = times[-1] + 600 * TICK
    sim = Simulation(entities=[q, dlq, actor] + cons, end_time=Instant(horizon))
    for i, t in enumerate(times):
        sim.schedule(Event(time=Instant(t), event_type="act", target=actor, context={"i": i}))

    inits = []                        # initiation instants of deliveries the queue accounted for

    def per_message_check(now):
        if state["lost"]:
            return
        for pid, mid in mid_of.items():
            if q.get_message(mid) is None and mid not in acked_at and not in_dlq(mid):
                # an ack is recorded by the consumer right after the call; anything else has vanished
                state["lost"] = True
                r.add(f"{pre}/message-lost", f"message #{pid} is neither in the queue, nor acknowledged, nor dead-lettered at {now} ns")
                return

    prev = {"pending": 0, "consumers": q.consumer_count, "tot": 0}

    def hook(event):
        s = q.stats
        tot = s.messages_delivered + s.messages_redelivered
        if (event.target is q and event.event_type == "poll" and type(event).__name__ == "Event" and not state["stuck"]
                and prev["pending"] > 0 and prev["consumers"] > 0 and tot == prev["tot"]):
            # state before this event = state after the previous one: something was pending, a consumer was subscribed
            state["stuck"] = True
            r.add(f"{pre}/poll-did-not-deliver-pending",
                  f"poll at {event.time.nanoseconds} ns with pending_count={prev['pending']} and {prev['consumers']} consumer(s) subscribed "
                  f"delivered nothing (pending_count now {q.pending_count}, in_flight {q.in_flight_count})")
        prev["pending"], prev["consumers"], prev["tot"] = q.pending_count, q.consumer_count, tot
        state["maxtimers"] = max(state["maxtimers"], sum(outstanding.values()))
        if event.target is q:
            if tot > state["d"]:
                inits.extend([event.time.nanoseconds] * (tot - state["d"]))
                state["d"] = tot
            if id(event) in granted:
                mid_f = granted.pop(id(event))
                outstanding[mid_f] = max(0, outstanding.get(mid_f, 0) - 1)
                if q.consumer_count == 0:
                    state["nosub"] += 1
            if event.event_type == "message_redelivery" and not state["redel"]:
                mid = event.context.get("message_id")
                m = q.get_message(mid)
                if m is not None and q.consumer_count > 0 and getattr(m.state, "value", None) == "pending":
                    state["redel"] = True
                    r.add(f"{pre}/redelivery-not-delivered",
                          f"redelivery of message #{pid_of.get(mid)} fired at {event.time.nanoseconds} ns with {q.consumer_count} "
                          f"consumer(s) subscribed but the message stayed pending")

    def adv(instant):
        per_message_check(instant.nanoseconds)

    probe = SimProbe(sim, on_event=hook, on_advance=adv, log=False, max_per_instant=4000, max_events=80000)
    status = probe.run()
    if status == "spin":
        r.add(f"{pre}/spin", f"more than 4000 events at {probe.spin_at} ns")
    elif status == "budget":
        r.labels.append("inconclusive-budget")
    per_message_check(horizon)

    s = q.stats
    ok_pubs = [p for p in pubs if p[2]]
    if status == "done" and s.messages_published != len(ok_pubs):
        r.add(f"{pre}/published-counter", f"messages_published={s.messages_published}, {len(ok_pubs)} publishes succeeded")
    if status == "done" and s.messages_acknowledged != len(acked_at):
        r.add(f"{pre}/acknowledged-counter", f"messages_acknowledged={s.messages_acknowledged}, {len(acked_at)} acknowledgements took effect")
    if s.messages_dead_lettered != dlq.message_count:
        r.add(f"{pre}/dead-letter-counter", f"messages_dead_lettered={s.messages_dead_lettered}, DLQ holds {dlq.message_count}")
    for p in pubs:
        if not p[2] and cap is None:
            r.add(f"{pre}/publish-refused-without-capacity", f"publish #{p[0]} raised RuntimeError on an unbounded queue")
    both = [pid_of[m] for m in acked_at if in_dlq(m)]
    if both:
        r.add(f"{pre}/acknowledged-and-dead-lettered", f"message #{both[0]}")

    if status == "done":
        # J2: every delivery the queue accounts for is received, at initiation + latency
        want = sorted(t + L for t in inits)
        got = sorted(x[0] for x in receipts)
        if len(got) < len(want):
            r.add(f"{pre}/delivery-not-received",
                  f"delivery_latency={lat}: the queue counts {len(want)} deliveries (delivered={s.messages_delivered}, "
                  f"redelivered={s.messages_redelivered}) but consumers received {len(got)}; "
                  f"{len(probe.time_travel)} events were discarded by the engine as lying in the past")
        elif len(got) > len(want):
            r.add(f"{pre}/delivery-not-accounted", f"consumers received {len(got)} deliveries, the queue counts {len(want)}")
        elif any(abs(a - b) > 1 for a, b in zip(want, got)):
            r.add(f"{pre}/delivery-instant", f"expected receive instants {want[:6]}, observed {got[:6]}")
    # J3 first deliveries follow publish order
    firsts = [x[2] for x in receipts if x[3] == 1 and x[2] is not None]
    if any(a > b for a, b in zip(firsts, firsts[1:])):
        r.add(f"{pre}/first-delivery-order", f"first deliveries arrived in order {firsts[:12]} (publish order is 0,1,2,...)")
    dupfirst = [k for k, c in Counter(firsts).items() if c > 1]
    if dupfirst:
        r.add(f"{pre}/two-first-deliveries", f"message #{dupfirst[0]} was received twice with delivery_count 1")
    # J4 limit
    per = Counter(x[2] for x in receipts if x[2] is not None)
    over = sorted(k for k, c in per.items() if c > 1 + maxr)
    if over:
        r.add(f"{pre}/redelivery-limit/too-many-deliveries", f"message #{over[0]} received {per[over[0]]} times, max_redeliveries={maxr}")
    for (t, kind, pid, k, exists, dl, extra, existed) in acts:
        if kind in ("nack", "timeout") and existed and k is not None:
            # at or beyond the limit under both readings: a requeue / a granted redelivery request is a violation
            if k >= 1 + maxr and exists and (kind == "nack" or extra is not None):
                r.add(f"{pre}/redelivery-limit/not-dead-lettered",
                      f"message #{pid} attempt {k} >= 1+max_redeliveries({maxr}): {kind} at {t} ns left it in the queue")
                break
            if dl and k < maxr:
                r.add(f"{pre}/redelivery-limit/dead-lettered-early",
                      f"message #{pid} dead-lettered by {kind} at attempt {k} < max_redeliveries={maxr}")
                break
        if kind == "drop" and existed and not dl:
            r.add(f"{pre}/reject-without-requeue-not-dead-lettered", f"message #{pid} rejected (requeue=False) at {t} ns is not in the DLQ")
            break
    # J5 nothing delivered again after the acknowledgement
    for (t, c, pid, k) in receipts:
        mid = mid_of.get(pid)
        if mid in acked_at and t - L > acked_at[mid]:
            r.add(f"{pre}/delivered-after-ack",
                  f"message #{pid} acknowledged at {acked_at[mid]} ns, delivery initiated at {t - L} ns received at {t} ns")
            break
    # J7 receiving consumer was subscribed at the initiation instant
    for (t, c, pid, k) in receipts:
        ini = t - L
        sub, at_instant = False, False
        for (mt, dlt) in member[c]:
            if mt < ini:
                sub = dlt > 0
            elif mt == ini:
                at_instant = True
        if not sub and not at_instant:
            r.add(f"{pre}/delivered-to-unsubscribed", f"consumer c{c} received message #{pid} initiated at {ini} ns while not subscribed")
            break
    kinds = Counter(a[1] for a in acts)
    dead = dlq.message_count
    redeliv = sum(1 for x in receipts if (x[3] or 0) > 1)
    r.nontrivial = redeliv > 0 and dead > 0
    r.labels += [f"latency={int(L > 0)}", f"received={int(bool(receipts))}", f"redelivered={int(redeliv > 0)}",
                 f"dead-lettered={int(dead > 0)}", f"acked={int(bool(acked_at))}", f"timer-without-subscriber={int(state['nosub'] > 0)}", f"simultaneous-redelivery-timers>=2={int(state['maxtimers'] >= 2)}", f"status={status}"]
    r.target = float(min(redeliv, 5) + min(dead, 3) + 3 * min(state["nosub"], 3) + 3 * min(state["maxtimers"], 4))
    r.observed = {"receipts": receipts[:20], "stats": [s.messages_published, s.messages_delivered, s.messages_redelivered,
                                                         s.messages_acknowledged, s.messages_dead_lettered]}
    return r


# ------------------------------------------------------------------------------ Topic
def topic_strategy(tier):
    big = tier == "thorough"
    act = st.tuples(st.sampled_from([1, 1, 1, 2, 5]),
                    st.sampled_from(["pub", "pub", "pub", "pubevent", "pubsync", "sub", "sub", "unsub", "subreplay"]),
                    st.integers(0, 3)).map(list)
    return st.fixed_dictionaries({"lat": st.sampled_from([0, 1, 1, 2, 3, 4]), "nsub": st.integers(1, 4), "init": st.integers(0, 15),
                                  "retain": st.booleans(), "script": st.lists(act, min_size=4, max_size=30 if big else 16)})


def ex_topic(case):
    from happysimulator import Entity, Event, Instant, Simulation
    from happysimulator.components.messaging.topic import Topic
    r = Result()
    pre = f"{P}/topic"
    lat = _pick(LAT, case.get("lat"))
    nsub = _i(case.get("nsub"), 1, 4)
    script = [s if isinstance(s, (list, tuple)) and len(s) >= 3 else [1, "pub", 0] for s in (case.get("script") or [])][:40]
    script = script or [[1, "pub", 0]]
    times = _script_times(script, min_dt=1)
    topic = Topic("topic", delivery_latency=lat)
    if case.get("retain"):
        topic.set_retain_messages(True, max_history=5)
    got = []        # (t, sub, pid, is_replay)

    class Sub(Entity):
        def __init__(self, idx):
            super().__init__(f"s{idx}")
            self.idx = idx

        def handle_event(self, event):
            if event.event_type == "topic_message":
                pl = event.context.get("payload")
                got.append((self.now.nanoseconds, self.idx, pl.context.get("pid") if pl is not None else None,
                            bool(event.context.get("is_replay"))))
            return None

    subs = [Sub(i) for i in range(nsub)]
    expected = {}       # pid -> set of subscriber idx active at publish time
    active = set()      # harness-side model: subscribers whose last (successful) call was subscribe

    class Actor(Entity):
        def handle_event(self, event):
            i = event.context["i"]
            _, kind, arg = script[i][:3]
            c = _i(arg) % nsub
            if kind in ("pub", "pubsync", "pubevent"):
                pid = len(expected)
                msg = Event(time=self.now, event_type="payload", target=self, context={"pid": pid})
                expected[pid] = set(active)
                if kind == "pub":
                    evs = yield from topic.publish(msg)
                    return evs
                if kind == "pubsync":
                    return topic.publish_sync(msg)
                return [Event(time=self.now, event_type="publish", target=topic, context={"payload": msg})]
            if kind in ("sub", "subreplay"):
                try:
                    evs = topic.subscribe(subs[c], replay_history=(kind == "subreplay"))
                except RuntimeError:
                    return None
                active.add(c)
                return evs
            if kind == "unsub":
                topic.unsubscribe(subs[c])
                active.discard(c)
            return None

    actor = Actor("actor")
    init = _i(case.get("init"), 0, 15)
    for c in range(nsub):
        if init >> c & 1:
            topic.subscribe(subs[c])
            active.add(c)
    horizon = times[-1] + (nsub + 2) * _dur_ns(lat) + 100 * TICK
    sim = Simulation(entities=[topic, actor] + subs, end_time=Instant(horizon))
    for i, t in enumerate(times):
        sim.schedule(Event(time=Instant(t), event_type="act", target=actor, context={"i": i}))
    probe = SimProbe(sim, log=False, max_per_instant=4000, max_events=60000)
    status = probe.run()
    if status == "spin":
        r.add(f"{pre}/spin", f"more than 4000 events at {probe.spin_at} ns")
    live = Counter((s, pid) for (t, s, pid, rep) in got if not rep)
    if status == "done":
        missed = sorted((pid, s) for pid, act in expected.items() for s in act if live[(s, pid)] == 0)
        if missed:
            pid, s = missed[0]
            r.add(f"{pre}/subscriber-missed-message",
                  f"delivery_latency={lat}: message #{pid} published with active subscribers {sorted(expected[pid])} never reached s{s} "
                  f"({len(missed)} missing deliveries in total; {len(probe.time_travel)} events discarded by the engine as lying in the past)")
        st_ = topic.stats
        if st_.messages_published != len(expected):
            r.add(f"{pre}/published-counter", f"{st_.messages_published} != {len(expected)}")
        if st_.messages_delivered != sum(len(v) for v in expected.values()):
            r.add(f"{pre}/delivered-counter",
                  f"messages_delivered={st_.messages_delivered}, expected {sum(len(v) for v in expected.values())}")
    dup = sorted(k for k, c in live.items() if c > 1)
    if dup:
        r.add(f"{pre}/duplicate-delivery", f"s{dup[0][0]} received message #{dup[0][1]} {live[dup[0]]} times")
    stray = sorted((pid, s) for (s, pid) in live if pid in expected and s not in expected[pid])
    if stray:
        r.add(f"{pre}/delivered-to-inactive-subscriber", f"s{stray[0][1]} received message #{stray[0][0]} but was not active when it was "
                                                         f"published (active: {sorted(expected[stray[0][0]])})")
    sizes = [len(v) for v in expected.values()]
    changed = len({tuple(sorted(v)) for v in expected.values()}) > 1
    r.nontrivial = bool(sizes) and max(sizes) >= 2 and changed
    r.labels += [f"latency={int(lat > 0)}", f"multi={int(bool(sizes) and max(sizes) >= 2)}", f"membership-change={int(changed)}",
                 f"status={status}"]
    r.observed = {"expected": {k: sorted(v) for k, v in list(expected.items())[:10]}, "got": got[:20]}
    return r


# ------------------------------------------------------------------------------ EventLog
KEYS = ["a", "b", "c", "user-1", "user-2", "k5", "", "zz"]


def log_strategy(tier):
    big = tier == "thorough"
    act = st.tuples(st.sampled_from([0, 0, 1, 1, 2, 5]), st.sampled_from(["app", "app", "app", "read", "read"]),
                    st.integers(0, len(KEYS) - 1), st.sampled_from([0, 0, 1, 2, 3, 4, 5, 6, 8, 11]), st.sampled_from([1, 2, 3, 100, 100])).map(list)
    return st.fixed_dictionaries({"np": st.sampled_from([1, 1, 2, 3, 4]), "ret": st.sampled_from([[0, 0], [0, 0], [1, 2], [1, 5], [2, 4], [2, 12], [2, 40]]),
                                  "al": st.integers(0, len(LAT) - 1), "rl": st.integers(0, len(LAT) - 1),
                                  "interval": st.sampled_from([3, 10, 30]),
                                  "script": st.lists(act, min_size=8, max_size=50 if big else 28)})


def ex_log(case):
    from happysimulator import Entity, Event, Instant, Simulation
    from happysimulator.components.streaming.event_log import EventLog, SizeRetention, TimeRetention
    r = Result()
    pre = f"{P}/log"
    np_ = _i(case.get("np"), 1, 4)
    ret = case.get("ret") if isinstance(case.get("ret"), (list, tuple)) and len(case.get("ret")) >= 2 else [0, 0]
    rk, rp = _i(ret[0]) % 3, _i(ret[1], 1, 64)
    policy = None if rk == 0 else (SizeRetention(rp) if rk == 1 else TimeRetention(rp / 512))
    al, rl = _pick(LAT, case.get("al")), _pick(LAT, case.get("rl"))
    interval = _i(case.get("interval"), 1, 64) / 512
    script = [s if isinstance(s, (list, tuple)) and len(s) >= 5 else [0, "app", 0, 0, 1] for s in (case.get("script") or [])][:80]
    script = script or [[0, "app", 0, 0, 1]]
    times = _script_times(script)
    log = EventLog("log", num_partitions=np_, retention_policy=policy, append_latency=al, read_latency=rl,
                   retention_check_interval=interval)
    appended = []     # (done_t, seq, key, value, Record)
    reads = []        # (start_t, done_t, pid, offset, maxn, [Record])

    class Worker(Entity):
        def handle_event(self, event):
            i = event.context["i"]
            _, kind, a, b, c = script[i][:5]
            if kind == "app":
                key = KEYS[_i(a) % len(KEYS)]
                rec = yield from log.append(key, i)
                appended.append((self.now.nanoseconds, len(appended), key, i, rec))
            else:
                pid, off, mx = _i(a) % np_, _i(b, 0, 50), _i(c, 1, 100)
                t0 = self.now.nanoseconds
                recs = yield from log.read(pid, off, mx)
                reads.append((t0, self.now.nanoseconds, pid, off, mx, list(recs)))
            return None

    w = Worker("worker")
    horizon = times[-1] + 200 * TICK
    sim = Simulation(entities=[log, w], end_time=Instant(horizon))
    for i, t in enumerate(times):
        sim.schedule(Event(time=Instant(t), event_type="act", target=w, context={"i": i}))
    state = {"gap": False}

    def contiguous():
        if state["gap"]:
            return
        for p in log.partitions:
            offs = [x.offset for x in p.records]
            if offs and (offs != list(range(offs[0], offs[0] + len(offs))) or offs[-1] != p.high_watermark - 1):
                state["gap"] = True
                r.add(f"{pre}/stored-offsets-not-contiguous", f"partition {p.id}: offsets {offs[:12]} high_watermark {p.high_watermark}")
                return

    judged, behind = [], [0]

    def read_hook(event):
        # right after the log served a Read (its reply future has just been resolved) the partition still holds exactly the
        # records the read saw: the answer must be the retained records with offset >= requested, oldest first, at most max
        if event.target is not log:
            return
        fut = event.context.get("reply_future") if isinstance(event.context, dict) else None
        if fut is None or "partition" not in event.context or not fut.is_resolved or any(f is fut for f in judged):
            return
        judged.append(fut)
        pid, off, mx = event.context.get("partition", 0), event.context.get("offset", 0), event.context.get("max_records", 100)
        if not (0 <= pid < np_):
            return
        stored = list(log.partitions[pid].records)
        want = [x for x in stored if x.offset >= off][:mx]
        got = list(fut.value or [])
        if stored and off < stored[0].offset:
            behind[0] += 1
        if [x.offset for x in got] != [x.offset for x in want] and not state.get("readset"):
            state["readset"] = True
            r.add(f"{pre}/read-not-the-retained-records-from-offset",
                  f"read(p{pid}, offset={off}, max={mx}) at {event.time.nanoseconds} ns returned offsets {[x.offset for x in got][:12]}; "
                  f"retained offsets are {[x.offset for x in stored][:16]}, expected {[x.offset for x in want][:12]}")

    probe = SimProbe(sim, log=False, on_event=read_hook, on_advance=lambda t: contiguous(), max_per_instant=4000, max_events=80000)
    status = probe.run()
    contiguous()
    if status == "spin":
        r.add(f"{pre}/spin", f"more than 4000 events at {probe.spin_at} ns")
    byp = defaultdict(list)
    keyp = {}
    for (t, seq, key, val, rec) in appended:
        if rec is None or not hasattr(rec, "offset"):
            r.add(f"{pre}/append-returned-no-record", f"append #{val} returned {rec!r}")
            continue
        if not (0 <= rec.partition < np_):
            r.add(f"{pre}/partition-out-of-range", f"{rec.partition}")
        if keyp.setdefault(key, rec.partition) != rec.partition:
            r.add(f"{pre}/key-partition-changed", f"key {key!r}: partitions {keyp[key]} and {rec.partition}")
        if rec.key != key or rec.value != val:
            r.add(f"{pre}/record-content", f"append({key!r},{val}) returned {rec!r}")
        byp[rec.partition].append(rec.offset)
    for pid, offs in sorted(byp.items()):
        if offs != list(range(len(offs))):
            r.add(f"{pre}/offsets-not-gap-free-increasing", f"partition {pid}: offsets in append order {offs[:15]}")
            break
    if status == "done":
        for pid in range(np_):
            if log.high_watermark(pid) != len(byp.get(pid, [])):
                r.add(f"{pre}/high-watermark", f"partition {pid}: high_watermark {log.high_watermark(pid)} after {len(byp.get(pid, []))} appends")
                break
        pending = len([s for s in script if s[1] == "app"]) - len(appended)
        if pending:
            r.add(f"{pre}/append-never-completed", f"{pending} appends did not return by the horizon")
    truth = {(rec.partition, rec.offset): rec for (_, _, _, _, rec) in appended if hasattr(rec, "offset")}
    for (t0, t1, pid, off, mx, recs) in reads:
        offs = [x.offset for x in recs]
        if len(recs) > mx:
            r.add(f"{pre}/read-more-than-max", f"read(p{pid}, {off}, {mx}) returned {len(recs)} records")
        if any(x.partition != pid for x in recs):
            r.add(f"{pre}/read-foreign-partition", f"read(p{pid}) returned partitions {[x.partition for x in recs][:6]}")
        if offs and (offs != list(range(offs[0], offs[0] + len(offs))) or offs[0] < off):
            r.add(f"{pre}/read-not-in-offset-order", f"read(p{pid}, offset={off}) returned offsets {offs[:12]}")
        elif offs and policy is None and offs[0] != off:
            r.add(f"{pre}/read-skipped-records", f"read(p{pid}, offset={off}) starts at {offs[0]} without a retention policy")
        bad = [x for x in recs if truth.get((x.partition, x.offset)) is not None and truth[(x.partition, x.offset)] != x]
        if bad:
            r.add(f"{pre}/read-record-differs-from-appended", f"{bad[0]!r}")
    r.target = float(min(behind[0], 5))
    multi = any(len(v) >= 3 for v in byp.values())
    expired = log.stats.records_expired > 0
    r.nontrivial = multi and (expired or policy is None) and any(x[5] for x in reads)
    r.labels += [f"read-behind-retained-base={int(behind[0] > 0)}", f"partitions={np_}", f"retention={rk}", f"expired={int(expired)}", f"reads={int(bool(reads))}", f"status={status}"]
    r.observed = {"offsets": {k: v[:10] for k, v in byp.items()}}
    return r


# ------------------------------------------------------------------------------ ConsumerGroup
def group_strategy(tier):
    big = tier == "thorough"
    act = st.tuples(st.sampled_from([0, 1, 1, 2, 3, 5, 8]),
                    st.sampled_from(["join", "leave", "rejoin", "rejoin", "bounce", "bounce", "visit", "visit", "visit", "poll", "poll", "poll",
                                     "poll", "poll",
                                     "app", "app", "app", "app", "app"]),
                    st.integers(0, 3), st.integers(0, len(KEYS) - 1), st.sampled_from([1, 1, 2, 3, 100, 100])).map(list)
    return st.fixed_dictionaries({"np": st.integers(1, 5), "strategy": st.sampled_from([2, 1, 0, 1, 2, 0]), "rdelay": st.sampled_from([0, 1, 2, 4, 4]),
                                  "plat": st.sampled_from([0, 1, 3]), "al": st.sampled_from([0, 1, 3]),
                                  "ncons": st.integers(1, 4), "init": st.sampled_from([1, 1, 3, 3, 7, 15, 2, 5, 6, 0]),
                                  "script": st.lists(act, min_size=12, max_size=60 if big else 32)})


def ex_group(case):
    from happysimulator import Entity, Event, Instant, Simulation
    from happysimulator.components.streaming import consumer_group as cg
    from happysimulator.components.streaming.event_log import EventLog
    r = Result()
    pre = f"{P}/group"
    np_ = _i(case.get("np"), 1, 5)
    sidx = _i(case.get("strategy")) % 3
    strategy = [cg.RangeAssignment, cg.RoundRobinAssignment, cg.StickyAssignment][sidx]()
    sname = ["range", "roundrobin", "sticky"][sidx]
    rdelay, plat, al = _pick(LAT, case.get("rdelay")), _pick(LAT, case.get("plat")), _pick(LAT, case.get("al"))
    ncons = _i(case.get("ncons"), 1, 4)
    script = [s if isinstance(s, (list, tuple)) and len(s) >= 5 else [0, "app", 0, 0, 1] for s in (case.get("script") or [])][:80]
    script = script or [[0, "app", 0, 0, 1]]
    init = _i(case.get("init"), 0, 15)
    expanded = []
    for x in script:            # "rejoin" = the consumer leaves and joins again (keeps its committed offsets)
        if x[1] == "rejoin":
            expanded += [[x[0], "leave"] + list(x[2:5]), [1, "join"] + list(x[2:5])]
        elif x[1] == "visit":   # another member comes, polls and goes: partitions are revoked from the staying members and handed back
            expanded += [[x[0], "join"] + list(x[2:5]), [1 + _i(x[3]) % 3, "poll"] + list(x[2:5]), [1 + _i(x[3]) % 4, "leave"] + list(x[2:5])]
        else:
            expanded.append(list(x))
    script = [[0, "join", c, 0, 1] for c in range(ncons) if init >> c & 1 or (c == 0 and init)] + expanded
    times = _script_times(script)
    log = EventLog("log", num_partitions=np_, append_latency=al, read_latency=0.0)
    group = cg.ConsumerGroup("group", log, assignment_strategy=strategy, rebalance_delay=rdelay, poll_latency=plat)
    polls = []         # (consumer, start_t, end_t, committed_at_start {pid: off}, [Record], assigned_seen set)
    assign_hist = []   # (t, generation, {name: [pids]}, [consumers])
    skipped = [0]

    def committed(name):
        return dict(getattr(group, "_committed_offsets", {}).get(name, {}))

    class Cons(Entity):
        def __init__(self, idx):
            super().__init__(f"c{idx}")
            self.busy = False
            self.todo = []

        def handle_event(self, event):
            # a consumer is sequential: operations that arrive while one is in progress wait their turn
            self.todo.append((event.context["kind"], event.context["mx"]))
            if self.busy:
                skipped[0] += 1
                return None
            self.busy = True
            try:
                while self.todo:
                    kind, mx = self.todo.pop(0)
                    if kind == "join":
                        yield from group.join(self.name, self)
                    elif kind == "leave":
                        yield from group.leave(self.name)
                    elif kind == "poll":
                        t0 = self.now.nanoseconds
                        c0 = committed(self.name)
                        recs = yield from group.poll(self.name, mx)
                        recs = list(recs or [])
                        polls.append((self.name, t0, self.now.nanoseconds, c0, recs))
                        offs = {}
                        for x in recs:
                            offs[x.partition] = max(offs.get(x.partition, 0), x.offset + 1)
                        if offs:
                            yield from group.commit(self.name, offs)
            finally:
                self.busy = False
            return None

    cons = [Cons(i) for i in range(ncons)]

    class Producer(Entity):
        def handle_event(self, event):
            yield from log.append(event.context["key"], event.context["i"])
            return None

    prod = Producer("producer")

    class Admin(Entity):
        """Membership changes issued outside the consumer's own sequential loop (a consumer process that is restarted:
        the old instance's leave and the new instance's join, same name, may overlap the group's rebalance delay)."""

        def handle_event(self, event):
            name = event.context["name"]
            if event.context["kind"] == "leave":
                yield from group.leave(name)
            else:
                yield from group.join(name, cons[event.context["c"]])
            return None

    admin = Admin("admin")
    bounces = [0]
    horizon = times[-1] + 300 * TICK
    sim = Simulation(entities=[log, group, prod, admin] + cons, end_time=Instant(horizon))
    for i, t in enumerate(times):
        _, kind, a, b, c = script[i][:5]
        if kind == "bounce":
            ci = _i(a) % ncons
            gap = (_i(b) % 3) * TICK
            bounces[0] += int(gap < _dur_ns(rdelay))
            sim.schedule(Event(time=Instant(t), event_type="act", target=admin, context={"kind": "leave", "name": f"c{ci}", "c": ci}))
            sim.schedule(Event(time=Instant(t + gap), event_type="act", target=admin, context={"kind": "join", "name": f"c{ci}", "c": ci}))
        elif kind == "app":
            sim.schedule(Event(time=Instant(t), event_type="act", target=prod, context={"key": KEYS[_i(b) % len(KEYS)], "i": i}))
        else:
            sim.schedule(Event(time=Instant(t), event_type="act", target=cons[_i(a) % ncons],
                               context={"kind": kind, "mx": _i(c, 1, 100)}))
    state = {"gen": 0, "assign": False, "back": False, "handback": False}
    last_commit = {}

    def hook(event):
        if event.target is not group:
            return
        now = event.time.nanoseconds
        if group.generation != state["gen"]:
            state["gen"] = group.generation
            a = group.assignments
            members = list(group.consumers)
            assign_hist.append((now, group.generation, a, members))
            if members and not state["assign"]:
                owners = Counter(p for v in a.values() for p in v)
                bad = [p for p in range(np_) if owners.get(p, 0) != 1]
                extra = [p for p in owners if not (0 <= p < np_)]
                ghosts = [n for n in a if n not in members and a[n]]
                if bad or extra or ghosts:
                    state["assign"] = True
                    r.add(f"{pre}/partition-not-owned-by-exactly-one-member/{sname}",
                          f"generation {group.generation} members {members} assignment {a}: partitions {bad or extra} "
                          f"not owned exactly once / owned by non-members {ghosts}")
        if not state["back"]:
            for name, offs in getattr(group, "_committed_offsets", {}).items():
                for pid, off in offs.items():
                    prev = last_commit.get((name, pid))
                    if prev is not None and off < prev:
                        state["back"] = True
                        r.add(f"{pre}/committed-offset-moved-backwards", f"{name} partition {pid}: {prev} -> {off} at {now} ns")
                    last_commit[(name, pid)] = off
            # the offset a member resumes from on a partition it owns (what poll() and consumer_lag() use; a missing entry reads
            # as 0) must not be below what it had committed for that partition earlier, e.g. before the partition was revoked
            if not state["back"]:
                allc = getattr(group, "_committed_offsets", {})
                for name, pids in group.assignments.items():
                    for pid in pids:
                        prev = last_commit.get((name, pid))
                        eff = allc.get(name, {}).get(pid, 0)
                        if prev is not None and eff < prev:
                            state["back"] = True
                            state["handback"] = True
                            r.add(f"{pre}/committed-offset-moved-backwards",
                                  f"{name} owns partition {pid} again at {now} ns (generation {group.generation}) and resumes from offset "
                                  f"{eff}, it had committed {prev}")
                            break

    probe = SimProbe(sim, on_event=hook, log=False, max_per_instant=4000, max_events=100000)
    status = probe.run()
    if status == "spin":
        r.add(f"{pre}/spin", f"more than 4000 events at {probe.spin_at} ns")
    for (name, t0, t1, c0, recs) in polls:
        byp = defaultdict(list)
        for x in recs:
            byp[x.partition].append(x.offset)
        # partitions must have been assigned to the consumer at some point of the poll
        owned = set()
        cur = {}
        for (t, gen, a, members) in assign_hist:
            if t < t0:              # the assignment in force when the poll's instant began
                cur = a
            if t0 <= t <= t1:
                owned |= set(a.get(name, []))
        owned |= set(cur.get(name, []))
        for pid, offs in sorted(byp.items()):
            if offs != list(range(offs[0], offs[0] + len(offs))):
                r.add(f"{pre}/poll-not-in-offset-order", f"{name} partition {pid}: offsets {offs[:12]}")
                break
            if offs[0] != c0.get(pid, 0):
                r.add(f"{pre}/poll-not-from-committed-offset",
                      f"{name} partition {pid}: committed offset {c0.get(pid, 0)} at poll start, first polled offset {offs[0]}")
                break
            if pid not in owned:
                r.add(f"{pre}/poll-foreign-partition", f"{name} polled partition {pid}, owned {sorted(owned)} during the poll")
                break
    changes = len(assign_hist)
    between = any(any(t0 < t for (t, *_x) in assign_hist) for (_, t0, _, _, recs) in polls if recs) and changes >= 2
    r.nontrivial = changes >= 2 and any(recs for (_, _, _, _, recs) in polls) and between
    r.labels += [sname, f"rebalances>=2={int(changes >= 2)}", f"polled={int(any(p[4] for p in polls))}", f"queued-ops={int(skipped[0] > 0)}",
                 f"status={status}"]
    r.labels.append(f"bounce-inside-rebalance-delay={int(bounces[0] > 0)}")
    r.target = float(min(changes, 6) + 3 * min(bounces[0], 3))
    r.observed = {"assignments": [(t, g, a) for (t, g, a, m) in assign_hist[:8]]}
    return r


OBLIGATIONS = [
    Obligation("mq", mq_strategy, ex_mq, {"quick": 2500, "thorough": 100000},
               "MessageQueue + DeadLetterQueue in a real Simulation: an actor publishes, polls, subscribes and unsubscribes 1-3 consumer "
               "entities at generated instants (1/512 s grid); every received delivery triggers the next generated reaction (ack / "
               "reject+requeue / reject / schedule_redelivery / schedule_redelivery followed by all consumers unsubscribing until after the "
               "timer fired, then re-subscribe + poll / nothing, immediately or after a delay; optionally followed by a poll); "
               "delivery latency 0..8 ticks or 1 ms, redelivery limit 0-3, capacity none/1-5. Judged on the consumer-side log. "
               "non-trivial = at least one redelivery was received and at least one message was dead-lettered"),
    Obligation("topic", topic_strategy, ex_topic, {"quick": 1500, "thorough": 60000},
               "Topic with 1-4 subscriber entities joining/leaving (optionally with history replay) between publishes made through "
               "publish(), publish_sync() and 'publish' events, all at distinct instants; non-trivial = a message had >= 2 active "
               "subscribers and the active set changed between two publishes"),
    Obligation("log", log_strategy, ex_log, {"quick": 1200, "thorough": 50000},
               "EventLog with 1-4 partitions, none/Size/Time retention with short sweep intervals, overlapping appends (8 keys) and "
               "reads from a worker entity; non-trivial = a partition received >= 3 appends, a read returned records and (with a "
               "retention policy) records were expired"),
    Obligation("group", group_strategy, ex_group, {"quick": 1500, "thorough": 60000},
               "ConsumerGroup x {Range, RoundRobin, Sticky} over an EventLog with 1-5 partitions: 1-4 sequential consumer entities "
               "join / leave / rejoin / poll-then-commit(highest offset+1), bounces (leave and re-join of one name 0-2 ticks apart, inside or "
               "outside the rebalance delay) while a producer appends; ownership is judged after every generation change; non-trivial = >= 2 rebalances and a "
               "non-empty poll after a membership change"),
]
