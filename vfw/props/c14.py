"""C14 — storage engines behave like a map under any flushes, compactions and overlap.

Stores: LSMTree x {SizeTiered, Leveled, FIFO} compaction, BTree, KVStore(capacity=None); generated
put/get/delete/scan workloads run by worker processes inside a real Simulation (vfw/dsl/storework.py),
judged with the interval oracle of DESIGN 3.4.  TransactionManager: SERIALIZABLE = some serial order
of the committed transactions explains all their reads and the final store; SNAPSHOT_ISOLATION = every
transaction's foreign reads match the state after one prefix of the commit order."""
from __future__ import annotations

from itertools import permutations

from hypothesis import strategies as st

from ..dsl.storework import ABSENT, FinalRead, IntervalOracle, WorkerHarness, judge_scan, mark_function, span_generator
from ..harness import ticks
from ..runner import Obligation, Result

P = "C14"
ASSUMPTIONS = [
    "stored values are never None (None means 'absent' in every store API); every write carries a value unique in the case, so a returned value identifies the write it came from",
    "operations of different workers whose timestamps tie (a.end == b.start) are treated as concurrent; only a.end < b.start or program order inside one worker counts as 'completed before'",
    "KVStore has no scan API: scans are judged on LSMTree and BTree only; scan bounds are [start_key, end_key) as documented",
    "transactions never delete and never write None; all transactions of one manager use the manager's default isolation level",
    "SERIALIZABLE is judged on committed transactions only (any serial order is accepted, not necessarily commit order); SNAPSHOT_ISOLATION accepts the state after ANY prefix of the commit order as the snapshot (not necessarily the one at begin); reads of keys the transaction wrote itself must return its own buffered value",
    "READ_COMMITTED is not named by the statement and is not judged",
    "a run that hits the event budget or leaves a worker unfinished is labelled inconclusive/unfinished, not judged as a violation",
]

KEYS = [f"k{i:02d}" for i in range(16)]
OPS = ["put", "put", "put", "get", "get", "scan", "del", "scan"]


def _i(x, d=0):
    return x if isinstance(x, int) and not isinstance(x, bool) else d


def _op(op):
    """total decoding of [code, key, gap, aux]"""
    op = list(op) if isinstance(op, (list, tuple)) else []
    op = [_i(x) for x in op] + [0, 0, 0, 0]
    return abs(op[0]), abs(op[1]), min(abs(op[2]), 64), abs(op[3])


# =================================================================================== map stores
def make_store(kind, cfg):
    """Returns (store, entities, spans, marks, describe) for cfg; nothing is patched except instance
    attributes that only log (span_generator / mark_function)."""
    g = lambda k, d=0: abs(_i(cfg.get(k), d))
    if kind == "lsm":
        from happysimulator.components.storage.lsm_tree import (FIFOCompaction, LeveledCompaction, LSMTree,
                                                                 SizeTieredCompaction)
        from happysimulator.components.storage.wal import SyncEveryWrite, SyncOnBatch, SyncPeriodic, WriteAheadLog
        s = g("strat") % 3
        if s == 0:
            strat, sname = SizeTieredCompaction(min_sstables=2 + g("p1") % 3), "size-tiered"
        elif s == 1:
            strat, sname = LeveledCompaction(level_0_max=2 + g("p1") % 3, size_ratio=2, base_size_keys=1 + g("p2") % 4), "leveled"
        else:
            strat, sname = FIFOCompaction(max_total_sstables=1 + g("p1") % 5), "fifo"
        w = g("wal") % 4
        wal = None
        if w:
            pol = [None, SyncEveryWrite(), SyncOnBatch(2 + g("p2") % 2), SyncPeriodic(ticks(3))][w]
            wal = WriteAheadLog("wal", sync_policy=pol, write_latency=ticks(1 + g("ww") % 4) / 4,
                                sync_latency=ticks(1 + g("ws") % 4) / 2)
        store = LSMTree("db", memtable_size=1 + g("mem") % 4, compaction_strategy=strat, wal=wal,
                        sstable_read_latency=ticks(1 + g("rl") % 6) / 2, sstable_write_latency=ticks(1 + g("wl") % 8),
                        max_levels=2 + g("levels") % 3)
        return store, [store], sname + ("+wal" if wal else "")
    if kind == "btree":
        from happysimulator.components.storage.btree import BTree
        store = BTree("bt", order=3 + g("order") % 3, page_read_latency=ticks(1 + g("rl") % 4),
                      page_write_latency=ticks(1 + g("wl") % 3))
        return store, [store], f"order{3 + g('order') % 3}"
    from happysimulator.components.datastore.kv_store import KVStore
    store = KVStore("kv", read_latency=ticks(g("rl") % 4), write_latency=ticks(g("wl") % 5),
                    delete_latency=None if g("dl") % 3 == 0 else ticks(g("dl") % 4))
    return store, [store], "kv"


def map_strategy(kind, overlap):
    def s(tier):
        big = tier == "thorough"
        nk = {"lsm": 5, "btree": 11, "kv": 3}[kind]
        op = st.tuples(st.integers(0, 7), st.integers(0, nk), st.sampled_from([0, 0, 0, 1, 1, 2, 3, 5]), st.integers(0, nk)).map(list)
        if overlap:
            ws = st.lists(st.fixed_dictionaries({"start": st.integers(0, 12),
                                                 "ops": st.lists(op, min_size=1, max_size=16 if big else 9)}),
                          min_size=2, max_size=5 if big else 4)
        else:
            ws = st.lists(st.fixed_dictionaries({"start": st.just(0), "ops": st.lists(op, min_size=8, max_size=90 if big else 36)}),
                          min_size=1, max_size=1)
        cfgkeys = {"lsm": ["strat", "p1", "p2", "mem", "levels", "wl", "rl", "wal", "ww", "ws"],
                   "btree": ["order", "rl", "wl"], "kv": ["rl", "wl", "dl"]}[kind]
        bias = {"mem": st.sampled_from([0, 0, 0, 1, 1, 2, 3]), "p1": st.sampled_from([0, 0, 0, 1, 2, 3, 4])} if kind == "lsm" else {}
        cfg = st.fixed_dictionaries({k: bias.get(k, st.integers(0, 11)) for k in cfgkeys})
        return st.fixed_dictionaries({
            "cfg": cfg,
            "nkeys": st.integers({"lsm": 3, "btree": 4, "kv": 2}[kind], nk + 1),
            "pre": st.lists(st.integers(0, nk), max_size={"lsm": 6, "btree": 10, "kv": 2}[kind]),
            "workers": ws,
        })
    return s


def burst_strategy(tier):
    """LSM workloads shaped for states that only bursts of writers reach: several writers starting at (almost) the same instant
    with zero gaps over-fill a small memtable before the first is_full check (L0 tables of unequal size) and freeze a second
    memtable while the first flush is still in its (long) write latency (two frozen memtables holding the same key), with scans
    and gets issued inside those windows; then one late worker overwrites, deletes, reads and scans sequentially so that
    compactions run over the irregular L0 and the result is read back."""
    big = tier == "thorough"
    nk = 3
    code = st.sampled_from([0, 0, 0, 1, 2, 2, 5, 7, 6, 3])                    # mostly puts, scans, some deletes/gets
    bop = st.tuples(code, st.integers(0, nk), st.sampled_from([0, 0, 0, 0, 1]), st.integers(0, nk)).map(list)
    top = st.tuples(st.sampled_from([0, 0, 1, 2, 3, 4, 5, 7, 6]), st.integers(0, nk), st.sampled_from([0, 0, 1, 2, 4]),
                    st.integers(0, nk)).map(list)
    burst = st.lists(st.fixed_dictionaries({"start": st.sampled_from([0, 0, 0, 0, 1, 2, 3]),
                                            "ops": st.lists(bop, min_size=1, max_size=5 if big else 4)}), min_size=3, max_size=5)
    tail = st.fixed_dictionaries({"start": st.sampled_from([6, 12, 20, 30, 45]), "ops": st.lists(top, min_size=3, max_size=16 if big else 10)})
    cfg = st.fixed_dictionaries({
        "strat": st.sampled_from([0, 0, 0, 0, 1, 2]), "p1": st.sampled_from([0, 0, 0, 1, 2]), "p2": st.integers(0, 3),
        "mem": st.sampled_from([0, 1, 1, 1, 2]), "levels": st.integers(0, 2), "wl": st.sampled_from([1, 3, 5, 7, 7]),
        "rl": st.integers(0, 5), "wal": st.sampled_from([0, 0, 0, 0, 1, 2]), "ww": st.integers(0, 3), "ws": st.integers(0, 3)})
    return st.tuples(cfg, st.integers(3, nk + 1), st.lists(st.integers(0, nk), max_size=3), burst, tail).map(
        lambda t: {"cfg": t[0], "nkeys": t[1], "pre": t[2], "workers": t[3] + [t[4]]})


def run_map_case(kind, case, stop_after=None):
    """Build the store and run the workload.  Returns (harness, store, info dict)."""
    cfg = case.get("cfg") if isinstance(case.get("cfg"), dict) else {}
    nkeys = max(1, min(12, abs(_i(case.get("nkeys"), 3))))
    keys = KEYS[:nkeys]
    store, ents, desc = make_store(kind, cfg)
    spans, marks = [], []
    initial = []       # (key, value) in preload order

    def do_op(worker, op, rec):
        code, k, _gap, aux = _op(op)
        what = OPS[code % len(OPS)]
        if kind == "kv" and what == "scan":
            what = "get"
        key = keys[k % nkeys]
        rec.kind, rec.key = what, key
        if what == "put":
            rec.value = 1000 * (worker.wid + 1) + rec.idx
            yield from store.put(key, rec.value)
            return None
        if kind == "lsm" and what in ("get", "scan"):
            # classification aid only: (a) memtables frozen but not yet installed as SSTable at the instant the read starts
            # (read-only peek; get and scan consult memtables only at their first step); (b) what the store's own synchronous
            # read path returns at that instant for the keys concerned (get_sync touches statistics counters only)
            ks = [key] if what == "get" else keys[k % nkeys:k % nkeys + 1 + aux % nkeys]
            rec.ctx = (list(store._immutable_memtables), {x: store.get_sync(x) for x in ks})
        if what == "get":
            return (yield from store.get(key))
        if what == "del":
            return (yield from store.delete(key))
        lo = k % nkeys
        hi = lo + 1 + aux % nkeys
        rec.key = None
        rec.aux = keys[lo:hi]
        end_key = KEYS[hi] if hi < nkeys else "k99"
        return (yield from store.scan(keys[lo], end_key))

    def setup(sim):
        for j, k in enumerate(case.get("pre") or []):
            key = keys[abs(_i(k)) % nkeys]
            initial.append((key, j + 1))
            store.put_sync(key, j + 1)

    workers = [w if isinstance(w, dict) else {} for w in (case.get("workers") or [])][:6]
    h = WorkerHarness(ents, workers, do_op, op_gap=lambda op: _op(op)[2], setup=setup)
    if kind == "lsm":
        from happysimulator.components.storage.lsm_tree import _TOMBSTONE as tomb

        def flush_wrap():
            orig = store._flush_memtable

            def wrapped():
                from ..dsl.storework import Span
                sp = Span("flush", h.now_ns())
                # the memtable being frozen and its contents (read-only peek)
                sp.aux = ({k: (ABSENT if v is tomb else v) for k, v in store._memtable._data.items()}, store._memtable)
                spans.append(sp)
                r = yield from orig()
                sp.end = h.now_ns()
                return r
            store._flush_memtable = wrapped
        span_generator(store, "_compact", spans, h.now_ns, "compact")   # wrapped first so a flush span ends after its compaction
        flush_wrap()
    elif kind == "btree":
        mark_function(store, "_split_child", marks, h.now_ns, "split")
    h.run(stop_after)
    return h, store, {"keys": keys, "initial": initial, "spans": spans, "marks": marks, "desc": desc}


def map_execute(kind, obl):
    def execute(case):
        r = Result()
        h, store, info = run_map_case(kind, case)
        keys, spans, marks = info["keys"], info["spans"], info["marks"]
        r.labels.append(info["desc"])
        if h.status != "done" or not h.all_finished:
            r.labels.append("inconclusive-" + str(h.status) if h.status != "done" else "unfinished-worker")
        orc = IntervalOracle()
        for j, (k, v) in enumerate(info["initial"]):
            orc.add_preload(k, v, j)
        for rec in h.ops:
            if rec.kind == "put":
                orc.add_write(rec.key, rec.value, rec)
            elif rec.kind == "del":
                orc.add_write(rec.key, ABSENT, rec)

        def context(rec, key):
            """deterministic root-cause classifier from the logged history"""
            if kind == "lsm":
                # the defect: a memtable was frozen but not yet installed when the read started, and it held a value for
                # this key that the read was allowed to return
                e = rec.end if rec.end is not None else float("inf")
                okv = [w.value for w in orc.acceptable(key, rec)]
                frozen, snap = getattr(rec, "ctx", None) or ([], {})
                fl = [s for s in spans if s.name == "flush" and any(s.aux[1] is m for m in frozen)
                      and key in s.aux[0] and s.aux[0][key] in okv]
                if fl:
                    return "read-ignores-memtable-being-flushed"
                # the synchronous read path gave an acceptable value when the read started, the suspended generator read
                # ended up with another one: it followed the live level lists while a flush/compaction changed them
                if key in snap and snap[key] in okv:
                    return "suspended-read-follows-changing-levels"
                # two compactions running at the same time (each works on a snapshot of the levels taken before its
                # write latency) before the read ended
                co = [s for s in spans if s.name == "compact" and s.end != s.start and s.start <= e]
                for a in co:
                    for b in co:
                        if a is not b and a.start <= b.start and (a.end is None or b.start < a.end):
                            return "concurrent-compactions-lose-newer-data"
            if kind == "btree" and rec.start is not None:
                e = rec.end if rec.end is not None else float("inf")
                if any(rec.start <= t <= e for _n, t in marks):
                    return "get-overlapping-split"
            return None

        seen = set()

        def report(clause, detail, rec, key):
            base = clause[12:] if clause.startswith("final-state-") else clause
            ctx = context(rec, key) if base in ("read-misses-key", "stale-value", "deleted-key-resurrected") else None
            if ctx == "get-overlapping-split" and base != "read-misses-key":
                ctx = None
            sig = f"{P}/{obl}/{ctx}" if ctx else f"{P}/{obl}/{clause}"
            if sig not in seen:
                seen.add(sig)
                r.add(sig, f"[{info['desc']}] {clause}: {rec.brief() if hasattr(rec, 'brief') else 'final get_sync'}: {detail}")

        n_reads = n_overlap = 0
        tomb_scan = False
        for rec in h.ops:
            if not rec.done:
                continue
            if rec.kind == "get":
                n_reads += 1
                j = orc.judge(rec.key, rec, rec.result)
                if j:
                    report(j[0], j[1], rec, rec.key)
            elif rec.kind == "scan":
                n_reads += 1
                res = rec.result
                if not isinstance(res, list):
                    report("scan-malformed", repr(res)[:100], rec, None)
                    continue
                for clause, detail, key in judge_scan(orc, rec.aux, rec, res):
                    report(clause, detail, rec, key)
                for k in rec.aux:
                    if any(w.value is ABSENT and w.rec is not None for w in orc.acceptable(k, rec)):
                        tomb_scan = True
            if rec.kind in ("get", "scan"):
                if kind == "lsm" and any(s.overlaps(rec) and s.end != s.start for s in spans):
                    n_overlap += 1
                elif kind == "btree" and any(rec.start <= t <= rec.end for _n, t in marks):
                    n_overlap += 1
                elif kind == "kv" and rec.kind == "get" and any(
                        w.rec is not None and w.rec.worker != rec.worker and w.start <= rec.end and rec.start <= (w.end if w.end is not None else rec.end)
                        for w in orc._hist(rec.key)):
                    n_overlap += 1
        if h.status == "done" and h.all_finished:
            fin = FinalRead()
            for k in keys:
                j = orc.judge(k, fin, store.get_sync(k))
                if j:
                    report("final-state-" + j[0], j[1], fin, k)
        # ---- classification / non-triviality
        n_del = sum(1 for x in h.ops if x.kind == "del")
        if kind == "lsm":
            n_fl = sum(1 for s in spans if s.name == "flush")
            n_co = sum(1 for s in spans if s.name == "compact")
            deepest = bool(store._levels[-1])
            r.labels += [f"flushes>={min(n_fl, 4)}", f"compactions>={min(n_co, 3)}"] + (["deepest-level-reached"] if deepest else []) \
                + (["scan-over-tombstone"] if tomb_scan else [])
            if "overlap" in obl or "burst" in obl:
                r.nontrivial = n_overlap > 0
                r.target = float(n_overlap)
            else:
                r.nontrivial = n_co >= 1 and n_del >= 1 and n_reads >= 1
                r.target = float(n_co + (2 if deepest else 0))
        elif kind == "btree":
            r.labels += [f"depth{min(store.depth, 4)}", f"splits>={min(len(marks), 4)}"]
            if "overlap" in obl or "burst" in obl:
                r.nontrivial = n_overlap > 0
                r.target = float(n_overlap)
            else:
                r.nontrivial = len(marks) >= 1 and store.depth >= 2 and n_reads >= 1
                r.target = float(len(marks))
        else:
            r.nontrivial = n_overlap > 0
            r.target = float(n_overlap)
        if n_overlap:
            r.labels.append("read-overlaps-internal-activity" if kind != "kv" else "read-overlaps-write")
        if r.violations:
            r.labels.append("violating")
        return r
    return execute


# =================================================================================== transactions
TX_STORES = ["kv", "btree", "lsm"]


def txn_strategy(safe=False):
    def s(tier):
        big = tier == "thorough"
        step = st.tuples(st.integers(0, 3), st.integers(0, 4), st.sampled_from([0, 0, 1, 1, 2, 4])).map(list)
        tx = st.fixed_dictionaries({"start": st.integers(0, 10), "steps": st.lists(step, min_size=1, max_size=7 if big else 5),
                                    "abort": st.sampled_from([0, 0, 0, 0, 0, 1])})
        d = {"store": st.integers(0, 2), "nkeys": st.integers(1, 4), "fresh": st.integers(0, 3),
             "cfg": st.fixed_dictionaries({k: st.integers(0, 11) for k in ["order", "rl", "wl", "mem", "strat", "p1"]}),
             "txns": st.lists(tx, min_size=2, max_size=5)}
        if safe:
            d["mode"] = st.integers(0, 1)
        return st.fixed_dictionaries(d)
    return s


def skew_strategy(tier):
    """SERIALIZABLE scripts shaped for validation against OLD commit-log entries: 2-3 early transactions read most of 2-3 keys
    at once and write one of them after a short or a long pause (so one of them commits while another stays active for long),
    and 1-3 short transactions begin later (after the first commits), touch any key (or an unrelated one) and commit at once."""
    big = tier == "thorough"
    read = st.tuples(st.sampled_from([0, 1]), st.integers(0, 2), st.sampled_from([0, 0, 1])).map(list)
    late_write = st.tuples(st.just(2), st.integers(0, 2), st.sampled_from([1, 2, 3, 6, 9, 12, 14, 16])).map(list)
    extra = st.tuples(st.integers(0, 3), st.integers(0, 3), st.sampled_from([0, 1, 2])).map(list)
    early = st.tuples(st.sampled_from([0, 0, 1, 2]), st.lists(read, min_size=1, max_size=3), late_write, st.lists(extra, max_size=1)).map(
        lambda t: {"start": t[0], "steps": t[1] + [t[2]] + t[3], "abort": 0})
    short_step = st.tuples(st.integers(0, 3), st.integers(0, 3), st.sampled_from([0, 0, 1])).map(list)
    short = st.fixed_dictionaries({"start": st.integers(2, 15), "steps": st.lists(short_step, min_size=1, max_size=2),
                                   "abort": st.sampled_from([0, 0, 0, 0, 0, 0, 1])})
    cfg = st.fixed_dictionaries({"order": st.integers(0, 2), "rl": st.sampled_from([0, 0, 1, 1, 2]), "wl": st.integers(0, 2),
                                 "mem": st.integers(0, 3), "strat": st.integers(0, 2), "p1": st.integers(0, 4)})
    return st.tuples(st.sampled_from([0, 0, 0, 1, 2]), st.sampled_from([1, 2, 2, 3]), cfg,
                     st.lists(early, min_size=2, max_size=3), st.lists(short, min_size=1, max_size=3 if big else 2)).map(
        lambda t: {"store": t[0], "nkeys": t[1], "fresh": 0, "cfg": t[2], "txns": t[3] + t[4]})


def run_txn_case(level, case, safe=False):
    from happysimulator.components.storage.transaction_manager import IsolationLevel, TransactionManager
    cfg = dict(case.get("cfg")) if isinstance(case.get("cfg"), dict) else {}
    skind = TX_STORES[abs(_i(case.get("store"))) % 3]
    if safe and skind == "btree":
        skind = "kv"    # the restricted twin must be free of every known defect: BTree.get overlapping a split (which a commit's
                        # put_sync can trigger even for an existing key) is judged by btree-overlap / txn-si
    if skind == "lsm":
        cfg["wal"] = 0
    store, ents, desc = make_store(skind, cfg)
    nk = 1 + abs(_i(case.get("nkeys"), 2)) % 5            # preloaded keys
    nfresh = abs(_i(case.get("fresh"))) % 4               # keys that do not exist initially
    keys = KEYS[:nk + nfresh]
    initial = {k: i + 1 for i, k in enumerate(keys[:nk])}
    tm = TransactionManager("tm", store=store, isolation={"ser": IsolationLevel.SERIALIZABLE,
                                                          "si": IsolationLevel.SNAPSHOT_ISOLATION}[level])
    txns = [t if isinstance(t, dict) else {} for t in (case.get("txns") or [])][:5]
    mode = abs(_i(case.get("mode"))) % 2 if safe else None

    # one worker per transaction; ops = begin, steps..., commit|abort
    def script(t):
        steps = [(_i(s[0]) if len(s) > 0 else 0, _i(s[1]) if len(s) > 1 else 0, _i(s[2]) if len(s) > 2 else 0)
                 for s in (t.get("steps") or []) if isinstance(s, (list, tuple))][:8]
        ops = [("begin", 0, 0)]
        foreign = 0
        wrote = set()
        for code, k, gap in steps:
            key = keys[abs(k) % len(keys)]
            if abs(code) % 4 < 2:
                if safe and mode == 1 and key not in wrote:
                    if foreign >= 1:
                        continue            # safe twin (b): at most one foreign read per transaction
                    foreign += 1
                ops.append(("read", key, min(abs(gap), 16)))
            else:
                wrote.add(key)
                ops.append(("write", key, min(abs(gap), 16)))
        ops.append(("abort" if abs(_i(t.get("abort"))) % 2 else "commit", 0, 0))
        return ops

    if safe and mode == 0:
        # safe twin (a): one worker runs the transactions back to back (no overlap at all)
        allops, owner = [], []
        for ti, t in enumerate(txns):
            for o in script(t):
                allops.append(o)
                owner.append(ti)
        workers = [{"start": 0, "ops": allops}]
    else:
        workers = [{"start": abs(_i(t.get("start"))) % 16, "ops": script(t)} for t in txns]
        owner = None

    state = {}    # worker id -> current tx object

    def do_op(worker, op, rec):
        what, key, _gap = op
        rec.kind, rec.key = what, key if what in ("read", "write") else None
        rec.aux = owner[rec.idx] if owner is not None else worker.wid
        if what == "begin":
            state[worker.wid] = yield from tm.begin()
            return None
        tx = state[worker.wid]
        if what == "read":
            return (yield from tx.read(key))
        if what == "write":
            rec.value = 1000 * (rec.aux + 1) + rec.idx
            yield from tx.write(key, rec.value)
            return None
        if what == "commit":
            return (yield from tx.commit())
        tx.abort()
        return "aborted"

    def setup(sim):
        for k, v in initial.items():
            store.put_sync(k, v)

    h = WorkerHarness(ents + [tm], workers, do_op, op_gap=lambda op: op[2], setup=setup)
    h.run()
    return h, store, {"keys": keys, "initial": initial, "skind": skind, "ntx": len(txns), "mode": mode}


def txn_execute(level, obl, safe=False):
    def execute(case):
        r = Result()
        h, store, info = run_txn_case(level, case, safe)
        keys, initial, skind = info["keys"], info["initial"], info["skind"]
        r.labels.append(skind)
        if h.status != "done" or not h.all_finished:
            r.labels.append("inconclusive-" + str(h.status))
            return r
        # per-transaction histories, in execution order
        txs = {}
        for pos, rec in enumerate(h.ops):
            t = txs.setdefault(rec.aux, {"ops": [], "outcome": None, "commit_pos": None, "begin": None, "end": None})
            if rec.kind == "begin":
                t["begin"] = rec.start
            elif rec.kind in ("read", "write"):
                t["ops"].append(rec)
            elif rec.kind == "commit":
                t["outcome"] = "committed" if rec.result is True else "conflict"
                t["commit_pos"] = pos
                t["end"] = rec.start
            elif rec.kind == "abort":
                t["outcome"] = "aborted"
                t["end"] = rec.start
        committed = sorted((t for t in txs.values() if t["outcome"] == "committed"), key=lambda t: t["commit_pos"])
        ids = {id(t): i for i, t in txs.items()}

        def first_sig(sig, detail):
            if not any(v.sig == sig for v in r.violations):
                r.add(sig, detail)

        # --- own writes are read back (both levels)
        foreign = {}     # tx id -> list of (rec) foreign reads
        for i, t in txs.items():
            local = {}
            foreign[i] = []
            for rec in t["ops"]:
                if rec.kind == "write":
                    local[rec.key] = rec.value
                elif rec.key in local:
                    if rec.result != local[rec.key]:
                        first_sig(f"{P}/{obl}/read-own-write", f"tx{i} read {rec.key} -> {rec.result!r}, own buffered value {local[rec.key]!r}")
                else:
                    foreign[i].append(rec)

        # --- a key that is present (initially, or committed before the read began) and never deleted cannot be absent
        present_from = {k: -1 for k in initial}
        for t in committed:
            for rec in t["ops"]:
                if rec.kind == "write":
                    present_from.setdefault(rec.key, t["commit_pos"])
        pos_of = {id(rec): p for p, rec in enumerate(h.ops)}
        missed = False
        for i, t in txs.items():
            for rec in foreign[i]:
                if rec.result is ABSENT and rec.key in present_from and present_from[rec.key] < pos_of[id(rec)]:
                    missed = True
                    first_sig(f"{P}/{obl}/read-misses-key/{skind}", f"tx{i} {rec.brief()}: key present since op#{present_from[rec.key]}")

        def replay(order):
            """state after applying the transactions of `order`; None if some read is not explained"""
            st_ = dict(initial)
            for t in order:
                local = {}
                for rec in t["ops"]:
                    if rec.kind == "write":
                        local[rec.key] = rec.value
                    elif rec.key not in local and st_.get(rec.key, ABSENT) != rec.result:
                        return None
                st_.update(local)
            return st_

        final = {k: store.get_sync(k) for k in keys}
        if level == "ser":
            ok = False
            reads_ok = False
            for order in permutations(committed):
                st_ = replay(order)
                if st_ is None:
                    continue
                reads_ok = True
                if all(final[k] == st_.get(k, ABSENT) for k in keys):
                    ok = True
                    break
            if not ok and not missed:
                clause = "no-serial-order-explains-reads" if not reads_ok else "final-store-matches-no-serial-order"
                first_sig(f"{P}/{obl}/{clause}",
                          f"[{skind}] {len(committed)} committed tx; reads " + "; ".join(
                              f"tx{ids[id(t)]}:" + ",".join(f"{x.kind[0]}{x.key}={x.result if x.kind == 'read' else x.value}" for x in t["ops"])
                              for t in committed)[:400] + f"; final {final}")
        else:
            # states after each prefix of the commit order
            states = [dict(initial)]
            for t in committed:
                s2 = dict(states[-1])
                for rec in t["ops"]:
                    if rec.kind == "write":
                        s2[rec.key] = rec.value
                states.append(s2)
            for i, t in txs.items():
                fr = foreign[i]
                if not fr:
                    continue
                if any(all(s_.get(x.key, ABSENT) == x.result for x in fr) for s_ in states):
                    continue
                if missed and any(x.result is ABSENT for x in fr):
                    continue
                each = all(any(s_.get(x.key, ABSENT) == x.result for s_ in states) for x in fr)
                clause = "reads-from-several-snapshots" if each else "read-of-value-in-no-committed-state"
                first_sig(f"{P}/{obl}/{clause}",
                          f"[{skind}] tx{i} ({t['outcome']}) foreign reads " + ",".join(f"{x.key}={x.result!r}@{x.end}" for x in fr)
                          + f"; commit order states {states}"[:300])

        # --- non-triviality: two transactions with intersecting read/write sets overlapping in time
        def sets(t):
            return ({x.key for x in t["ops"] if x.kind == "read"}, {x.key for x in t["ops"] if x.kind == "write"})
        inter = 0
        tl = [t for t in txs.values() if t["begin"] is not None and t["end"] is not None]
        for a in range(len(tl)):
            for b in range(a + 1, len(tl)):
                ra, wa = sets(tl[a]); rb, wb = sets(tl[b])
                if (wa & (rb | wb) or wb & (ra | wa)) and tl[a]["begin"] <= tl[b]["end"] and tl[b]["begin"] <= tl[a]["end"]:
                    inter += 1
        conflicts = sum(1 for t in txs.values() if t["outcome"] == "conflict")
        r.labels += [f"committed{len(committed)}", f"conflict-aborts>={min(conflicts, 2)}"]
        if safe:
            r.labels.append("safe-sequential" if info["mode"] == 0 else "safe-single-foreign-read")
            r.nontrivial = len(committed) >= 2 and any(foreign[i] for i in foreign)
        else:
            r.nontrivial = inter > 0 and len(committed) >= 1
        if inter:
            r.labels.append("conflicting-overlap")
        r.target = float(inter)
        return r
    return execute


# =================================================================================== obligations
_MAP_RULE = ("workers over 2-12 keys doing put/get/delete/scan through the generator API with generated start offsets and gaps "
             "(tick grid) and a put_sync preload; unique value per write; interval oracle on every completed get/scan and on "
             "the final get_sync of every key; ")

OBLIGATIONS = [
    Obligation("lsm-seq", map_strategy("lsm", False), map_execute("lsm", "lsm-seq"), {"quick": 600, "thorough": 30000},
               _MAP_RULE + "one worker, up to 36 ops, LSMTree x {size-tiered, leveled, FIFO}, memtable 1-4, 2-4 levels, with/without WAL; "
               "non-trivial = at least one compaction, one delete and one read"),
    Obligation("lsm-overlap", map_strategy("lsm", True), map_execute("lsm", "lsm-overlap"), {"quick": 1800, "thorough": 60000},
               _MAP_RULE + "2-4 workers; non-trivial = a get/scan whose interval overlaps an observed flush or compaction interval"),
    Obligation("lsm-burst", burst_strategy, map_execute("lsm", "lsm-burst"), {"quick": 1000, "thorough": 40000},
               _MAP_RULE + "3-5 writers starting within 0-3 ticks with zero gaps (mostly puts and scans over 3-4 keys; memtable 1-3, SSTable "
               "write latency up to 8 ticks, mostly size-tiered with 2-4 tables) so that a memtable is over-filled before the first "
               "is_full check (L0 tables of unequal size) and two or more frozen memtables wait for their flush at once, plus one late "
               "worker that overwrites, deletes, reads and scans sequentially across the following compactions; non-trivial = a get/scan "
               "overlaps a flush or compaction interval"),
    Obligation("btree-seq", map_strategy("btree", False), map_execute("btree", "btree-seq"), {"quick": 400, "thorough": 20000},
               _MAP_RULE + "one worker on BTree order 3-5; non-trivial = a split happened, depth>=2 and a read followed"),
    Obligation("btree-overlap", map_strategy("btree", True), map_execute("btree", "btree-overlap"), {"quick": 700, "thorough": 30000},
               _MAP_RULE + "2-4 workers on BTree order 3-5; non-trivial = a get/scan interval contains a node split"),
    Obligation("kv", map_strategy("kv", True), map_execute("kv", "kv"), {"quick": 300, "thorough": 15000},
               _MAP_RULE + "2-4 workers on KVStore(capacity=None) (put/get/delete); non-trivial = a get overlapping a write of another worker on its key"),
    Obligation("txn-ser", txn_strategy(), txn_execute("ser", "txn-ser"), {"quick": 450, "thorough": 20000},
               "2-5 transactions (read/write scripts with gaps, commit or abort) on a SERIALIZABLE TransactionManager over KVStore/BTree/LSMTree; "
               "brute force over all orders of the committed transactions: one order must explain every committed read and the final store; "
               "non-trivial = two transactions with intersecting read/write sets overlapping in time and >=1 commit"),
    Obligation("txn-ser-skew", skew_strategy, txn_execute("ser", "txn-ser-skew"), {"quick": 600, "thorough": 20000},
               "SERIALIZABLE with 3-5 transactions over 2-4 keys: 2-3 early transactions read most keys at once and write one of them after a "
               "short or a long pause (one commits while another stays active), 1-3 short transactions begin later, touch any key and commit "
               "at once (so the validation of a long-lived transaction needs commit-log entries older than a later committer's snapshot); "
               "same brute-force serial-order oracle; non-trivial = conflicting rw-sets overlapping in time and >=1 commit"),
    Obligation("txn-si", txn_strategy(), txn_execute("si", "txn-si"), {"quick": 450, "thorough": 20000},
               "same scripts at SNAPSHOT_ISOLATION: every transaction's reads of keys it did not write must all match the state after one "
               "prefix of the commit order; same non-trivial rule"),
    Obligation("txn-si-safe", txn_strategy(True), txn_execute("si", "txn-si-safe", True), {"quick": 300, "thorough": 15000},
               "restricted domain in which reading the live store cannot be observed: (a) transactions run back to back, or (b) overlapping "
               "transactions with at most one foreign read each; no exclusions; non-trivial = >=2 commits and a foreign read"),
]
