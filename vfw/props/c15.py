"""C15 — durably acknowledged writes survive a crash at ANY point between two simulation events.

For every generated put/delete workload on LSMTree + WriteAheadLog the run is re-executed from scratch and
abandoned after k = 0..N processed events (N = events of the full run: the crash points are ENUMERATED,
not sampled); then crash(), recover_from_crash(), get_sync of every key, a second recovery, a second
crash+recovery.  Oracle: S = highest synced_up_to reached before the crash; a write is *durable* iff its WAL
sequence number <= S.  The recovered value of a key must be the value of a write (or the initial absence) that
is not definitely superseded by a durable write (interval rule of vfw/dsl/storework.py)."""
from __future__ import annotations

from hypothesis import strategies as st

from ..dsl.storework import ABSENT, FinalRead, IntervalOracle, WorkerHarness, before, span_generator
from ..harness import ticks
from ..runner import Obligation, Result

P = "C15"
ASSUMPTIONS = [
    "a crash is modelled as in examples/storage/power_outage_durability.py: the simulation stops between two events and is abandoned (every in-flight process dies), then LSMTree.crash() and recover_from_crash() are called",
    "a write is 'durably acknowledged' iff its WAL sequence number <= the highest WriteAheadLog.synced_up_to observed before the crash (the WAL's own definition of what a crash keeps)",
    "values are never None and unique per write; deletes write absence",
    "writes that are concurrent with a durable write (timestamp tie or overlap) may win over it; non-durable writes may or may not survive (they may have reached an SSTable); only values definitely superseded by a durable write, and values never written to the key, are rejected",
    "'recovering twice' is judged both as a second recover_from_crash() and as a second crash()+recover_from_crash() with no write in between",
    "no put_sync preload (the statement quantifies over put/delete workloads through the generator API)",
]

KEYS = [f"k{i:02d}" for i in range(8)]


def _i(x, d=0):
    return x if isinstance(x, int) and not isinstance(x, bool) else d


def _op(op):
    op = list(op) if isinstance(op, (list, tuple)) else []
    op = [_i(x) for x in op] + [0, 0, 0]
    return abs(op[0]), abs(op[1]), min(abs(op[2]), 64)


_RECWAL = []


def _rec_wal_class():
    """Recording WriteAheadLog subclass (defined once, lazily)."""
    if _RECWAL:
        return _RECWAL[0]
    from happysimulator.components.storage.lsm_tree import _TOMBSTONE
    from happysimulator.components.storage.wal import WriteAheadLog

    class RecWAL(WriteAheadLog):
        """harness-side subclass: logs (seq, key, value) at append and every truncate bound; behaviour unchanged"""
        def __init__(self, *a, **k):
            super().__init__(*a, **k)
            self.applog, self.truncs, self.unsafe, self.unapplied, self.home = [], [], set(), set(), {}

        def append(self, key, value):
            # The sequence number and log record of this call are OBSERVED, never predicted: the wrapped generator is stepped
            # by hand and the step during which _next_sequence advances is the one that appended this call's entry (a generator
            # step is atomic, nothing else runs inside it).  Until then the operation has no identifiable record (aux None).
            rec, self.current_rec = getattr(self, "current_rec", None), None
            gen = super().append(key, value)
            seq, sent = None, None
            while True:
                n0 = self._next_sequence
                try:
                    y = gen.send(sent)
                    out, done = None, False
                except StopIteration as stop:
                    out, done = stop.value, True
                if seq is None and self._next_sequence != n0:
                    seq = n0
                    self.applog.append((seq, key, ABSENT if value is _TOMBSTONE else value))
                    self.unapplied.add(seq)
                    if rec is not None:
                        rec.aux = seq
                if done:
                    break
                sent = yield y
            if seq is not None:
                self.unapplied.discard(seq)    # the caller applies the entry to the active memtable in the same step
                tree = getattr(self, "peek", None)
                if tree is not None:
                    self.home[seq] = tree._memtable
            return out

        def truncate(self, up_to_sequence):
            self.truncs.append(up_to_sequence)
            # classification aid (read-only peek): entries dropped from the log although their data is still only in volatile
            # memory: the memtable they were applied to (``home``) is still the active one or frozen-but-not-installed, or they are not
            # applied at all yet (append still in its latency)
            tree = getattr(self, "peek", None)
            if tree is not None:
                vol = [tree._memtable] + list(tree._immutable_memtables)
                for e in self._entries:
                    s_ = e.sequence_number
                    if s_ <= up_to_sequence and (s_ in self.unapplied or any(self.home.get(s_) is m for m in vol)):
                        self.unsafe.add(s_)
            return super().truncate(up_to_sequence)

    _RECWAL.append(RecWAL)
    return RecWAL


def make_store(case):
    """LSMTree + recording WAL for `case` (no simulation yet).  Returns a context dict."""
    from happysimulator.components.storage.lsm_tree import FIFOCompaction, LeveledCompaction, LSMTree, SizeTieredCompaction
    from happysimulator.components.storage.wal import SyncEveryWrite, SyncOnBatch, SyncPeriodic
    cfg = case.get("cfg") if isinstance(case.get("cfg"), dict) else {}
    g = lambda k, d=0: abs(_i(cfg.get(k), d))

    RecWAL = _rec_wal_class()
    pol_i = g("sync") % 3
    pol = [SyncEveryWrite(), SyncOnBatch(2 + g("batch") % 3), SyncPeriodic(ticks(1 + g("period") % 6))][pol_i]
    wal = RecWAL("wal", sync_policy=pol, write_latency=ticks(1 + g("ww") % 4) / 4, sync_latency=ticks(1 + g("ws") % 6) / 2)
    s = g("strat") % 3
    if s == 0:
        strat, sname = SizeTieredCompaction(min_sstables=2 + g("p1") % 3), "size-tiered"
    elif s == 1:
        strat, sname = LeveledCompaction(level_0_max=2 + g("p1") % 3, size_ratio=2, base_size_keys=1 + g("p2") % 4), "leveled"
    else:
        strat, sname = FIFOCompaction(max_total_sstables=1 + g("p1") % 5), "fifo"
    lsm = LSMTree("db", memtable_size=1 + g("mem") % 4, compaction_strategy=strat, wal=wal,
                  sstable_write_latency=ticks(1 + g("wl") % 8), max_levels=2 + g("levels") % 3)
    nkeys = max(1, min(6, abs(_i(case.get("nkeys"), 3))))
    ctx = {"lsm": lsm, "wal": wal, "keys": KEYS[:nkeys], "spans": [], "h": None, "smax": [0, False], "tail_at": [],
           "desc": f"{sname}/{['every', 'batch', 'periodic'][pol_i]}"}
    wal.peek = lsm
    now = lambda: ctx["h"].now_ns()
    span_generator(lsm, "_compact", ctx["spans"], now, "compact")
    span_generator(lsm, "_flush_memtable", ctx["spans"], now, "flush")
    return ctx


def run_epoch(ctx, workers, stop_after=None, start_ns=0, wid_off=0):
    """One simulation ("life") of the store in ctx: runs the writers, optionally abandoned after `stop_after` events."""
    lsm, wal, keys = ctx["lsm"], ctx["wal"], ctx["keys"]
    nkeys = len(keys)

    def do_op(worker, op, rec):
        code, k, _gap = _op(op)
        key = keys[k % nkeys]
        rec.key = key
        rec.aux = None                  # WAL sequence number of this write: filled in by the recording WAL when it observes the
        wal.current_rec = rec           # entry being appended (put/delete enter wal.append in this very step)
        if code % 4 == 3:
            rec.kind = "del"
            yield from lsm.delete(key)
        else:
            rec.kind, rec.value = "put", 1000 * (worker.wid + wid_off + 1) + rec.idx
            yield from lsm.put(key, rec.value)
        return None

    smax, tail_at = ctx["smax"], ctx["tail_at"]

    def sample(h_):
        v = wal.synced_up_to
        if v < smax[0]:
            smax[1] = True
        elif v > smax[0]:
            smax[0] = v
        if wal._entries and wal._entries[-1].sequence_number > v:
            tail_at.append(h_.n_events)      # after this many events the log has an unsynced tail

    workers = [w if isinstance(w, dict) else {} for w in (workers or [])][:4]
    h = WorkerHarness([lsm], workers, do_op, op_gap=lambda op: _op(op)[2], after_event=sample, start_ns=start_ns)
    ctx["h"] = h
    h.run(stop_after)
    if wid_off:
        for rec in h.ops:
            rec.worker += wid_off
    return h


def build(case, stop_after=None):
    """Build LSMTree + recording WAL + workers for `case`, run (optionally stopping after k events)."""
    ctx = make_store(case)
    h = run_epoch(ctx, case.get("workers"), stop_after)
    return h, ctx["lsm"], ctx["wal"], ctx


def crash_and_read(lsm, keys):
    """crash(), recover, read; recover again, read; crash+recover again, read."""
    lost = lsm.crash()
    lsm.recover_from_crash()
    r1 = {key: lsm.get_sync(key) for key in keys}
    lsm.recover_from_crash()
    r2 = {key: lsm.get_sync(key) for key in keys}
    lsm.crash()
    lsm.recover_from_crash()
    r3 = {key: lsm.get_sync(key) for key in keys}
    return lost, r1, r2, r3


def judge_recovered(add, obl, ops, is_durable, ctx, pre, reads, S_now, S, in_wal):
    """The oracle: every key's recovered value must come from a write (or the initial absence) that is not definitely
    superseded by a durable write; repeated recoveries must read the same.  `ops` = all write records of the store's
    history (all epochs), `is_durable(rec)` = its WAL sync had completed before the crash that ended ITS epoch."""
    wal, keys = ctx["wal"], ctx["keys"]
    r1, r2, r3 = reads
    # an operation whose log record has not been observed yet (rec.aux is None: still in its append latency) is not durable
    orc = IntervalOracle()
    for rec in ops:
        if rec.kind not in ("put", "del"):
            continue
        val = rec.value if rec.kind == "put" else ABSENT
        orc.add_write(rec.key, val, rec)
    for key in keys:
        hist = orc._hist(key)
        dur = [w for w in hist if w.rec is not None and w.rec.aux is not None and is_durable(w.rec)]
        # acceptable: any write (or the initial absence) not definitely superseded by a durable write
        acc = [w for w in hist if not any(d is not w and before(w, d) for d in dur)]
        okv = [w.value for w in acc]
        got = r1[key]
        if got not in okv:
            src = [w for w in hist if w.value == got]
            killers = [d for d in dur if any(before(w, d) for w in src)] if src else []
            lost = [d for d in dur if not any(before(d, d2) for d2 in dur if d2 is not d)]    # latest durable writes
            exp = sorted(repr(v) for v in set(okv))
            if not src:
                clause = "value-never-written"
            elif any(d.rec.aux in wal.unsafe for d in lost):
                clause = "wal-truncated-past-unflushed-entry"
            elif pre[key] == got:
                # not a recovery problem: the store already returned this value before the crash (C14 territory); attributed
                # to the one known C14 root cause that is persistent if two compactions ran at the same time
                co = [s_ for s_ in ctx["spans"] if s_.name == "compact" and s_.end != s_.start]
                twice = any(a is not b and a.start <= b.start and (a.end is None or b.start < a.end) for a in co for b in co)
                clause = "concurrent-compactions-lose-newer-data" if twice else "wrong-before-the-crash-already"
            elif ctx["smax"][1] or S_now < S:
                clause = "synced-up-to-moved-backwards"
            elif got is ABSENT or any(d.value is not ABSENT for d in killers):
                clause = "durable-write-lost"
            else:
                clause = "deleted-key-resurrected"
            add(f"{P}/{obl}/{clause}",
                f"key {key}: recovered {got!r}, acceptable {exp}; durable writes " +
                ", ".join(f"seq{d.rec.aux}={d.value!r}" for d in dur)[:200] + f"; wal seqs at crash {sorted(in_wal)}, truncates {wal.truncs}")
        if r2[key] != r1[key]:
            add(f"{P}/{obl}/second-recovery-differs", f"key {key}: {r1[key]!r} after one recover_from_crash(), {r2[key]!r} after two")
        if r3[key] != r1[key]:
            add(f"{P}/{obl}/second-crash-recovery-differs", f"key {key}: {r1[key]!r} after crash+recover, {r3[key]!r} after another crash+recover")


def judge_crash_point(r, obl, case, k, seen):
    """Re-execute, stop after k events, crash, recover; add violations (once per signature) to r."""
    h, lsm, wal, info = build(case, stop_after=k)
    keys = info["keys"]
    S_now, S = wal.synced_up_to, max(info["smax"][0], wal.synced_up_to)
    in_wal = {e.sequence_number for e in wal._entries}
    pre = {key: lsm.get_sync(key) for key in keys}
    inflight = [s for s in info["spans"] if s.end is None]
    suspended = bool(inflight)
    _lost, r1, r2, r3 = crash_and_read(lsm, keys)

    def add(sig, detail):
        if sig not in seen:
            seen.add(sig)
            r.add(sig, f"[{info['desc']}] crash after {k} events (S={S}): {detail}")

    judge_recovered(add, obl, h.ops, lambda rec: rec.aux <= S, info, pre, (r1, r2, r3), S_now, S, in_wal)
    truncated_newer = bool(wal.truncs) and any(rec.aux is not None and rec.aux <= max(wal.truncs) and rec.aux not in in_wal and not rec.done for rec in h.ops)
    return h, suspended, truncated_newer, [s.name for s in inflight]


# ------------------------------------------------------------------------------------ two epochs
def two_epochs(case, c1, k2):
    """Life 1: run case['workers'], abandoned after c1 events, crash(), recover_from_crash().  Life 2 (same LSMTree and WAL
    objects, simulated time continues one tick after the first crash): run case['workers2'], abandoned after k2 events
    (None = to completion).  Returns (ctx, h1, h2, S1, lost1)."""
    from ..harness import TICK
    ctx = make_store(case)
    lsm, wal = ctx["lsm"], ctx["wal"]
    h1 = run_epoch(ctx, case.get("workers"), stop_after=c1)
    S1 = max(ctx["smax"][0], wal.synced_up_to)
    t1 = h1.now_ns()
    for rec in h1.ops:          # processes in flight died with the crash: they end there (and precede everything in life 2)
        if rec.end is None:
            rec.end = t1
    for sp in ctx["spans"]:
        if sp.end is None:
            sp.end = t1
    lost1 = lsm.crash().get("wal_entries_lost", 0)
    lsm.recover_from_crash()
    # classification bookkeeping of the recording WAL: nothing is "in its append latency" any more, and every surviving
    # entry now lives in the recovered memtable
    wal.unapplied.clear()
    for e in wal._entries:
        wal.home[e.sequence_number] = lsm._memtable
    h2 = run_epoch(ctx, case.get("workers2"), stop_after=k2, start_ns=t1 + TICK, wid_off=10)
    return ctx, h1, h2, S1, lost1


def execute_two_epochs(obl):
    def execute(case):
        r = Result()
        ctx0 = make_store(case)
        h0 = run_epoch(ctx0, case.get("workers"))                  # life 1 to completion: N1 and where an unsynced tail exists
        r.labels.append(ctx0["desc"])
        if h0.status != "done" or not h0.all_finished or h0.n_events > 400:
            r.labels.append("inconclusive-" + str(h0.status))
            return r
        n1, tails = h0.n_events, sorted(set(ctx0["tail_at"]))
        picks = [abs(_i(x)) for x in (case.get("c1") or [0])][:3] or [0]
        firsts = []
        for j, x in enumerate(picks):       # sampled first-crash positions: the first two prefer points with an unsynced tail
            pool = tails if (tails and j < 2) else list(range(n1 + 1))
            c = pool[x % len(pool)]
            if c not in firsts:
                firsts.append(c)
        seen = set()
        points = lost_cases = n_flush = n_comp = 0
        for c1 in firsts:
            ctx, h1, h2, S1, lost1 = two_epochs(case, c1, None)
            if h2.status != "done" or not h2.all_finished or h2.n_events > 400:
                r.labels.append("inconclusive-" + str(h2.status))
                continue
            lost_cases += lost1 > 0
            e1 = {id(x) for x in h1.ops}
            for k2 in range(0, h2.n_events + 1):
                ctx, h1, h2, S1, lost1 = two_epochs(case, c1, k2)
                lsm, wal, keys = ctx["lsm"], ctx["wal"], ctx["keys"]
                S_now, S2 = wal.synced_up_to, max(ctx["smax"][0], wal.synced_up_to)
                in_wal = {e.sequence_number for e in wal._entries}
                pre = {key: lsm.get_sync(key) for key in keys}
                names = [s.name for s in ctx["spans"] if s.end is None]
                n_flush += "flush" in names
                n_comp += "compact" in names
                _lost, r1, r2, r3 = crash_and_read(lsm, keys)
                first = {id(x) for x in h1.ops}

                def add(sig, detail, c1=c1, k2=k2, S1=S1, S2=S2, lost1=lost1, desc=ctx["desc"]):
                    if sig not in seen:
                        seen.add(sig)
                        r.add(sig, f"[{desc}] first crash after {c1} events (S={S1}, {lost1} unsynced entries lost), recovery, "
                                   f"second crash after {k2} more events (S={S2}): {detail}")

                judge_recovered(add, obl, h1.ops + h2.ops,
                                lambda rec, first=first, S1=S1, S2=S2: rec.aux <= (S1 if id(rec) in first else S2),
                                ctx, pre, (r1, r2, r3), S_now, S2, in_wal)
                points += 1
        r.nontrivial = lost_cases > 0 and points > 0
        lo = min(points // 25 * 25, 150)
        r.labels += [f"crash-points:{lo}-{lo + 24}" if lo < 150 else "crash-points:150+", "exhaustive-second-crash-points",
                     f"first-crashes:{len(firsts)}"]
        if lost_cases:
            r.labels.append("first-crash-lost-unsynced-entry")
        if n_flush:
            r.labels.append("crash-during-flush")
        if n_comp:
            r.labels.append("crash-during-compaction")
        if r.violations:
            r.labels.append("violating")
        r.observed = {"crash_points": points, "first_crashes": firsts, "first_crashes_losing_unsynced": lost_cases}
        r.counters = {"crash_points_executed": points, "crash_points_during_flush": n_flush, "crash_points_during_compaction": n_comp,
                      "first_crashes_sampled": len(firsts), "first_crashes_losing_unsynced_entry": lost_cases}
        r.target = float(2 * lost_cases + min(n_flush, 10) / 10)
        return r
    return execute


def execute_factory(obl):
    def execute(case):
        r = Result()
        h, lsm, wal, info = build(case)                 # full run: N
        r.labels.append(info["desc"])
        if h.status != "done" or not h.all_finished:
            r.labels.append("inconclusive-" + str(h.status))
            return r
        n = h.n_events
        if n > 600:                                      # keeps N^2 bounded; never hit by the generated sizes
            r.labels.append("inconclusive-too-long")
            return r
        seen = set()
        n_susp = n_flush = n_comp = 0
        for k in range(0, n + 1):
            _h, susp, _tn, names = judge_crash_point(r, obl, case, k, seen)
            n_susp += susp
            n_flush += "flush" in names
            n_comp += "compact" in names
        r.nontrivial = n_susp > 0
        lo = min((n + 1) // 25 * 25, 150)
        r.labels += [f"crash-points:{lo}-{lo + 24}" if lo < 150 else "crash-points:150+", "exhaustive-crash-points"]
        if n_flush:
            r.labels.append("crash-during-flush")
        if n_comp:
            r.labels.append("crash-during-compaction")
        if wal.truncs:
            r.labels.append("wal-truncated")
        if r.violations:
            r.labels.append("violating")
        r.observed = {"crash_points": n + 1, "during_flush": n_flush, "during_compaction": n_comp}
        r.counters = {"crash_points_executed": n + 1, "crash_points_during_flush": n_flush, "crash_points_during_compaction": n_comp}
        r.target = float(n_comp + n_flush)
        return r
    return execute


def strategy(single):
    def s(tier):
        big = tier == "thorough"
        op = st.tuples(st.integers(0, 3), st.integers(0, 4), st.sampled_from([0, 0, 0, 1, 1, 2, 3])).map(list)
        if single:
            ws = st.lists(st.fixed_dictionaries({"start": st.just(0), "ops": st.lists(op, min_size=3, max_size=24 if big else 14)}),
                          min_size=1, max_size=1)
        else:
            ws = st.lists(st.fixed_dictionaries({"start": st.integers(0, 10), "ops": st.lists(op, min_size=1, max_size=9 if big else 6)}),
                          min_size=2, max_size=4)
        cfg = st.fixed_dictionaries({"sync": st.integers(0, 2), "batch": st.integers(0, 2), "period": st.integers(0, 5),
                                     "ww": st.integers(0, 3), "ws": st.integers(0, 5), "strat": st.integers(0, 2),
                                     "p1": st.sampled_from([0, 0, 0, 1, 2, 3, 4]), "p2": st.integers(0, 3),
                                     "mem": st.sampled_from([0, 0, 0, 1, 1, 2, 3]), "wl": st.integers(0, 7), "levels": st.integers(0, 2)})
        return st.fixed_dictionaries({"cfg": cfg, "nkeys": st.integers(2, 5), "workers": ws})
    return s


def strategy_two_epochs(tier):
    big = tier == "thorough"
    op = st.tuples(st.integers(0, 3), st.integers(0, 4), st.sampled_from([0, 0, 0, 1, 1, 2, 3])).map(list)

    def ws(maxops):
        return st.lists(st.fixed_dictionaries({"start": st.integers(0, 8), "ops": st.lists(op, min_size=1, max_size=maxops)}),
                        min_size=1, max_size=3)
    cfg = st.fixed_dictionaries({"sync": st.sampled_from([1, 1, 2]), "batch": st.integers(0, 2), "period": st.integers(0, 5),
                                 "ww": st.integers(0, 3), "ws": st.integers(0, 5), "strat": st.integers(0, 2),
                                 "p1": st.sampled_from([0, 0, 1, 2, 3, 4]), "p2": st.integers(0, 3),
                                 "mem": st.sampled_from([1, 1, 2, 3, 3, 0]), "wl": st.integers(0, 7), "levels": st.integers(0, 2)})
    return st.fixed_dictionaries({"cfg": cfg, "nkeys": st.integers(2, 5), "workers": ws(7 if big else 5), "workers2": ws(8 if big else 6),
                                  "c1": st.lists(st.integers(0, 400), min_size=2, max_size=3)})


_RULE = ("writers doing put/delete over 2-5 keys on LSMTree(memtable 1-4, 2-4 levels, size-tiered/leveled/FIFO) + WriteAheadLog "
         "(sync every write / batch 2-4 / periodic); the workload is re-executed and abandoned after k events for EVERY k = 0..N, then "
         "crash(), recover_from_crash(), get_sync of all keys, recover again, crash+recover again; NOTE: evaluations count WORKLOADS - "
         "each workload enumerates every crash point k = 0..N (measured mean about 30 per workload, max about 150; the exact number "
         "of a case is in Result.observed['crash_points'] and bucketed in its label crash-points:<bucket>); ")

OBLIGATIONS = [
    Obligation("crash", strategy(False), execute_factory("crash"), {"quick": 220, "thorough": 8000},
               _RULE + "2-4 concurrent writers with generated start offsets; non-trivial = at least one crash point at which a flush or "
               "compaction generator is suspended", case_timeout={"quick": 60.0, "thorough": 180.0}),
    Obligation("crash-single-writer", strategy(True), execute_factory("crash-single-writer"), {"quick": 110, "thorough": 4000},
               _RULE + "one writer (restricted domain: flushes and compactions run inside the put that triggers them, so no WAL entry "
               "of a newer memtable exists when the log is truncated and no two compactions overlap); same non-trivial rule",
               case_timeout={"quick": 60.0, "thorough": 180.0}),
    Obligation("crash-two-epochs", strategy_two_epochs, execute_two_epochs("crash-two-epochs"), {"quick": 140, "thorough": 3000},
               "two lives of one LSMTree + WriteAheadLog with a batch or periodic sync policy (memtable mostly 2-4 so that synced entries stay in "
               "the log): life 1 = 1-3 writers, crashed at 2-3 SAMPLED event indexes taken from the case (the first two preferring points at "
               "which the log has an unsynced tail), crash(), recover_from_crash(); life 2 = a second generated workload of 1-3 writers on the "
               "recovered store (simulated time continues) whose crash points are ENUMERATED (k = 0..N2 for every sampled first crash, each by "
               "re-executing both lives); after the second crash+recovery the same oracle is applied with the durable set carried across lives "
               "(life-1 writes durable iff seq <= synced_up_to at the first crash, life-2 writes iff seq <= synced_up_to at the second; writes "
               "in flight at the first crash end there and precede life 2); recover again / crash+recover again must read the same. "
               "Evaluations count workloads; counters.crash_points_executed counts second-crash points. non-trivial = a sampled first crash "
               "really lost an unsynced WAL entry (also the hypothesis.target score)", case_timeout={"quick": 90.0, "thorough": 240.0}),
]
