"""C09 — capacity primitives never over-admit or leak, wake in order, and let time pass.

Generated worker workloads (vfw/dsl/workers.py) drive the real generator / future API of every primitive
inside a real Simulation.  The oracle is built from what the workers observe (request / grant / release
records in one totally ordered trace) plus the primitive's *public* counters:

* over-limit        - replaying the trace, outstanding holders/amount never exceed the limit
                      (RWLock: a writer excludes everyone, readers exclude writers, readers <= max_readers);
* conservation      - after every event ``held(trace) + available <= capacity`` and ``0 <= available <= capacity``;
                      whenever the clock moves, and at the end, ``held + available == capacity``;
* blocked order     - when a blocked request is observed granted, every request that blocked earlier and has
                      not yet been observed granted must already own its share according to the public counters
                      (``capacity - available - held(trace)`` covers it).  This is order-of-grant, insensitive to
                      the order in which equally-timed resumptions are delivered;
* as soon as        - the clock never moves while the head-of-line blocked request fits into what the trace
                      says is free;
* time passes       - the spin guard is silent (bounded number of deliveries at one clock value);
* eventually served - at the end of the run every worker has finished and everything was given back.

Barging of a request that never blocked is not judged (the statement orders blocked acquirers only)."""
from __future__ import annotations

from fractions import Fraction

from hypothesis import strategies as st

from ..dsl.workers import WorkerRun, stepwise
from ..harness import TICK, ticks
from ..runner import Obligation, Result

P = "C09"
ASSUMPTIONS = [
    "amounts are positive and <= capacity (documented ValueError otherwise); Resource amounts are ints, multiples of 1/4 (exact in binary floating point), decimal tenths against capacity 0.1-0.5, or quarters +/- 2^-31 (4.7e-10) and tiny amounts 2^-30, 2^-31 (dyadic, so the primitive's own float arithmetic is exact); for the float modes sums are exact rationals of the float values and a slack of 1e-12 x capacity absorbs only the round-off of the primitive's own `available` (over-admission = outstanding grants exceed capacity by more than that, or available below -slack; a request is said to fit only if it fits with that margin)",
    "hold times and start offsets are multiples of 1/512 s (exact both as float seconds and integer ns)",
    "only capacity that was granted is released, once per grant (a second Grant.release() is exercised because it is documented as a no-op)",
    "barging by a request that never blocked is not judged; order is judged among blocked requests only",
    "blocked = the primitive's public waiter count grew during the first step of the acquire call (future API: the returned future is unresolved)",
    "PreemptibleResource: order among blocked requests is (priority, arrival) and is judged only against requests that blocked before the judged request was issued",
    "ConnectionPool: the instant a released connection is handed to a waiter (on_acquire callback during release) is the grant; the waiter notices at its next poll; time-out accuracy is not judged",
    "ConnectionPool total_connections may or may not count connections that are still being set up (both accepted): active+idle <= total <= active+idle+in_setup",
    "Bulkhead / ThreadPool are driven through events; the scripted target logs start and end of service",
    "spin guard: more than 8000 deliveries at one clock value (the largest count measured on any legal run of these workloads, including the finite zero-delay polling of the unfixed tree, is 122) is the verdict 'waiting consumes simulated activity and the clock cannot advance'",
    "a total event budget hit is labelled inconclusive, never a violation",
]

SPIN_CAP = 8000


class Once:
    """Report every signature at most once per case."""

    def __init__(self, r, obl):
        self.r, self.obl, self.seen = r, obl, set()

    def __call__(self, clause, detail=""):
        sig = f"{P}/{self.obl}/{clause}"
        if sig not in self.seen:
            self.seen.add(sig)
            self.r.add(sig, detail)


def ms(ns):
    return f"{ns / TICK:g}tk"


# =========================================================================================== capacity judge
class CapJudge:
    """Trace-based judge for Resource / PreemptibleResource / Semaphore / Mutex / RWLock.

    kind: 'amount' (capacity + available public), 'mutex' (is_locked), 'rw' (active_readers, is_write_locked)."""

    def __init__(self, bad, kind, comp, cap=1, max_readers=None, prio=False, tol=0):
        self.bad, self.kind, self.comp, self.cap, self.max_r, self.prio = bad, kind, comp, cap, max_readers, prio
        # float amounts: sums are exact rationals of the float values (the oracle adds no round-off of its own); `tol`
        # (1e-12 x capacity, 0 for ints and quarters) only absorbs the round-off in the primitive's own float `available`
        self.tol = tol
        self.broken = False
        self.F = Fraction if tol else (lambda x: x)
        self.held = []          # requests currently held according to the trace
        self.pending = []       # blocked requests not yet observed granted, in arrival order
        self.nreq = 0
        self.n_blocked_granted = 0
        self.classes = set()

    # ---- model helpers
    def limit_ok(self, held):
        if self.kind == "amount":
            return sum(self.F(q["a"]) for q in held) <= self.F(self.cap) + self.tol
        if self.kind == "mutex":
            return len(held) <= 1
        nw = sum(1 for q in held if q["m"] == "w")
        nr = len(held) - nw
        return nw <= 1 and (nw == 0 or nr == 0) and (self.max_r is None or nr <= self.max_r)

    def fits(self, held, q):
        """q certainly fits beside `held` (float amounts: by more than the round-off allowance)."""
        if self.kind == "amount" and self.tol:
            return sum(self.F(x["a"]) for x in held) + self.F(q["a"]) <= self.F(self.cap) - self.tol
        return self.limit_ok(held + [q])

    def vec(self, reqs):
        if self.kind == "amount":
            return (sum(self.F(q["a"]) for q in reqs),)
        if self.kind == "mutex":
            return (len(reqs),)
        nw = sum(1 for q in reqs if q["m"] == "w")
        return (len(reqs) - nw, nw)

    def public(self):
        c = self.comp
        if self.kind == "amount":
            return (self.F(self.cap) - self.F(c.available),)
        if self.kind == "mutex":
            return (1 if c.is_locked else 0,)
        return (c.active_readers, 1 if c.is_write_locked else 0)

    def inflight(self):
        return tuple(p - h for p, h in zip(self.public(), self.vec(self.held)))

    # ---- trace events (called from the worker code, in order)
    def new_req(self, w, j, a=1, m="x", p=0):
        self.nreq += 1
        return {"w": w, "j": j, "a": a, "m": m, "p": p, "idx": self.nreq, "blocked": False, "granted": False}

    def on_blocked(self, q):
        q["blocked"] = True
        self.pending.append(q)

    def on_grant(self, q, t):
        q["granted"] = True
        self.held.append(q)
        if not self.limit_ok(self.held):
            self.bad("over-limit", f"at {ms(t)} holders {[(h['w'], h['m'], h['a']) for h in self.held]} limit {self.cap}"
                     + (f" max_readers {self.max_r}" if self.kind == "rw" else ""))
        if q["blocked"]:
            self.n_blocked_granted += 1
            if q in self.pending:
                self.pending.remove(q)
            if self.prio:
                earlier = [p for p in self.pending if p["idx"] < q["idx"] and p["issued_before"] < q["issued_at"]
                           and (p["p"], p["idx"]) < (q["p"], q["idx"])]
            else:
                earlier = [p for p in self.pending if p["idx"] < q["idx"]]
            if earlier:
                need, have = self.vec(earlier), self.inflight()
                if any(h < n - self.tol for h, n in zip(have, need)):
                    self.bad("blocked-order", f"at {ms(t)} w{q['w']} (blocked as #{q['idx']}) holds while earlier blocked "
                             f"{[(p['w'], p['m'], p['a'], p['idx']) for p in earlier]} own nothing yet "
                             f"(granted-but-unobserved per public counters {have}, needed {need})")

    def on_release(self, q):
        if q in self.held:
            self.held.remove(q)

    # ---- sampling
    def sample(self, t):
        if self.broken:
            return
        if self.kind == "amount":
            av = self.comp.available
            if av < -self.tol or av > self.cap + self.tol:
                self.bad("available-out-of-range", f"available={av} capacity={self.cap} at {ms(t)}")
        fl = self.inflight()
        if any(x < -self.tol for x in fl):
            self.bad("held-plus-available-not-capacity/after-event",
                     f"at {ms(t)} trace holds {self.vec(self.held)} but public counters say in use {self.public()}")

    def quiescent(self, t, moving=True):
        if self.broken:
            return
        fl = self.inflight()
        if any(abs(x) > self.tol for x in fl):
            self.bad("held-plus-available-not-capacity/at-quiescence",
                     f"end of instant {ms(t)}: trace holds {self.vec(self.held)}, public counters say in use {self.public()}")
        elif moving and self.pending:
            if self.prio:
                head = min(self.pending, key=lambda p: (p["p"], p["idx"]))
            else:
                head = self.pending[0]
            if self.fits(self.held, head):
                self.bad("stranded-head-waiter", f"clock leaves {ms(t)} while blocked w{head['w']} "
                         f"({head['m']},{head['a']}) fits: holders {[(h['w'], h['m'], h['a']) for h in self.held]} limit {self.cap}")


def finish_common(r, bad, run, judge, spin_clause="blocked-wait-spins"):
    """Verdicts on how the run ended. Returns True when the run completed normally."""
    if run.status == "spin":
        if judge is None or judge.pending:
            bad(spin_clause, f"> {SPIN_CAP} deliveries at t={ms(run.probe.spin_at)} while "
                f"{len(judge.pending) if judge else '?'} request(s) are blocked: the clock cannot advance")
        else:
            bad("spin-without-blocked-request", f"> {SPIN_CAP} deliveries at t={ms(run.probe.spin_at)}")
        r.labels.append("spin")
        return False
    if run.status == "budget":
        r.labels.append("inconclusive-budget")
        r._inconclusive = True
        return False
    return True


# =========================================================================================== locks & resources
def _ops(hold, n_ops=3):
    return st.lists(st.fixed_dictionaries({"a": st.integers(0, 7), "h": hold, "m": st.integers(0, 5),
                                           "p": st.integers(0, 3), "x": st.integers(0, 19)}),
                    min_size=1, max_size=n_ops)


def cap_strategy(safe):
    def s(tier):
        big = tier == "thorough"
        hold = st.just(0) if safe else st.sampled_from([0, 0, 1, 1, 2, 3])
        start = st.sampled_from([0, 0, 0, 1, 2, 3])
        worker = st.fixed_dictionaries({"start": start, "ops": _ops(hold)})
        return st.fixed_dictionaries({
            "cap": st.integers(1, 5), "q": st.sampled_from([1, 1, 1, 4, 10, 7, 7, 9, 9]), "mr": st.integers(0, 3),
            "workers": st.lists(worker, min_size=2, max_size=8 if big else 6),
        })
    return s


def _build(prim, case):
    """-> (component, judge factory args)"""
    cap = 1 + (int(case.get("cap", 1)) - 1) % 5
    if prim == "resource":
        from happysimulator.components.resource import Resource
        q = case.get("q")
        if q == 10:                       # decimal fractions: capacity 0.1 .. 0.5, grants of 0.1 .. 0.5
            capf = cap / 10
            return Resource("res", capf), dict(kind="amount", cap=capf, tol=1e-12 * capf)
        if q == 9:                        # decimal hairs (5e-10, 1e-9): the primitive's own sums and differences round
            capf = cap * 0.25
            return Resource("res", capf), dict(kind="amount", cap=capf, tol=1e-12 * capf)
        if q == 7:                        # quarters plus amounts a hair (2^-31) above / below them and tiny amounts (2^-30, 2^-31; all <= 1e-9)
            capf = cap * 0.25
            return Resource("res", capf), dict(kind="amount", cap=capf, tol=1e-12 * capf)
        return Resource("res", cap), dict(kind="amount", cap=cap)
    if prim == "preemptible":
        from happysimulator.components.industrial.preemptible_resource import PreemptibleResource
        return PreemptibleResource("pres", cap), dict(kind="amount", cap=cap, prio=True)
    if prim == "semaphore":
        from happysimulator.components.sync.semaphore import Semaphore
        return Semaphore("sem", cap), dict(kind="amount", cap=cap)
    if prim == "mutex":
        from happysimulator.components.sync.mutex import Mutex
        return Mutex("mtx"), dict(kind="mutex", cap=1)
    from happysimulator.components.sync.rwlock import RWLock
    mr = int(case.get("mr", 0)) % 4
    return RWLock("rw", max_readers=(mr or None)), dict(kind="rw", cap=1, max_readers=(mr or None))


def lock_execute(prim, obl):
    future_api = prim in ("resource", "preemptible")

    def execute(case):
        r = Result()
        bad = Once(r, obl)
        comp, jargs = _build(prim, case)
        J = CapJudge(bad, comp=comp, **jargs)
        cap = J.cap
        q4 = prim == "resource" and case.get("q") == 4
        qmode = case.get("q") if prim == "resource" else None
        wl = [w for w in (case.get("workers") or []) if isinstance(w, dict)][:10]

        def amount(op):
            if prim in ("mutex", "rwlock"):
                return 1
            a = int(op.get("a", 0))
            if qmode == 10:
                return min((1 + a % 5) / 10, cap)
            if qmode == 9:
                k = (1 + a % 5) * 0.25
                return min([k, k, k + 5e-10, 1e-9, 5e-10, k - 5e-10][int(op.get("m", 0)) % 6], cap)
            if qmode == 7:
                k = (1 + a % 5) * 0.25
                # hairs are powers of two (2^-31 = 4.7e-10, 2^-30 = 9.3e-10 <= 1e-9): every sum and difference the
                # primitive forms is exact in binary floating point, so its own arithmetic cannot drift
                v = [k, k, k + 2.0 ** -31, 2.0 ** -30, 2.0 ** -31, k - 2.0 ** -31][int(op.get("m", 0)) % 6]
                return min(v, cap)
            return (1 + a % (cap * 4)) / 4 if q4 else 1 + a % cap

        def op_fn(run, wk, j, op):
            x = int(op.get("x", 2)) % 20
            mode = "x"
            if prim == "rwlock":
                mode = "w" if int(op.get("m", 0)) % 3 == 0 else "r"
            q = J.new_req(wk.i, j, amount(op), mode, int(op.get("p", 0)) % 4)
            handle = None
            if x == 0 and prim in ("resource", "mutex", "semaphore"):
                # non-blocking attempt
                free_before = J.fits(J.held, q) and not any(abs(x) > J.tol for x in J.inflight()) and not J.pending
                if prim == "resource":
                    handle = comp.try_acquire(q["a"])
                    ok = handle is not None
                elif prim == "mutex":
                    ok = comp.try_acquire(f"w{wk.i}")
                else:
                    ok = comp.try_acquire(q["a"])
                run.ev("try", w=wk.i, ok=ok)
                if not ok:
                    if free_before:
                        bad("try-refused-with-free-capacity", f"at {ms(run.t)} try_acquire({q['a']}) refused, holders "
                            f"{[(h['w'], h['a']) for h in J.held]} limit {cap}, nobody waiting")
                    return "refused"
                J.on_grant(q, run.t)
            elif future_api:
                q["issued_at"] = run._seq
                if prim == "preemptible":
                    def lost(q=q):
                        run.ev("preempted", w=q["w"])
                        J.on_release(q)
                        if q in J.pending:          # granted and preempted again before its process resumed
                            J.pending.remove(q)
                    fut = comp.acquire(q["a"], priority=float(q["p"]), preempt=int(op.get("m", 0)) % 2 == 0, on_preempt=lost)
                else:
                    fut = comp.acquire(q["a"])
                if not fut.is_resolved:
                    J.on_blocked(q)
                q["issued_before"] = run.ev("req", w=wk.i, blocked=q["blocked"])["seq"]
                handle = yield fut
                if prim == "preemptible" and handle.preempted:
                    return "preempted-before-resume"     # capacity already taken back; nothing is held
                J.on_grant(q, run.t)
            else:
                w0 = comp.waiters

                def first(q=q, w0=w0):
                    if comp.waiters > w0:
                        J.on_blocked(q)
                    run.ev("req", w=q["w"], blocked=q["blocked"])
                if prim == "mutex":
                    g = comp.acquire(f"w{wk.i}")
                elif prim == "semaphore":
                    g = comp.acquire(q["a"])
                else:
                    g = comp.acquire_write() if mode == "w" else comp.acquire_read()
                yield from stepwise(g, first)
                J.on_grant(q, run.t)
            run.ev("grant", w=wk.i)
            yield ticks(int(op.get("h", 0)) % 8)
            if prim == "preemptible" and handle.preempted:
                handle.release()          # documented no-op after preemption
                return "preempted"
            run.ev("rel", w=wk.i)
            J.on_release(q)
            try:
                if future_api:
                    handle.release()
                    if x == 1:
                        handle.release()      # documented: idempotent
                elif prim == "mutex":
                    comp.release()
                elif prim == "semaphore":
                    comp.release(q["a"])
                elif mode == "w":
                    comp.release_write()
                else:
                    comp.release_read()
            except (ValueError, RuntimeError) as e:
                bad("release-raised", f"at {ms(run.t)} release by w{wk.i} of ({mode},{q['a']}): {type(e).__name__}: {e}")
                J.broken = True          # the grant could not be returned: conservation / liveness clauses would only echo this
            return "ok"

        run = WorkerRun([comp], wl, op_fn, after_event=lambda run: J.sample(run.t),
                        on_advance=lambda run: J.quiescent(run.probe._at if run.probe._at is not None else 0),
                        max_per_instant=SPIN_CAP)
        run.run()
        if finish_common(r, bad, run, J):
            J.quiescent(run.t, moving=False)
            if J.broken:
                pass
            elif not run.all_done:
                bad("waiter-never-served", f"run ended at {ms(run.t)} with unfinished workers {run.unfinished()} "
                    f"blocked {[(p['w'], p['m'], p['a']) for p in J.pending]} holders {[(h['w']) for h in J.held]}")
            elif J.held or any(abs(x) > J.tol for x in J.public()):
                bad("leak-at-end", f"all workers finished but in use per public counters {J.public()}, trace {J.vec(J.held)}")
        starts = [int(w.get("start", 0)) for w in wl]
        r.nontrivial = J.n_blocked_granted > 0
        if len(set(starts)) < len(starts):
            r.labels.append("simultaneous-arrival")
        if any(q4 or amount(op) > 1 for w in wl for op in (w.get("ops") or [])):
            r.labels.append("multi-unit")
        r.labels.append(f"blocked-granted={min(J.n_blocked_granted, 3)}{'+' if J.n_blocked_granted > 3 else ''}")
        r.target = float(J.n_blocked_granted)
        return r
    return execute


# =========================================================================================== barrier
def barrier_strategy(safe):
    def s(tier):
        start = st.just(0) if safe else st.sampled_from([0, 0, 1, 2, 3])
        work = st.just(0) if safe else st.sampled_from([0, 0, 1, 2])
        # controller actions: reset() / abort() at a tick (abort is followed by a reset one tick later: documented recovery)
        ctl = st.lists(st.tuples(st.sampled_from(["reset", "reset", "abort"]), st.integers(0, 6)), max_size=0 if safe else 2)
        return st.fixed_dictionaries({
            "parties": st.integers(1, 4), "groups": st.integers(1, 2), "gens": st.integers(1, 3),
            "starts": st.lists(start, min_size=8, max_size=8), "work": st.lists(work, min_size=8, max_size=8),
            "ctl": ctl, "missing": st.sampled_from([0, 0, 1]),
        })
    return s


def barrier_execute(obl):
    def execute(case):
        from happysimulator.components.sync.barrier import Barrier
        r = Result()
        bad = Once(r, obl)
        parties = 1 + (int(case.get("parties", 1)) - 1) % 4
        groups = 1 + (int(case.get("groups", 1)) - 1) % 2
        gens = 1 + (int(case.get("gens", 1)) - 1) % 3
        ctl = []
        for c in (case.get("ctl") or [])[:3]:
            try:
                ctl.append((c[0] if c[0] in ("reset", "abort") else "reset", int(c[1]) % 8))
            except (TypeError, ValueError, IndexError):
                continue
        # every worker waits `gens` times; `missing` leaves a round short of one party so that somebody is parked when the
        # controller abandons the round
        n = max(1, parties * groups - (int(case.get("missing", 0) or 0) % 2 if ctl else 0))
        starts = (list(case.get("starts") or []) + [0] * 8)[:8]
        work = (list(case.get("work") or []) + [0] * 8)[:8]
        bar = Barrier("bar", parties)
        arrivals = []              # dict(w, t, ret, refused, err)
        log = []                   # ("arr", a) | ("reset", t) | ("abort", t) in trace order

        def op_fn(run, wk, j, op):
            if isinstance(op, dict):                  # controller
                log.append((op["ctl"], run.t))
                getattr(bar, op["ctl"])()
                r.labels.append(op["ctl"])
                yield 0.0
                return op["ctl"]
            a = {"w": wk.i, "t": run.t, "ret": None, "refused": bar.broken, "err": False}
            arrivals.append(a)
            log.append(("arr", a))
            try:
                res = yield from bar.wait()
            except RuntimeError:                      # documented for a broken barrier
                a["err"] = True
                res = None
            a["ret"] = run.t
            if a["refused"] and not a["err"]:
                bad("wait-on-aborted-barrier-did-not-raise", f"w{wk.i} at {ms(run.t)}")
            yield ticks(int(op) % 4)
            return res

        wl = [{"start": int(starts[i]) % 4, "ops": [int(work[(i + g) % 8]) % 4 for g in range(gens)]} for i in range(n)]
        for kind, t in ctl:
            ops = [{"ctl": kind}]
            wl.append({"start": t, "ops": ops})
            if kind == "abort":
                wl.append({"start": t + 1, "ops": [{"ctl": "reset"}]})

        def after(run):
            if bar.waiting >= parties:
                bad("more-waiting-than-parties", f"waiting={bar.waiting} parties={parties} at {ms(run.t)}")

        run = WorkerRun([bar], wl, op_fn, after_event=after, max_per_instant=SPIN_CAP)
        run.run()

        class _J:
            pending = [a for a in arrivals if a["ret"] is None]
        ok = finish_common(r, bad, run, _J)
        # rounds: `parties` consecutive arrivals that are not separated by a reset()/abort(); a round cut short by a
        # reset/abort is abandoned (its parked parties may leave with or without RuntimeError - not judged);
        # arrivals refused by an aborted barrier belong to no round
        rounds, cur = [], []
        for kind, x in log:
            if kind == "arr":
                if x["refused"]:
                    continue
                cur.append(x)
                if len(cur) == parties:
                    rounds.append((cur, True))
                    cur = []
            else:
                for a in cur:
                    a["abandoned"] = x
                cur = []
        if cur:
            rounds.append((cur, False))
        crossed = False
        for k, (gen, complete) in enumerate(rounds):
            last_t = gen[-1]["t"]
            if complete and len({a["t"] for a in gen}) > 1:
                crossed = True
            for a in gen:
                if a["ret"] is None:
                    continue
                if not complete or a["ret"] < last_t:
                    bad("released-before-all-parties-arrived", f"w{a['w']} arrived {ms(a['t'])} left {ms(a['ret'])}, "
                        f"round complete={complete} ({len(gen)} of {parties} arrivals since the last reset/abort), last arrival {ms(last_t)}")
                elif a["ret"] > last_t:
                    bad("released-late", f"w{a['w']} left {ms(a['ret'])} but the last party arrived {ms(last_t)}")
                elif a["err"]:
                    # an abort() in the very instant the round completed, before the released party resumed: it leaves
                    # with RuntimeError; it *is* released, which is all the statement asks - labelled only
                    r.labels.append("released-party-saw-abort")
            if ok and complete and any(a["ret"] is None for a in gen):
                bad("waiter-never-served", f"round {k} complete at {ms(last_t)} but "
                    f"{[a['w'] for a in gen if a['ret'] is None]} never left the barrier")
        for a in arrivals:
            if "abandoned" in a and a["ret"] is not None and a["ret"] < a["abandoned"]:
                bad("released-before-all-parties-arrived", f"w{a['w']} arrived {ms(a['t'])} left {ms(a['ret'])} before the round "
                    f"was abandoned at {ms(a['abandoned'])}")
            if ok and "abandoned" in a and a["ret"] is None:
                bad("waiter-never-served", f"w{a['w']} was parked when the round was abandoned at {ms(a['abandoned'])} and never woke up")
        # (a worker of an incomplete last round may legitimately stay parked)
        if ok and run.all_done and bar.waiting != 0:
            bad("leak-at-end", f"waiting={bar.waiting} although every worker left the barrier")
        r.nontrivial = parties > 1 and ok and any(c for _, c in rounds)
        r.labels.append("arrivals-at-different-instants" if crossed else "same-instant-generations")
        r.labels.append(f"parties={parties}")
        if any("abandoned" in a for a in arrivals):
            r.labels.append("round-abandoned-with-parked-parties")
        return r
    return execute


# =========================================================================================== condition
def condition_strategy(safe):
    def s(tier):
        tk = st.just(0) if safe else st.sampled_from([0, 0, 1, 2, 3])
        return st.fixed_dictionaries({
            "consumers": st.lists(tk, min_size=1, max_size=4),
            "producers": st.lists(st.fixed_dictionaries({"start": tk, "items": st.integers(1, 3), "n": st.sampled_from([0, 1, 1, 2, 3]),
                                                         "hold": tk}), min_size=1, max_size=3),
            "producers_first": st.sampled_from([False, False, True]),
        })
    return s


def condition_execute(obl, safe):
    def execute(case):
        from happysimulator.components.sync.condition import Condition
        from happysimulator.components.sync.mutex import Mutex
        r = Result()
        bad = Once(r, obl)
        mtx = Mutex("mtx")
        cond = Condition("cond", mtx)
        z = (lambda x: 0) if safe else (lambda x: int(x) % 4)
        prods = [{"start": z(p.get("start", 0)), "items": 1 + (int(p.get("items", 1)) - 1) % 3, "n": int(p.get("n", 0)) % 4,
                  "hold": z(p.get("hold", 0))} for p in (case.get("producers") or []) if isinstance(p, dict)][:3]
        total_items = sum(p["items"] for p in prods)
        cons = [z(x) for x in (case.get("consumers") or [0])][:4][:total_items]     # an item for every consumer
        items = []
        in_cs = []                 # workers inside the mutex according to the trace
        waiting = []               # consumers inside cond.wait() (not yet returned), in order of entering
        S = {"waits": 0, "woken": 0}

        def enter(run, w):
            in_cs.append(w)
            if len(in_cs) > 1:
                bad("over-limit", f"at {ms(run.t)} workers {in_cs} all hold the condition's mutex")

        def leave(w):
            if w in in_cs:
                in_cs.remove(w)

        def op_fn(run, wk, j, op):
            yield from mtx.acquire(f"w{wk.i}")
            enter(run, wk.i)
            if op["k"] == "consume":
                while not items:
                    S["waits"] += 1
                    me = {"w": wk.i, "seq": S["waits"]}
                    waiting.append(me)
                    leave(wk.i)                      # wait() gives the mutex up in its first step
                    yield from cond.wait()
                    enter(run, wk.i)
                    waiting.remove(me)
                    S["woken"] += 1
                    earlier = [x for x in waiting if x["seq"] < me["seq"]]
                    notified_pending = len(waiting) - cond.waiters
                    if len(earlier) > notified_pending:
                        bad("blocked-order", f"at {ms(run.t)} w{wk.i} returned from wait() while earlier waiters "
                            f"{[x['w'] for x in earlier]} are still un-notified (cond.waiters={cond.waiters})")
                items.pop(0)
                yield 0.0
            else:
                items.extend([1] * op["items"])
                yield ticks(op["hold"])
                if op["n"] == 0:
                    cond.notify_all()
                else:
                    cond.notify(op["n"])
            leave(wk.i)
            try:
                mtx.release()
            except RuntimeError as e:
                bad("release-raised", f"{e}")
            return op["k"]

        pw = [{"start": p["start"], "ops": [dict(p, k="produce")]} for p in prods]
        # a last notify_all after every item exists, so that nobody is legitimately left waiting
        pw.append({"start": 0 if safe else 24, "ops": [{"k": "produce", "items": 0, "n": 0, "hold": 0}]})
        cw = [{"start": c, "ops": [{"k": "consume"}]} for c in cons]
        wl = pw + cw if case.get("producers_first") else cw + pw
        run = WorkerRun([mtx, cond], wl, op_fn, max_per_instant=SPIN_CAP)
        run.run()

        class _J:
            pending = list(waiting) or [1] * mtx.waiters
        ok = finish_common(r, bad, run, _J)
        if ok:
            if not run.all_done:
                bad("waiter-never-served", f"run ended at {ms(run.t)}; unfinished {run.unfinished()}, items left {len(items)}, "
                    f"cond.waiters={cond.waiters} mutex.waiters={mtx.waiters}")
            elif mtx.is_locked or cond.waiters:
                bad("leak-at-end", f"mutex locked={mtx.is_locked} cond.waiters={cond.waiters} after everybody finished")
        r.nontrivial = S["woken"] > 0
        r.labels.append(f"waits={min(S['waits'], 3)}")
        return r
    return execute


# =========================================================================================== connection pool
def pool_strategy(warm):
    def s(tier):
        big = tier == "thorough"
        worker = st.fixed_dictionaries({"start": st.sampled_from([0, 0, 1, 2, 3, 5]),
                                        "ops": st.lists(st.sampled_from([0, 1, 2, 4, 8, 30]), min_size=1, max_size=3)})
        return st.fixed_dictionaries({
            "min": st.integers(0, 2), "max": st.integers(1, 3), "tmo": st.sampled_from([1, 2, 4, 50, 50]),
            "lat": st.lists(st.sampled_from([0, 1, 2, 3, 6]), min_size=1, max_size=4),
            "warm": st.just(True) if warm else st.booleans(), "idle": st.sampled_from([5, 40, 400]),
            "workers": st.lists(worker, min_size=2, max_size=7 if big else 5),
        })
    return s


def pool_execute(obl, warm):
    def execute(case):
        from happysimulator import Entity
        from happysimulator.components.client.connection_pool import ConnectionPool
        from happysimulator.core.temporal import Duration
        from happysimulator.distributions.latency_distribution import LatencyDistribution
        r = Result()
        bad = Once(r, obl)
        mx = 1 + (int(case.get("max", 1)) - 1) % 3
        mn = mx if warm else int(case.get("min", 0)) % (mx + 1)
        k = max(1, int(case.get("tmo", 50)) % 64)
        timeout = 10 * k / 512                       # poll interval = timeout/10 = k ticks exactly
        lats = [int(x) % 8 for x in (case.get("lat") or [1])] or [1]
        idle = ticks(max(1, int(case.get("idle", 40)) % 512))
        do_warm = bool(case.get("warm")) and mn > 0
        H = {"run": None, "lat_calls": 0, "lat_i": 0, "act": [], "holders": {}, "in_release": None, "handover": [],
             "setup_overlap": False, "peak_active": 0}

        class Lat(LatencyDistribution):
            def __init__(self):
                super().__init__(0.0)

            def get_latency(self, current_time=None):
                d = lats[H["lat_i"] % len(lats)]
                H["lat_i"] += 1
                in_setup = H["lat_calls"] - pool.stats.connections_created       # creations already in flight
                H["lat_calls"] += 1
                if pool.total_connections + in_setup + 1 > mx and pool.total_connections + 1 <= mx:
                    # the pool starts a set-up although the slots already promised reach the maximum
                    H["setup_overlap"] = True
                return Duration.from_seconds(ticks(d))

            def __deepcopy__(self, memo):
                return self

        class Tgt(Entity):
            def handle_event(self, event):
                return None

        def on_acquire(conn):
            run = H["run"]
            rec = {"t": run.t, "id": conn.id, "handover": H["in_release"] is not None, "seq": run._seq}
            run._seq += 1
            H["act"].append(rec)
            if rec["handover"]:
                H["handover"].append(rec)

        tgt = Tgt("tgt")
        pool = ConnectionPool("pool", tgt, min_connections=mn, max_connections=mx, connection_timeout=timeout,
                              idle_timeout=idle, connection_latency=Lat(), on_acquire=on_acquire)
        waiters = []             # requests that became pending, in arrival order

        def op_fn(run, wk, j, op):
            q = {"w": wk.i, "j": j, "t": run.t, "pending": False, "end": None, "conn": None, "seq": run._seq}
            p0 = pool.pending_requests

            def first():
                if pool.pending_requests > p0:
                    q["pending"] = True
                    q["wseq"] = len(waiters)
                    waiters.append(q)
            try:
                conn = yield from stepwise(pool.acquire(), first)
            except TimeoutError:
                q["end"] = run.t
                q["timeout"] = True
                run.ev("timeout", w=wk.i)
                return "timeout"
            q["end"], q["conn"] = run.t, conn.id
            run.ev("got", w=wk.i, id=conn.id)
            if conn.id in H["holders"]:
                bad("connection-handed-to-two-holders", f"at {ms(run.t)} connection {conn.id} given to w{wk.i} while "
                    f"w{H['holders'][conn.id]} holds it")
            H["holders"][conn.id] = wk.i
            if len(H["holders"]) > mx:
                over(run, f"{len(H['holders'])} workers hold connections")
            if q["pending"]:
                # which hand-over served this waiter: the last activation (on_acquire callback) of this connection
                ho = [a for a in H["act"] if a["id"] == conn.id]
                q["ho"] = ho[-1] if ho else None
            yield ticks(int(op) % 32)
            run.ev("rel", w=wk.i, id=conn.id)
            H["holders"].pop(conn.id, None)
            H["in_release"] = wk.i
            try:
                evs = pool.release(conn)
            except (ValueError, RuntimeError, KeyError) as e:
                bad("release-raised", f"{type(e).__name__}: {e}")
                evs = []
            finally:
                H["in_release"] = None
            if evs:
                yield 0.0, evs
            return "ok"

        def over(run, what):
            clause = "over-max/slot-not-reserved-during-setup" if H["setup_overlap"] else "over-max/other"
            bad(clause, f"at {ms(run.t)} {what}; max_connections={mx} active={pool.active_connections} "
                f"idle={pool.idle_connections} total={pool.total_connections}")

        def after(run):
            a, i, t = pool.active_connections, pool.idle_connections, pool.total_connections
            H["peak_active"] = max(H["peak_active"], a)
            if a > mx or t > mx or a + i > mx:
                over(run, "pool counters exceed the maximum")
            in_setup = H["lat_calls"] - pool.stats.connections_created
            if not (a + i <= t <= a + i + in_setup):
                bad("active-plus-idle-not-total", f"at {ms(run.t)} active={a} idle={i} total={t} in_setup={in_setup}")
            if a < len(H["holders"]):
                bad("holder-not-counted-active", f"at {ms(run.t)} {len(H['holders'])} holders, active={a}")

        def adv(run):
            if pool.pending_requests > 0 and pool.idle_connections > 0:
                # a connection that was never activated can only have been put into the idle list by warm-up
                fresh = pool.stats.connections_created - len({a["id"] for a in H["act"]}) - \
                    (H["lat_calls"] - pool.stats.connections_created) * 0
                clause = "warmup-connection-not-offered-to-waiters" if (do_warm and fresh > 0) else "other"
                bad(f"stranded-head-waiter/{clause}", f"clock leaves {ms(run.probe._at or 0)} with "
                    f"pending={pool.pending_requests} and idle={pool.idle_connections}")

        wl = [w for w in (case.get("workers") or []) if isinstance(w, dict)][:8]
        off = (mx * max(lats) + 1) if warm else 0
        wl = [{"start": int(w.get("start", 0)) % 8 + off, "ops": list(w.get("ops") or [])[:4]} for w in wl]
        extra = [pool.warmup()] if do_warm else []
        total_hold = sum(int(o) % 32 for w in wl for o in w["ops"])
        end = off + 8 + total_hold + (len(lats) + 8) * 8 + 12 * k * (sum(len(w["ops"]) for w in wl) + 1) + 600
        run = WorkerRun([tgt, pool], wl, op_fn, documented=(), after_event=after, on_advance=adv, end_ticks=end,
                        max_per_instant=SPIN_CAP, extra_events=extra, stop_when_done=True)
        H["run"] = run
        run.run()

        class _J:
            pending = [q for q in waiters if q["end"] is None]
        ok = finish_common(r, bad, run, _J)
        # FIFO among waiters, by hand-over order
        served = [q for q in waiters if q.get("ho")]
        for q in served:
            for p in waiters[:q["wseq"]]:
                if p.get("ho") and p["ho"]["seq"] < q["ho"]["seq"]:
                    continue
                if p.get("timeout") and p["end"] <= q["ho"]["t"]:
                    continue
                bad("blocked-order", f"waiter w{q['w']} (queued #{q['wseq']} at {ms(q['t'])}) was handed connection "
                    f"{q['conn']} at {ms(q['ho']['t'])} before earlier waiter w{p['w']} (queued #{p['wseq']} at {ms(p['t'])}, "
                    f"{'timed out ' + ms(p['end']) if p.get('timeout') else 'served ' + (ms(p['ho']['t']) if p.get('ho') else 'never')})")
                break
        if ok:
            if not run.all_done:
                bad("waiter-never-served", f"run ended at {ms(run.t)} with unfinished workers {run.unfinished()}; "
                    f"pending={pool.pending_requests} active={pool.active_connections} idle={pool.idle_connections}")
            elif pool.active_connections or pool.pending_requests:
                bad("leak-at-end", f"everybody finished but active={pool.active_connections} pending={pool.pending_requests}")
        r.nontrivial = any(q.get("ho") for q in waiters)
        if H["setup_overlap"]:
            r.labels.append("arrival-during-setup")
        if any(q.get("timeout") for q in waiters):
            r.labels.append("waiter-timed-out")
        r.labels.append(f"waiters={min(len(waiters), 3)}")
        r.target = float(len(served))
        return r
    return execute


# =========================================================================================== bulkhead
def bulkhead_strategy(tier):
    arr = st.fixed_dictionaries({"t": st.sampled_from([0, 0, 0, 1, 2, 3, 4, 6]), "s": st.sampled_from([0, 1, 1, 2, 3, 5])})
    return st.fixed_dictionaries({
        "mc": st.integers(1, 3), "mq": st.integers(0, 3), "mw": st.sampled_from([0, 0, 1, 2, 4]),
        "arrivals": st.lists(arr, min_size=2, max_size=14 if tier == "thorough" else 9),
    })


def bulkhead_execute(case):
    from happysimulator import Entity, Event, Instant, Simulation
    from happysimulator.components.resilience.bulkhead import Bulkhead
    from ..harness import SimProbe
    obl = "bulkhead"
    r = Result()
    bad = Once(r, obl)
    mc = 1 + (int(case.get("mc", 1)) - 1) % 3
    mq = int(case.get("mq", 0)) % 4
    mw = int(case.get("mw", 0)) % 8
    arrivals = [a for a in (case.get("arrivals") or []) if isinstance(a, dict)][:16]
    S = {"in": [], "started": [], "done": [], "queued_seen": False}

    class Tgt(Entity):
        def handle_event(self, event):
            rid = event.context["rid"]
            S["in"].append(rid)
            S["started"].append((self.now.nanoseconds, rid))
            if len(S["in"]) > mc:
                bad("over-limit", f"at {ms(self.now.nanoseconds)} requests {S['in']} in the target, max_concurrent={mc}")
            yield ticks(event.context["s"])
            S["in"].remove(rid)
            S["done"].append(rid)

    tgt = Tgt("tgt")
    bh = Bulkhead("bh", tgt, max_concurrent=mc, max_wait_queue=mq, max_wait_time=(ticks(mw) if mw else None))
    sim = Simulation(entities=[bh, tgt], end_time=Instant(3000 * TICK))
    order = sorted(range(len(arrivals)), key=lambda i: int(arrivals[i].get("t", 0)) % 8)     # stable: list order within an instant
    for rid, i in enumerate(order):
        a = arrivals[i]
        sim.schedule(Event(time=Instant((int(a.get("t", 0)) % 8) * TICK), event_type="req", target=bh,
                           context={"rid": rid, "s": int(a.get("s", 0)) % 8}))

    def after(ev):
        t = ev.time.nanoseconds
        if bh.active_count > mc:
            bad("over-limit", f"active_count={bh.active_count} > max_concurrent={mc} at {ms(t)}")
        if bh.queue_depth > mq:
            bad("queue-over-limit", f"queue_depth={bh.queue_depth} > max_wait_queue={mq} at {ms(t)}")
        if bh.queue_depth:
            S["queued_seen"] = True
        if bh.available_permits + bh.active_count != mc and bh.active_count <= mc:
            bad("held-plus-available-not-capacity/after-event", f"permits={bh.available_permits} active={bh.active_count} max={mc}")
        if bh.active_count < len(S["in"]):
            bad("holder-not-counted-active", f"{len(S['in'])} requests in the target, active_count={bh.active_count} at {ms(t)}")

    def adv(_t):
        at = probe._at or 0
        if bh.active_count != len(S["in"]):
            bad("held-plus-available-not-capacity/at-quiescence", f"end of instant {ms(at)}: active_count={bh.active_count}, "
                f"{len(S['in'])} requests in the target")
        elif bh.queue_depth > 0 and bh.active_count < mc:
            bad("stranded-head-waiter", f"clock leaves {ms(at)} with queue_depth={bh.queue_depth} active={bh.active_count}<{mc}")

    probe = SimProbe(sim, max_per_instant=SPIN_CAP, max_events=100000, log=False, on_event=after, on_advance=adv)
    status = probe.run()
    n = len(arrivals)
    if status == "spin":
        bad("spin-without-blocked-request", f"> {SPIN_CAP} deliveries at {ms(probe.spin_at)}")
    elif status == "budget":
        r._inconclusive = True
        r.labels.append("inconclusive-budget")
    else:
        started = [rid for _, rid in S["started"]]
        if len(set(started)) != len(started):
            bad("granted-more-than-once", f"requests reached the target more than once: {sorted(x for x in set(started) if started.count(x) > 1)}")
        st_ = bh.stats
        lost = n - len(set(started)) - st_.rejected_requests - st_.timed_out_requests - bh.queue_depth
        if S["in"] or bh.active_count or bh.queue_depth:
            bad("waiter-never-served", f"run ended with in-target={S['in']} active={bh.active_count} queue={bh.queue_depth}")
        elif lost != 0:
            bad("leak-at-end", f"{n} offered = {len(set(started))} served + {st_.rejected_requests} rejected + "
                f"{st_.timed_out_requests} timed out + {lost} unaccounted")
        # FIFO among queued requests: requests that start later than they arrived were queued; their start order
        # must follow arrival order (rid order = arrival order)
        arr_t = {rid: (int(arrivals[i].get("t", 0)) % 8) * TICK for rid, i in enumerate(order)}
        delayed = [rid for t, rid in S["started"] if t > arr_t[rid]]
        if delayed != sorted(delayed):
            bad("blocked-order", f"queued requests reached the target in order {delayed}")
    r.nontrivial = S["queued_seen"] and any(t > 0 for t, _ in S["started"])
    r.labels.append("queued" if S["queued_seen"] else "never-queued")
    return r


# =========================================================================================== thread pool (bounds only)
def threadpool_strategy(tier):
    arr = st.fixed_dictionaries({"t": st.sampled_from([0, 0, 0, 1, 2, 3, 4]), "s": st.sampled_from([0, 1, 1, 2, 3])})
    return st.fixed_dictionaries({"workers": st.integers(1, 3), "qcap": st.sampled_from([0, 1, 2, 50]),
                                  "arrivals": st.lists(arr, min_size=2, max_size=12 if tier == "thorough" else 8)})


def threadpool_execute(case):
    from happysimulator import Event, Instant, Simulation
    from happysimulator.components.server.thread_pool import ThreadPool
    from ..harness import SimProbe
    r = Result()
    bad = Once(r, "threadpool")
    nw = 1 + (int(case.get("workers", 1)) - 1) % 3
    qc = int(case.get("qcap", 50)) % 64
    arrivals = [a for a in (case.get("arrivals") or []) if isinstance(a, dict)][:16]
    S = {"in": 0, "peak": 0, "waited": False}

    def extract(ev):
        # called by the pool right after it took a worker for this task
        ev.context["_started"] = True
        S["in"] += 1
        S["peak"] = max(S["peak"], S["in"])
        if S["in"] > nw:
            bad("over-limit", f"{S['in']} tasks in service, num_workers={nw} at {ms(tp.now.nanoseconds)}")
        return ticks(ev.context["s"])

    class TP(ThreadPool):          # QueuedResource is a public extension point: observe the end of service
        def handle_queued_event(self, event):
            res = yield from super().handle_queued_event(event)
            if event.context.pop("_started", False):
                S["in"] -= 1
            return res

    tp = TP("tp", nw, queue_capacity=(qc or None), processing_time_extractor=extract)
    sim = Simulation(entities=[tp], end_time=Instant(3000 * TICK))
    for a in arrivals:
        sim.schedule(Event(time=Instant((int(a.get("t", 0)) % 8) * TICK), event_type="task", target=tp,
                           context={"s": int(a.get("s", 0)) % 8}))

    def after(ev):
        if tp.active_workers > nw or tp.active_workers < 0:
            bad("over-limit", f"active_workers={tp.active_workers} num_workers={nw}")
        if tp.active_workers + tp.idle_workers != nw:
            bad("held-plus-available-not-capacity/after-event", f"active={tp.active_workers} idle={tp.idle_workers} workers={nw}")
        if tp.active_workers != S["in"]:
            bad("held-plus-available-not-capacity/after-event", f"active_workers={tp.active_workers} but {S['in']} tasks in service")
        if tp.queued_tasks:
            S["waited"] = True

    probe = SimProbe(sim, max_per_instant=SPIN_CAP, max_events=100000, log=False, on_event=after)
    status = probe.run()
    if status == "spin":
        bad("spin-without-blocked-request", f"> {SPIN_CAP} deliveries at {ms(probe.spin_at)}")
    elif status == "budget":
        r._inconclusive = True
    elif tp.active_workers != 0 or S["in"] != 0:
        bad("leak-at-end", f"active_workers={tp.active_workers}, {S['in']} tasks in service after the run")
    r.nontrivial = S["waited"]
    r.labels.append(f"peak={S['peak']}/{nw}")
    return r


# =========================================================================================== concurrency limiters
def limiter_strategy(tier):
    op = st.tuples(st.sampled_from(["acq", "acq", "acq", "rel", "rel", "set", "has"]), st.integers(0, 7))
    return st.fixed_dictionaries({"model": st.sampled_from(["fixed", "dynamic", "weighted"]), "limit": st.integers(1, 6),
                                  "lo": st.integers(1, 3), "hi": st.integers(0, 8),
                                  "ops": st.lists(op, min_size=1, max_size=60 if tier == "thorough" else 30)})


def limiter_execute(case):
    from happysimulator.components.server.concurrency import DynamicConcurrency, FixedConcurrency, WeightedConcurrency
    r = Result()
    model = case.get("model") if case.get("model") in ("fixed", "dynamic", "weighted") else "fixed"
    bad = Once(r, "limiter")
    limit = 1 + (int(case.get("limit", 1)) - 1) % 6
    lo = 1 + (int(case.get("lo", 1)) - 1) % 3
    hi = int(case.get("hi", 0)) % 9
    if model == "fixed":
        c = FixedConcurrency(limit)
    elif model == "weighted":
        c = WeightedConcurrency(limit)
    else:
        lo = min(lo, limit)
        hi = None if hi == 0 else max(hi, limit)
        c = DynamicConcurrency(limit, min_limit=lo, max_limit=hi)
    held = []
    full = False
    for o in (case.get("ops") or [])[:80]:
        try:
            kind, x = o[0], int(o[1])
        except (TypeError, ValueError, IndexError):
            continue
        w = 1 + x % limit if model == "weighted" else 1
        wa = w if model == "weighted" else 1 + x % 3      # Fixed/Dynamic document the weight argument as ignored (always one slot)
        used = sum(held)
        fits = used + w <= limit
        if kind == "acq":
            ok = c.acquire(wa)
            if ok and not fits:
                bad(f"over-limit/{model}", f"acquire({w}) admitted with {used} in use, limit {limit}")
            if not ok and fits:
                bad(f"refused-with-free-capacity/{model}", f"acquire({w}) refused with {used} in use, limit {limit}")
            if ok:
                held.append(w)
            else:
                full = True
        elif kind == "rel" and held:
            w = held.pop(x % len(held))
            c.release(w if model == "weighted" else 1 + x % 3)
        elif kind == "set" and model == "dynamic":
            c.set_limit(x)
            limit = max(lo, x)
            if hi is not None:
                limit = min(hi, limit)
            if c.limit != limit:
                bad("limit-not-clamped/dynamic", f"set_limit({x}) -> {c.limit}, bounds [{lo},{hi}]")
                limit = c.limit
        elif kind == "has":
            hc = c.has_capacity(wa)
            if hc != fits:
                bad(f"has-capacity-wrong/{model}", f"has_capacity({w})={hc} with {used} in use, limit {limit}")
        used = sum(held)
        if c.active != used:
            bad(f"held-plus-available-not-capacity/{model}", f"active={c.active} but {used} held")
        if c.available != max(0, limit - used):
            bad(f"held-plus-available-not-capacity/{model}", f"available={c.available} limit={limit} held={used}")
    r.nontrivial = full
    r.labels.append(model)
    return r


# =========================================================================================== obligations
RULE_CAP = ("2-6 workers (thorough: 8), each 1-3 x [acquire(amount|mode|priority) -> hold 0-3 ticks -> release], start offsets on a "
            "4-tick grid so arrivals coincide; capacity 1-5; 5% try_acquire, 5% double Grant.release; non-trivial = at least one "
            "request blocked and was later observed granted")
RULE_SAFE = ("restricted domain of the same generator: every hold is zero-length (one zero-delay yield), so a blocked request is "
             "always released at the instant it blocked - the domain in which the known blocked-wait spin cannot occur; no exclusions")


def _lock_obls():
    out = []
    budgets = {"resource": (900, 40000), "preemptible": (700, 30000), "semaphore": (250, 16000), "mutex": (200, 14000),
               "rwlock": (250, 16000)}
    for prim, (q, t) in budgets.items():
        out.append(Obligation(prim, cap_strategy(False), lock_execute(prim, prim), {"quick": q, "thorough": t},
                              f"{prim}: {RULE_CAP}"))
    for prim in ("semaphore", "mutex", "rwlock"):
        out.append(Obligation(f"{prim}-safe", cap_strategy(True), lock_execute(prim, f"{prim}-safe"),
                              {"quick": 700, "thorough": 30000}, f"{prim}: {RULE_SAFE}"))
    return out


OBLIGATIONS = _lock_obls() + [
    Obligation("barrier", barrier_strategy(False), barrier_execute("barrier"), {"quick": 160, "thorough": 10000},
               "parties 1-4 x 1-2 groups of workers, each waiting 1-3 generations with 0-2 ticks of work in between, start offsets "
               "0-3 ticks; a wait() must return exactly at the instant the last party of its generation arrives; non-trivial = "
               "parties>1 and every generation completed"),
    Obligation("barrier-safe", barrier_strategy(True), barrier_execute("barrier-safe"), {"quick": 60, "thorough": 600},
               "barrier with every worker starting at one instant and zero work between generations (the known spin cannot occur)"),
    Obligation("condition", condition_strategy(False), condition_execute("condition", False), {"quick": 160, "thorough": 10000},
               "1-4 consumers (acquire mutex; while no item: cond.wait(); take item; release) and 1-3 producers (acquire; add 1-3 "
               "items; hold; notify(n)|notify_all; release) plus a final notify_all; non-trivial = a consumer returned from wait()"),
    Obligation("condition-safe", condition_strategy(True), condition_execute("condition-safe", True), {"quick": 800, "thorough": 20000},
               "condition workload with every start offset and hold equal to zero (the known spin cannot occur)"),
    Obligation("pool", pool_strategy(False), pool_execute("pool", False), {"quick": 700, "thorough": 30000},
               "ConnectionPool min 0-2 / max 1-3, set-up latencies 0-6 ticks, time-outs 10/20/40/500 ticks, optional warm-up, 2-5 "
               "workers (thorough 7) each 1-3 x [acquire -> hold 0-30 ticks -> release] starting 0-5 ticks; non-trivial = a waiter "
               "was handed a released connection"),
    Obligation("pool-safe", pool_strategy(True), pool_execute("pool-safe", True), {"quick": 500, "thorough": 20000},
               "restricted domain: pool warmed up to min=max before the first acquire, so no connection is ever set up while "
               "acquirers arrive (the known slot-reservation defect cannot occur); no exclusions"),
    Obligation("bulkhead", bulkhead_strategy, bulkhead_execute, {"quick": 700, "thorough": 30000},
               "Bulkhead max_concurrent 1-3, wait queue 0-3, optional max_wait_time, 2-9 requests (thorough 14) arriving 0-6 ticks with "
               "service 0-5 ticks at a scripted generator target; non-trivial = a request waited in the queue and was served later"),
    Obligation("threadpool", threadpool_strategy, threadpool_execute, {"quick": 400, "thorough": 16000},
               "ThreadPool 1-3 workers, 2-8 tasks; only the capacity clauses (active <= workers, active+idle == workers, tasks in "
               "service <= workers); ordering/stranding of its queue belongs to C08; non-trivial = a task waited in the queue"),
    Obligation("limiter", limiter_strategy, limiter_execute, {"quick": 1200, "thorough": 50000},
               "op sequences acquire/release(held)/set_limit/has_capacity on Fixed/Dynamic/WeightedConcurrency against a counter "
               "model; non-trivial = at least one acquire was refused"),
]
