"""C07 — no library component emits an event into the past or spins at a frozen clock.

Every case builds one scenario of the shared catalogue (``vfw/scenarios.py``: real components, non-zero
latencies, contention) and runs it under ``SimProbe`` with the heap-push monitor, the "Time travel
detected" log capture and the per-instant spin guard.  Oracle over the whole run:

(i)   every heap push made while the simulation is running carries ``event.time >= clock.now``;
(ii)  the engine never logs "Time travel detected" (it never has to discard an event);
(iii) the spin guard never trips (no unbounded number of deliveries at one simulated instant);
(iv)  the run ends by itself or at ``end_time`` (finite clock, no exception from library code).
"""
from __future__ import annotations

import re
from collections import Counter

from hypothesis import strategies as st

from .. import scenarios
from ..harness import SimProbe
from ..runner import Obligation, Result

P = "C07"
ASSUMPTIONS = [
    "scenarios are the finite catalogue of vfw/scenarios.py: each component is driven only through its documented "
    "event protocol / generator API with positive capacities and non-zero latencies; breadth is bounded by the "
    "catalogue (the measured class coverage is reported in the labels and in the rule)",
    "spin guard threshold = max(20000, 200 x workload size) deliveries at one instant, orders of magnitude above "
    "anything a catalogue scenario legitimately does at one instant (largest legal burst observed < 600)",
    "a total event budget hit (400k deliveries) is labelled inconclusive, never a violation",
    "the harness glue entities (Proc/Relay/Replier/Collector and local workload drivers) stamp every event with "
    "the current clock; a past emission whose emitter is a glue entity would be a harness bug and is reported as "
    "a harness error, not as a violation",
    "one delivery beyond end_time is the engine's documented stop rule and is not judged here",
]


def _cls(target):
    c = type(target).__name__
    if c == "_QueuedResourceWorkerAdapter":
        res = getattr(target, "_resource", None)
        if res is not None:
            target, c = res, type(res).__name__
    if not scenarios._is_lib(type(target)):
        return scenarios.lib_class_name(target) or c
    if c == "CallbackEntity":
        return "callback"
    return c


def _inner_lib_class(event):
    """For a generator process: class of ``self`` in the innermost *library* generator frame the process is
    currently suspended in (follows the ``yield from`` chain), e.g. Mutex for a harness worker blocked in
    ``yield from mutex.acquire()``.  None if the process is not suspended inside library code."""
    gen = getattr(event, "process", None)
    found = None
    hops = 0
    while gen is not None and hops < 32:
        hops += 1
        frame = getattr(gen, "gi_frame", None)
        if frame is not None:
            fn = frame.f_code.co_filename or ""
            if "/happysimulator/" in fn:
                slf = frame.f_locals.get("self")
                if slf is not None and scenarios._is_lib(type(slf)):
                    found = type(slf).__name__
                elif slf is not None and scenarios.lib_class_name(slf):
                    found = scenarios.lib_class_name(slf)
        gen = getattr(gen, "gi_yieldfrom", None)
    return found


def _etype_family(et):
    et = str(et)
    et = et.split("::", 1)[0]
    m = re.match(r"[A-Za-z_][A-Za-z_.\-]*", et)
    return (m.group(0) if m else "event")[:40].rstrip(":-._")


_ALL = None


def all_entity_classes():
    """Public Entity subclasses defined under happysimulator.components (walks the packages)."""
    global _ALL
    if _ALL is None:
        import importlib
        import inspect
        import pkgutil

        import happysimulator.components as pk
        from happysimulator.core.entity import Entity
        names = set()
        for m in pkgutil.walk_packages(pk.__path__, "happysimulator.components."):
            try:
                mod = importlib.import_module(m.name)
            except Exception:  # noqa: BLE001
                continue
            for n, o in vars(mod).items():
                if inspect.isclass(o) and issubclass(o, Entity) and o.__module__ == m.name and not n.startswith("_"):
                    names.add(n)
        _ALL = names
    return _ALL


_CATALOGUE = None


def catalogue_classes():
    """Entity classes instantiated by the catalogue (measured by building every family on a few knob vectors)."""
    global _CATALOGUE
    if _CATALOGUE is None:
        got = set()
        for fam in sorted(scenarios.SCENARIOS):
            for j in range(4):
                try:
                    sc = scenarios.build({"family": fam, "seed": j, "k": [j] * 8})
                    got |= sc.classes
                except Exception:  # noqa: BLE001
                    pass
        _CATALOGUE = got & all_entity_classes()
    return _CATALOGUE


def strategy(tier, families=None):
    """Seed and knobs come from Hypothesis; the family is assigned round-robin over the catalogue (Hypothesis'
    own choice among ~64 alternatives is far from uniform: 9 families were never drawn in 700 examples), so every
    family receives the same share of every shard's budget.  The family is part of the recorded case, so a
    replay does not depend on the counter."""
    import itertools
    fams = sorted(families or scenarios.SCENARIOS)
    ctr = itertools.count()

    def assign(d):
        d = dict(d)
        d["family"] = fams[next(ctr) % len(fams)]
        return d
    return st.fixed_dictionaries({
        "seed": st.integers(0, 2**31 - 1),
        "k": st.lists(st.integers(0, 63), min_size=8, max_size=8),
    }).map(assign)


def make_execute(obl, families=None):
    def execute(case):
        r = Result()
        if families is not None and case.get("family") not in families:
            case = dict(case)
            fl = sorted(families)
            case["family"] = fl[len(str(case.get("family"))) % len(fl)]
        sc = scenarios.build(case)
        sim = sc.sim
        heap = sim._event_heap
        clock = sim._clock
        inner = heap.push
        emitters = []

        def push(events, _inner=inner):
            if sim._is_running:
                now = clock.now.nanoseconds
                for e in (events if isinstance(events, list) else [events]):
                    if e.time.nanoseconds < now:
                        last = sim._last_event
                        em = getattr(last, "target", None)
                        name = _cls(em) if em is not None else "unknown"
                        org = scenarios.ORIGIN.get(id(e))
                        if org is not None and org[1] is e:
                            emitters.append((org[0], None))
                            continue
                        if isinstance(em, scenarios._Glue) and not scenarios.lib_class_name(em):
                            # a harness worker running a library generator (yield from store.put(...)):
                            # attribute to the library frame the process is suspended in, if any
                            inner = _inner_lib_class(last)
                            if inner:
                                name, em = inner, None
                        emitters.append((name, em))
            return _inner(events)
        heap.push = push

        at = {"t": None, "by": Counter(), "first": None, "later": False, "cont_later": False, "handled": set(),
              "inner": Counter(), "obj": {}}

        def on_event(event):
            t = event.time.nanoseconds
            c = _cls(event.target)
            at["handled"].add(c)
            if t != at["t"]:
                at["t"] = t
                at["by"] = Counter()
            at["by"][c] += 1
            at["obj"][c] = event.target
            if at["by"][c] > 2000 and at["by"][c] % 16 == 0 and not scenarios._is_lib(type(event.target)):
                inner = _inner_lib_class(event)      # who is the harness worker blocked in?
                if inner:
                    at["inner"][inner] += 1
            if at["first"] is None:
                at["first"] = t
            elif t > at["first"]:
                at["later"] = True
                if type(event).__name__ == "ProcessContinuation":
                    at["cont_later"] = True

        w = max(1, sc.workload_size)
        probe = SimProbe(sim, monitor_pushes=True, max_per_instant=max(20000, 200 * w), max_events=400000,
                         log=False, on_event=on_event)
        outcome = probe.run()

        fam = sc.family
        # (i) past emissions
        seen = set()
        for (now, et, typ, tgt), (em, em_obj) in zip(probe.past_pushes, emitters):
            if isinstance(em_obj, scenarios._Glue):
                raise RuntimeError(f"harness glue entity {em_obj.name} emitted {typ} for t={et} at now={now}")
            if em in seen:
                continue
            seen.add(em)
            r.add(f"{P}/{obl}/past-emission/{em}",
                  f"family {fam}: while handling an event for {em}, '{typ}' for {tgt} was pushed with time {et} ns "
                  f"at clock {now} ns ({(now - et)} ns in the past); {len(probe.past_pushes)} past pushes in the run")
        # (ii) engine discards
        fams = set()
        for msg in probe.time_travel:
            m = re.search(r"event_type=(\S+)", msg)
            ef = _etype_family(m.group(1) if m else "event")
            if ef not in fams:
                fams.add(ef)
                r.add(f"{P}/{obl}/time-travel-discard/{ef}", f"family {fam}: {msg[:200]} ({len(probe.time_travel)} discards)")
        # (iii) spin
        if outcome == "spin":
            dom = at["by"].most_common(1)[0][0] if at["by"] else "unknown"
            if dom not in all_entity_classes() and at["inner"]:
                dom = at["inner"].most_common(1)[0][0]
            else:
                # a component that delegates the decision to a configured policy object: name the policy class too
                pol = getattr(at["obj"].get(dom), "policy", None)
                if pol is not None and scenarios._is_lib(type(pol)):
                    dom = f"{dom}+{type(pol).__name__}"
            r.add(f"{P}/{obl}/spin/{dom}",
                  f"family {fam}: more than {max(20000, 200 * w)} deliveries at t={probe.spin_at} ns "
                  f"(workload {w}); per class at that instant: {dict(at['by'].most_common(4))}; "
                  f"harness workers were suspended inside: {dict(at['inner'].most_common(3))}")
        # (iv) termination
        if outcome == "done":
            end = sim._end_time.nanoseconds if hasattr(sim._end_time, "nanoseconds") else None
            now = clock.now.nanoseconds
            if not isinstance(now, int):
                r.add(f"{P}/{obl}/clock-not-finite", f"family {fam}: clock {clock.now!r}")
        if outcome == "budget":
            r._inconclusive = True
            r.labels.append("inconclusive-budget")
        handled_lib = at["handled"] & all_entity_classes()
        exercised = (sc.classes & all_entity_classes())
        r.nontrivial = bool(outcome != "budget" and probe.n >= 50 and at["later"])
        r.labels += [f"fam:{fam}", f"outcome:{outcome}", "nt" if r.nontrivial else "trivial",
                     "gen-yield" if at["cont_later"] else "no-gen-yield"]
        r.labels += [f"class:{c}" for c in sorted(exercised)]
        cat = catalogue_classes()
        r.labels.append(f"breadth:{len(cat)}/{len(all_entity_classes())}")
        r.observed = {"deliveries": probe.n, "outcome": outcome, "handled": sorted(handled_lib), "classes": sorted(exercised)}
        return r
    return execute


def _rule():
    try:
        n, N = len(catalogue_classes()), len(all_entity_classes())
        fams = len(scenarios.SCENARIOS)
    except Exception:  # noqa: BLE001
        n = N = fams = 0
    return (f"uniform draw of one of {fams} scenario families x a seed x 8 knobs in 0..63 (sizes, tick-grid latencies, "
            f"policies, rates; taken modulo their range); the catalogue instantiates {n} of the {N} public Entity "
            f"subclasses defined under happysimulator.components (label breadth:{n}/{N}; per-case class:<Name> labels); "
            "non-trivial = >= 50 deliveries, the clock advanced, and at least one generator continuation was delivered "
            "after a non-zero delay (a component crossed a yield before emitting)")


OBLIGATIONS = [
    Obligation("run", strategy, make_execute("run"), {"quick": 1400, "thorough": 56000}, _rule()),
]
