"""C01 — every live event is delivered exactly once, in time order with FIFO ties; stop rule.

Oracle: differential against the independent reference interpreter (vfw/ref/engine.py) on the
delivery sequence, plus validity invariants evaluated on the real run alone."""
from __future__ import annotations

from collections import Counter

from hypothesis import strategies as st

from ..dsl.program import RealRun, program_strategy
from ..ref.engine import TICK, run_ref
from ..runner import Obligation, Result

P = "C01"
ASSUMPTIONS = [
    "events are created after Simulation(...) is constructed (documented usage); at most one process is parked on a SimFuture at a time (an already resolved future may be yielded again)",
    "an event later than end_time is not live: deliveries with time > end_time are ignored by the oracle (both loops deliver one such event)",
    "with no end_time the accepted stop points are: no live non-daemon event pending (strict) ... no non-daemon heap entry pending, cancelled or not (lazy deletion)",
    "when one resolve() wakes several processes, or any_of sees several pre-resolved inputs, their relative order is unspecified: only the validity invariants are judged for such programs",
]

MODES = ["fast", "slow", "auto", "auto-control"]


def case_strategy(procs):
    def s(tier):
        return st.fixed_dictionaries({
            "prog": program_strategy(tier=tier, procs=procs),
            "end": st.sampled_from([None, None, 0, 1, 2, 3, 4, 6, 60]),
            "endj": st.sampled_from([0, 0, 0, 1, -1]),
            "control": st.booleans(),
        })
    return s


def restamp_strategy(tier):
    """Handlers that keep the Event object they received and return it again later, re-stamped to the current instant (what
    Queue/QueueDriver do with payloads): 1-3 entities, immediate handlers only, no hooks / handles (a re-emitted object's hook
    and cancellation state is not something the statement speaks about)."""
    return st.fixed_dictionaries({
        "prog": program_strategy(tier=tier, procs=False, futures=False, cancels=False, hooks=False, max_entities=3, past=False,
                                 stash=True),
        "end": st.sampled_from([None, None, 2, 4, 6, 60]),
        "endj": st.sampled_from([0, 0, 1, -1]),
        "control": st.booleans(),
    })


def dproj(log, end_ns=None):
    return [e for e in log if e[0] == "D" and (end_ns is None or e[1] <= end_ns)]


def first_diff(a, b):
    for i, (x, y) in enumerate(zip(a, b)):
        if x != y:
            return i
    return min(len(a), len(b)) if len(a) != len(b) else None


def is_prefix(a, b):
    return len(a) <= len(b) and b[:len(a)] == a


def run_real(prog, end_ns, control):
    rr = RealRun(prog, end_ns)
    if control:
        rr.sim.control  # noqa: B018 - attaching the control surface selects the instrumented loop
    rr.run()
    return rr


def invariants(r, rr, P, obl, n_initial):
    log = rr.log
    ts = [e[1] for e in log]
    for i in range(1, len(ts)):
        if ts[i] < ts[i - 1]:
            r.add(f"{P}/{obl}/clock-moved-backwards", f"{log[i-1]} then {log[i]}")
            break
    seen = Counter(e[4] for e in log if e[0] == "D")
    dup = [u for u, c in seen.items() if c > 1]
    if dup:
        r.add(f"{P}/{obl}/delivered-twice", f"uid {dup[0]} delivered {seen[dup[0]]}x")
    for a in rr.anomalies:
        r.add(f"{P}/{obl}/{a[0]}", str(a))
    for e in log:
        if e[0] == "D":
            born_now, t = rr.born.get(e[4], (0, e[1]))
            if t < born_now:
                r.add(f"{P}/{obl}/past-event-delivered", f"uid {e[4]} stamped {t} created at clock {born_now}")
    n_dr = sum(1 for e in log if e[0] in "DR")
    if rr.summary.total_events_processed != n_dr:
        r.add(f"{P}/{obl}/summary-events-processed", f"{rr.summary.total_events_processed} != {n_dr} observed")
    if rr.summary.events_cancelled > len(rr.cancelled_uids):
        r.add(f"{P}/{obl}/summary-events-cancelled", f"{rr.summary.events_cancelled} > {len(rr.cancelled_uids)}")


def classify_diff(real, ref, n_initial):
    i = first_diff(real, ref)
    if i is None:
        return None
    if i >= len(real):
        return "missing-delivery", f"real log ends after {len(real)} deliveries, reference continues with {ref[i]}"
    if i >= len(ref):
        return "extra-delivery", f"reference ends after {len(ref)} deliveries, real continues with {real[i]}"
    x, y = real[i], ref[i]
    if x[1] == y[1]:
        kinds = {"prerun" if e[4] <= n_initial else "runtime" for e in (x, y)}
        sub = "prerun-vs-runtime" if len(kinds) == 2 else ("prerun" if "prerun" in kinds else "runtime")
        return f"tie-order/{sub}", f"at #{i} t={x[1]}: real delivers {x}, reference {y}"
    return "time-order", f"at #{i}: real {x}, reference {y}"


def execute_factory(obl):
    def execute(case):
        prog = case["prog"]
        r = Result()
        end = case["end"]
        end_ns = None if end is None else max(0, end * TICK + case["endj"])
        n_initial = len(prog["initial"])
        ref_lazy = run_ref(prog, end_ns, "lazy")
        ref_strict = run_ref(prog, end_ns, "strict") if end_ns is None else ref_lazy
        rr = run_real(prog, end_ns, case["control"])
        invariants(r, rr, P, obl, n_initial)
        real_d = dproj(rr.log, end_ns)
        lazy_d = dproj(ref_lazy.log)
        strict_d = dproj(ref_strict.log)
        ambiguous = ref_lazy.ambiguous or ref_strict.ambiguous
        if not ambiguous:
            if end_ns is not None:
                c = classify_diff(real_d, lazy_d, n_initial)
                if c:
                    r.add(f"{P}/{obl}/{c[0]}", c[1])
            else:
                if not is_prefix(real_d, lazy_d):
                    c = classify_diff(real_d, lazy_d, n_initial)
                    if c[0] == "extra-delivery":
                        c = ("stop-rule/kept-alive-by-daemons", c[1])
                    r.add(f"{P}/{obl}/{c[0]}", c[1])
                elif not is_prefix(strict_d, real_d):
                    r.add(f"{P}/{obl}/stop-rule/stopped-early",
                          f"real delivered {len(real_d)} events, strict rule needs {len(strict_d)}: next {strict_d[len(real_d)]}")
        # ---- classification --------------------------------------------------------------------
        by_t = {}
        for e in lazy_d:
            by_t.setdefault(e[1], []).append(e[4])
        mixed = sum(1 for us in by_t.values() if any(u <= n_initial for u in us) and any(u > n_initial for u in us))
        ties = sum(1 for us in by_t.values() if len(us) >= 2)
        tail = end_ns is None and (len(strict_d) != len(lazy_d) or bool(ref_lazy.heap))
        r.nontrivial = (mixed > 0 or "cancel-pending" in ref_lazy.features or tail) and not ambiguous
        r.labels += [l for l, c in (("tie-mixed-depth", mixed), ("tie", ties), ("daemon-tail", tail),
                                    ("cancel-pending", "cancel-pending" in ref_lazy.features),
                                    ("past-discard", ref_lazy.past_discards), ("ambiguous", ambiguous),
                                    ("end-set", end_ns is not None), ("control", case["control"]),
                                    ("restamped-event", "restamped-event" in ref_lazy.features),
                                    ("end-as-duration", bool(prog.get("dur")) and end_ns is not None and bool(prog.get("start")))) if c]
        r.target = float(min(mixed + ties, 8))
        return r
    return execute


IMM_RULE = ("generated programs of 1-5 entities with immediate handlers returning none/one/many events (dt in "
            "{-2..3 ticks, +-1 ns}), daemon/cancelled events, handlers cancelling pending events, completion hooks, "
            "creation order independent of schedule order, end_time in {none, inside, beyond} x control attached or not; "
            "non-trivial = some timestamp carries deliveries of both a pre-run and a run-created event, or a cancel hits a "
            "pending event, or a daemon-only tail exists; distinct by canonical JSON of the case")

def small_scope(tier):
    """Exhaustive sub-space: 2 entities, 1..k initial events (k = 2 quick / 3 thorough) on timestamps {0, 1 tick}, every target /
    kind / daemon-bit combination, the two event kinds bound to every pair of behaviours out of {no-op, emit one event at the same
    instant to the other entity, emit one event one tick later, cancel the first initial event}, end_time in {none, 0, 1 tick},
    alternating loop (control attached or not)."""
    import itertools
    behs = [
        {"imm": [], "shape": "none", "resolve": [], "cancel": []},
        {"imm": [{"dt": 0, "tgt": 1, "kind": 1, "daemon": False}], "shape": "list", "resolve": [], "cancel": []},
        {"imm": [{"dt": 1, "tgt": 0, "kind": 0, "daemon": False}], "shape": "one", "resolve": [], "cancel": []},
        {"imm": [{"dt": 0, "tgt": 0, "kind": 1, "daemon": True}], "shape": "list", "resolve": [], "cancel": [0]},
    ]
    kmax = 3 if tier == "thorough" else 2
    ev_opts = list(itertools.product((0, 1), (0, 1), (0, 1), (False, True)))      # t, tgt, kind, daemon
    i = 0
    for k in range(1, kmax + 1):
        for evs in itertools.product(ev_opts, repeat=k):
            for a, b in itertools.product(range(4), repeat=2):
                for end in (None, 0, 1):
                    i += 1
                    initial = [{"t": t, "j": 0, "tgt": tgt, "kind": kind, "daemon": dm, "cancel": False, "c": 0,
                                "h": 0 if n == 0 else None, "hooks": []} for n, (t, tgt, kind, dm) in enumerate(evs)]
                    yield {"prog": {"n": 2, "nfut": 0, "fuel": 2, "handlers": [[a, b, a], [b, a, b]], "behs": behs,
                                    "initial": initial, "batch": bool(i & 1)},
                           "end": end, "endj": 0, "control": bool(i & 2)}


OBLIGATIONS = [
    Obligation("imm", case_strategy(False), execute_factory("imm"), {"quick": 3000, "thorough": 150000}, IMM_RULE),
    Obligation("small-scope", case_strategy(False), execute_factory("small-scope"), {"quick": 0, "thorough": 0},
               "EXHAUSTIVE sub-space (no sampling): " + " ".join((small_scope.__doc__ or "").split()) + " Same oracle and non-triviality rule.",
               enumerate=small_scope),
    Obligation("restamp", restamp_strategy, execute_factory("restamp"), {"quick": 2000, "thorough": 80000},
               "as imm, with handlers that hold received Event objects and re-emit them re-stamped; non-trivial as for imm"),
    Obligation("proc", case_strategy(True), execute_factory("proc"), {"quick": 3000, "thorough": 150000},
               "same, with generator handlers (delays, side-effect events, futures, any_of/all_of, yield from) mixed in; "
               "same non-triviality rule"),
]
