"""C20 — sketches keep one-sided guarantees and merge like the union of their inputs.

Oracle: exact Counter / set / sorted list computed from the same generated stream.
Every obligation drives the public API of happysimulator.sketching (and the collector
entities in components/sketching through real events in a real Simulation)."""
from __future__ import annotations

from collections import Counter

from hypothesis import strategies as st

from ..runner import Obligation, Result

P = "C20"
ASSUMPTIONS = [
    "items are hashable str/int/tuple values; weights are non-negative ints (count=0 is a documented no-op)",
    "t-digest inputs are finite floats; quantile monotonicity is judged with 1e-9 relative tolerance",
    "merge is judged only between sketches of identical dimensions and seed (documented precondition)",
]


def item(x):
    return tuple(item(y) for y in x) if isinstance(x, list) else x


# ------------------------------------------------------------------------------ strategies
def items_strategy(tier, mixed=False):
    big = tier == "thorough"
    universe = st.sampled_from([2, 3, 5, 20, 200] if big else [2, 3, 5, 20])
    def mk(u):
        base = st.one_of(
            st.integers(0, u - 1).map(lambda i: f"k{i}"),
            st.integers(0, u - 1),
            st.lists(st.integers(0, 2), min_size=1, max_size=2),
            st.text(max_size=3),
            # values that compare equal in Python but are different items for a sketch (1 / True / 1.0, 0 / False / -0.0): only for
            # oracles that do not key a dict by the item (HyperLogLog merge equality)
            *([st.booleans(), st.sampled_from([0.0, 1.0, 2.0, -0.0])] if mixed else []),
        )
        return st.lists(st.tuples(base, st.sampled_from([1, 1, 1, 2, 5, 0])), max_size=120 if big else 60)
    return universe.flatmap(mk)


def stream_case(extra, mixed=False):
    def s(tier):
        return st.fixed_dictionaries({
            "stream": items_strategy(tier, mixed),
            "cut": st.integers(0, 200),
            "seed": st.sampled_from([None, 0, 1, 7, 12345]),
            **extra,
        })
    return s


def split(case):
    s = [(item(x), w) for x, w in case["stream"]]
    cut = case["cut"] % (len(s) + 1)
    return s, s[:cut], s[cut:]


PROBES = [f"k{i}" for i in range(25)] + list(range(6)) + ["", "zz", (0,), (1, 2)]


# ------------------------------------------------------------------------------ Bloom
def ex_bloom(case):
    from happysimulator.sketching.bloom_filter import BloomFilter
    r = Result()
    s, a_s, b_s = split(case)
    mk = lambda: BloomFilter(size_bits=case["bits"], num_hashes=case["nh"], seed=case["seed"])
    a, b, c = mk(), mk(), mk()
    for x, w in a_s: a.add(x, w)
    for x, w in b_s: b.add(x, w)
    for x, w in s: c.add(x, w)
    members = {x for x, w in s if w > 0}
    for x in members:
        if not c.contains(x) or x not in c:
            r.add(f"{P}/bloom/false-negative", f"{x!r} inserted but contains() is False")
            break
    a.merge(b)
    probes = list(members) + PROBES
    diff = [x for x in probes if a.contains(x) != c.contains(x)]
    if diff:
        r.add(f"{P}/bloom/merge-differs-from-concatenation", f"contains differs on {diff[:3]!r}")
    if getattr(a, "_bits", None) != getattr(c, "_bits", None):
        r.add(f"{P}/bloom/merge-differs-from-concatenation", "bit arrays differ")
    for x in {x for x, w in a_s if w > 0} | {x for x, w in b_s if w > 0}:
        if not a.contains(x):
            r.add(f"{P}/bloom/false-negative-after-merge", f"{x!r}")
            break
    fp = [x for x in PROBES if x not in members and c.contains(x)]
    r.nontrivial = bool(fp) and len(members) >= 2
    r.labels += ["bloom-fp" if fp else "bloom-nofp", "empty" if not s else "nonempty"]
    return r


# ------------------------------------------------------------------------------ Count-Min
def ex_cms(case):
    from happysimulator.sketching.count_min_sketch import CountMinSketch
    r = Result()
    s, a_s, b_s = split(case)
    mk = lambda: CountMinSketch(width=case["w"], depth=case["d"], seed=case["seed"])
    a, b, c = mk(), mk(), mk()
    for x, w in a_s: a.add(x, w)
    for x, w in b_s: b.add(x, w)
    true = Counter()
    under = None
    for i, (x, w) in enumerate(s):
        c.add(x, w)
        true[x] += w
        if i % 7 == 0 or i == len(s) - 1:
            for y in true:
                if c.estimate(y) < true[y]:
                    under = (y, c.estimate(y), true[y])
    if under:
        r.add(f"{P}/cms/underestimate", f"item {under[0]!r}: estimate {under[1]} < true {under[2]}")
    a.merge(b)
    probes = list(true) + PROBES
    diff = [x for x in probes if a.estimate(x) != c.estimate(x)]
    if diff or a.item_count != c.item_count:
        r.add(f"{P}/cms/merge-differs-from-concatenation",
              f"estimate differs on {diff[:3]!r}; item_count {a.item_count} vs {c.item_count}")
    if getattr(a, "_counters", None) != getattr(c, "_counters", None):
        r.add(f"{P}/cms/merge-differs-from-concatenation", "counter arrays differ")
    over = [x for x in true if c.estimate(x) > true[x]]
    r.nontrivial = bool(over) and len(true) >= 2
    r.labels += ["cms-collision" if over else "cms-exact"]
    return r


# ------------------------------------------------------------------------------ TopK
def ex_topk(case):
    from happysimulator.sketching.topk import TopK
    r = Result()
    s, _, _ = split(case)
    k = case["k"]
    t = TopK(k=k, seed=case["seed"])
    true = Counter()
    evicted = False
    for x, w in s:
        before = set(y for y in true if y in t)
        t.add(x, w)
        true[x] += w
        if any(y not in t for y in before):
            evicted = True
        n = sum(true.values())
        for y in PROBES[:6]:                 # queries on items that may never have been added must not disturb the sketch
            t.estimate_with_error(y)
        t.max_error()
        if t.item_count != n:
            r.add(f"{P}/topk/item-count", f"{t.item_count} != {n}")
        if t.tracked_count > k:
            r.add(f"{P}/topk/tracks-more-than-k", f"{t.tracked_count} > {k}")
        for y in true:
            if true[y] == 0:
                continue
            e = t.estimate_with_error(y)
            if y in t:
                if not (true[y] <= e.count <= true[y] + e.error):
                    r.add(f"{P}/topk/estimate-outside-reported-error",
                          f"item {y!r} true={true[y]} count={e.count} error={e.error}")
                if t.estimate(y) != e.count:
                    r.add(f"{P}/topk/estimate-inconsistent", f"{y!r}")
            else:
                if true[y] > t.max_error():
                    r.add(f"{P}/topk/untracked-item-exceeds-max-error", f"item {y!r} true={true[y]} max_error={t.max_error()}")
                if true[y] * k > n:
                    r.add(f"{P}/topk/heavy-hitter-not-tracked", f"item {y!r} true={true[y]} N={n} k={k}")
        if r.violations:
            break
    top = t.top()
    if any(top[i].count < top[i + 1].count for i in range(len(top) - 1)):
        r.add(f"{P}/topk/top-not-sorted", "")
    r.nontrivial = evicted
    r.labels += ["topk-evict" if evicted else "topk-noevict"]
    return r


# ------------------------------------------------------------------------------ HLL
def ex_hll(case):
    from happysimulator.sketching.hyperloglog import HyperLogLog
    r = Result()
    s, a_s, b_s = split(case)
    mk = lambda: HyperLogLog(precision=case["p"], seed=case["seed"])
    a, b, c = mk(), mk(), mk()
    for x, w in a_s: a.add(x, w)
    for x, w in b_s: b.add(x, w)
    for x, w in s: c.add(x, w)
    ca, cb = a.cardinality(), b.cardinality()
    a.merge(b)
    if a.cardinality() != c.cardinality():
        r.add(f"{P}/hll/merge-differs-from-concatenation", f"cardinality {a.cardinality()} vs {c.cardinality()}")
    if getattr(a, "_registers", None) != getattr(c, "_registers", None):
        r.add(f"{P}/hll/merge-differs-from-concatenation", "registers differ")
    if a.cardinality() < max(ca, cb) - 0:
        # merged estimate is monotone in the registers; union cannot be smaller than a part
        r.add(f"{P}/hll/merge-shrinks", f"{a.cardinality()} < max({ca},{cb})")
    da = {x for x, w in a_s if w > 0}
    db = {x for x, w in b_s if w > 0}
    r.nontrivial = bool(da - db) and bool(db - da)
    r.labels += ["hll-two-sided" if r.nontrivial else "hll-one-sided"]
    return r


# ------------------------------------------------------------------------------ t-digest
def td_strategy(tier):
    big = tier == "thorough"
    val = st.one_of(
        st.floats(-100, 100, allow_nan=False),
        st.integers(0, 3).map(float),
        st.floats(0, 1e-3, allow_nan=False),
        st.floats(-1e9, 1e9, allow_nan=False, allow_infinity=False),
    )
    return st.fixed_dictionaries({
        "vals": st.lists(st.tuples(val, st.sampled_from([1, 1, 1, 3])), min_size=1, max_size=400 if big else 150),
        "compression": st.sampled_from([5, 10, 20, 100, 200]) | st.floats(1.0, 50.0),
        "qs": st.lists(st.floats(0, 1), max_size=30),
        "interleave": st.booleans(),
        "cut": st.integers(0, 400),                 # split point for the merged-halves variant
        "more": st.lists(val, max_size=4),          # added to the merged digest afterwards
    })


def _td_claims(r, tag, td, vals, qs):
    """The stated t-digest claims for a digest that has seen exactly `vals`."""
    qv = [td.quantile(q) for q in qs]
    lo, hi = min(vals), max(vals)
    for (q1, x), (q2, y) in zip(zip(qs, qv), zip(qs[1:], qv[1:])):
        if x > y + 1e-9 * max(1.0, abs(x), abs(y)):
            r.add(f"{P}/tdigest/{tag}quantile-not-monotone", f"q({q1})={x} > q({q2})={y}")
            break
    tol = 1e-9 * max(1.0, abs(lo), abs(hi))
    for q, v in zip(qs, qv):
        if v < lo - tol or v > hi + tol:
            r.add(f"{P}/tdigest/{tag}quantile-outside-min-max", f"q({q})={v} not in [{lo},{hi}]")
            break
    if td.min != lo or td.max != hi:
        r.add(f"{P}/tdigest/{tag}min-max", f"{td.min},{td.max} vs {lo},{hi}")
    if td.item_count != len(vals):
        r.add(f"{P}/tdigest/{tag}item-count", f"{td.item_count} != {len(vals)}")


def ex_td(case):
    from happysimulator.sketching.tdigest import TDigest
    r = Result()
    td = TDigest(compression=case["compression"])
    vals = []
    for i, (v, w) in enumerate(case["vals"]):
        td.add(v, w)
        vals += [v] * w
        if case["interleave"] and i % 17 == 5:
            td.quantile(0.5)
    qs = sorted(set([0.0, 1.0, 0.5, 0.001, 0.999] + [q for q in case["qs"]]))
    qv = [td.quantile(q) for q in qs]
    lo, hi = min(vals), max(vals)
    for (q1, x), (q2, y) in zip(zip(qs, qv), zip(qs[1:], qv[1:])):
        if x > y + 1e-9 * max(1.0, abs(x), abs(y)):
            r.add(f"{P}/tdigest/quantile-not-monotone", f"q({q1})={x} > q({q2})={y}")
            break
    tol = 1e-9 * max(1.0, abs(lo), abs(hi))
    for q, v in zip(qs, qv):
        if v < lo - tol or v > hi + tol:
            r.add(f"{P}/tdigest/quantile-outside-min-max", f"q({q})={v} not in [{lo},{hi}]")
            break
    if td.min != lo or td.max != hi:
        r.add(f"{P}/tdigest/min-max", f"{td.min},{td.max} vs {lo},{hi}")
    if td.item_count != len(vals):
        r.add(f"{P}/tdigest/item-count", f"{td.item_count} != {len(vals)}")
    # merged halves (every split point, either half possibly empty), then the stream continues on the merged digest
    pairs = case["vals"]
    cut = case.get("cut", 0) % (len(pairs) + 1)
    ta, tb = TDigest(compression=case["compression"]), TDigest(compression=case["compression"])
    for v, w in pairs[:cut]:
        ta.add(v, w)
    for v, w in pairs[cut:]:
        tb.add(v, w)
    ta.merge(tb)
    _td_claims(r, "merged-", ta, vals, qs)
    if case.get("more") and not r.violations:
        more = list(vals)
        for v in case["more"]:
            ta.add(v)
            more.append(v)
        _td_claims(r, "merged-then-added-", ta, more, qs)
    r.nontrivial = len(vals) > 2 * td.centroid_count or len(set(vals)) >= 5
    r.labels += ["td-compressed" if len(vals) > td.centroid_count else "td-exact",
                 "td-merge:" + ("empty-half" if cut in (0, len(pairs)) else "two-halves")]
    return r


# ------------------------------------------------------------------------------ equal-but-different items in long streams
ALIASES = [(0.0, -0.0), (1, 1.0), (1, True), (0, False), (2.0, 2), ((1, "g"), (1.0, "g")), ((0, "x"), (False, "x")), (True, 1.0)]


def alias_strategy(tier):
    return st.fixed_dictionaries({
        "pair": st.integers(0, len(ALIASES) - 1), "swap": st.booleans(),
        "n": st.integers(1, 20), "m": st.integers(0, 3),
        "fill": st.sampled_from([0, 5, 100, 300, 300, 700] + ([3000] if tier == "thorough" else [])),
        "fillkind": st.sampled_from(["int", "str", "tuple"]),
        "w": st.sampled_from([1024, 4096]), "d": st.sampled_from([2, 4]), "seed": st.sampled_from([None, 0, 7]),
        "again": st.booleans(),
    })


def ex_alias(case):
    """Items that compare equal but print differently (0.0 / -0.0, 1 / 1.0 / True, tuples of those), separated by a long run of
    other keys.  Whichever notion of identity the sketch uses, an item inserted n times is present (Bloom) and is estimated at
    >= n (Count-Min); the oracle counts by (type-exact) repr, the weaker of the two readings."""
    from happysimulator.sketching.bloom_filter import BloomFilter
    from happysimulator.sketching.count_min_sketch import CountMinSketch
    r = Result()
    a, b = ALIASES[case["pair"] % len(ALIASES)]
    if case["swap"]:
        a, b = b, a
    n, m, k = max(1, case["n"]), case["m"], case["fill"]
    fk = case["fillkind"]
    fillers = [(10_000 + i) if fk == "int" else (f"f{i}" if fk == "str" else (i, "f")) for i in range(k)]
    stream = [a] * n + fillers + [b] * m + (fillers[: k // 2] if case["again"] else [])
    cms = CountMinSketch(width=case["w"], depth=case["d"], seed=case["seed"])
    bf = BloomFilter(size_bits=1 << 16, num_hashes=3, seed=case["seed"])
    true = Counter()
    for x in stream:
        cms.add(x)
        bf.add(x)
        true[repr(x)] += 1
    for x in (a, b):
        want = true[repr(x)]
        if cms.estimate(x) < want:
            r.add(f"{P}/alias/cms-underestimate", f"{x!r} was added {want} times (stream: {n} x {a!r}, {k} other keys, {m} x {b!r}), "
                                                  f"estimate {cms.estimate(x)}")
        if want and not bf.contains(x):
            r.add(f"{P}/alias/bloom-false-negative", f"{x!r} was added {want} times, contains() is False")
    # merge of the two halves around the fillers = sketch of the whole stream
    h1, h2 = CountMinSketch(width=case["w"], depth=case["d"], seed=case["seed"]), CountMinSketch(width=case["w"], depth=case["d"], seed=case["seed"])
    cut = n + k // 2
    for x in stream[:cut]:
        h1.add(x)
    for x in stream[cut:]:
        h2.add(x)
    h1.merge(h2)
    if getattr(h1, "_counters", None) != getattr(cms, "_counters", None) or any(h1.estimate(x) != cms.estimate(x) for x in (a, b)):
        r.add(f"{P}/alias/cms-merge-differs-from-concatenation", f"{n} x {a!r}, {k} other keys, {m} x {b!r}")
    r.nontrivial = k >= 100 and m >= 1
    r.labels += [f"alias-fill:{k}", "alias-both" if m else "alias-one"]
    return r


# ------------------------------------------------------------------------------ reservoir
def ex_res(case):
    from happysimulator.sketching.reservoir import ReservoirSampler
    r = Result()
    s, _, _ = split(case)
    k = case["k"]
    rs = ReservoirSampler(size=k, seed=case["seed"])
    n = 0
    seen = Counter()
    for x, w in s:
        rs.add(x, w)
        n += w
        seen[x] += w
        smp = rs.sample()
        if len(smp) != min(k, n) or len(rs) != min(k, n):
            r.add(f"{P}/reservoir/size", f"len={len(smp)} expected min({k},{n})")
            break
        if not (Counter(smp) <= seen):
            r.add(f"{P}/reservoir/item-not-from-stream", f"{smp!r}")
            break
    if rs.item_count != n:
        r.add(f"{P}/reservoir/item-count", f"{rs.item_count} != {n}")
    # merged reservoirs are reservoirs too: min(k, n) items of the combined stream (n = both totals), and they keep the size
    # invariant when the stream continues afterwards.  (Only size and membership: whether a merged sample may repeat an element
    # is not something the property states.)
    _, a, b = split(case)
    ra, rb = ReservoirSampler(size=k, seed=case["seed"]), ReservoirSampler(size=k, seed=case["seed"])
    for x, w in a:
        ra.add(x, w)
    for x, w in b:
        rb.add(x, w)
    na, nb = sum(w for _, w in a), sum(w for _, w in b)
    before_b = list(rb.sample())
    ra.merge(rb)
    smp = ra.sample()
    universe = {x for x, w in s if w}
    if len(smp) != min(k, na + nb) or len(ra) != min(k, na + nb):
        r.add(f"{P}/reservoir/merged-size", f"merge of reservoirs over {na} and {nb} items (k={k}) holds {len(smp)}, expected {min(k, na + nb)}")
    elif not set(smp) <= universe:
        r.add(f"{P}/reservoir/merged-item-not-from-stream", f"{smp!r}")
    if ra.item_count != na + nb:
        r.add(f"{P}/reservoir/merged-item-count", f"{ra.item_count} != {na + nb}")
    if rb.sample() != before_b or rb.item_count != nb:
        r.add(f"{P}/reservoir/merge-operand-changed", f"{before_b!r} -> {rb.sample()!r}")
    if not r.violations:
        m = na + nb
        for x, w in a[:4]:
            ra.add(x, w)
            m += w
            if len(ra.sample()) != min(k, m):
                r.add(f"{P}/reservoir/size-after-merge-and-add", f"len={len(ra.sample())} expected min({k},{m})")
                break
    part = "both-underfull" if max(na, nb) < k else ("one-underfull" if min(na, nb) < k else "both-full")
    r.nontrivial = n > k
    r.labels += ["res-overflow" if n > k else "res-underfull", "res-merge:" + part]
    return r


# ------------------------------------------------------------------------------ Merkle
def merkle_strategy(tier):
    keys = st.sampled_from([f"k{i}" for i in range(9)] + ["a0", "zz", "", "k10"])
    val = st.integers(0, 2) | st.sampled_from(["x", "y"]) | st.none()      # values are Any: None (e.g. a tombstone marker) is a value like any other
    m = st.dictionaries(keys, val, max_size=9)
    edits = st.lists(st.tuples(st.sampled_from(["set", "delA", "delB", "addB"]), keys, val), max_size=4)
    return st.fixed_dictionaries({"A": m, "edits": edits, "incremental": st.booleans()})


def ex_merkle(case):
    from happysimulator.sketching.merkle_tree import MerkleTree
    r = Result()
    A = dict(case["A"])
    B = dict(A)
    for op, k, v in case["edits"]:
        if op == "set" or op == "addB":
            B[k] = v
        elif op == "delB":
            B.pop(k, None)
        else:
            A.pop(k, None)
    ta = MerkleTree.build(A)
    if case["incremental"]:
        tb = MerkleTree.build(case["A"])
        for k in list(case["A"]):
            if k not in B:
                tb.remove(k)
        for k, v in B.items():
            tb.update(k, v)
    else:
        tb = MerkleTree.build(B)
    for t1, t2, m1, m2, tag in ((ta, tb, A, B, "ab"), (tb, ta, B, A, "ba")):
        d = t1.diff(t2)
        if (d == []) != (m1 == m2):
            r.add(f"{P}/merkle/diff-empty-iff-equal", f"{tag}: diff={d!r} A={m1} B={m2}")
        for k in set(m1) | set(m2):
            if m1.get(k, "<absent>") != m2.get(k, "<absent>"):
                if not any(rg.contains(k) for rg in d):
                    r.add(f"{P}/merkle/differing-key-not-covered", f"{tag}: key {k!r} diff={d!r} A={m1} B={m2}")
    if (ta.root_hash == tb.root_hash) != (A == B):
        r.add(f"{P}/merkle/root-hash-iff-equal", f"A={A} B={B}")
    r.nontrivial = A != B and len(A) != len(B) and len(A) >= 2
    r.labels += ["mk-equal" if A == B else ("mk-diffsize" if len(A) != len(B) else "mk-samesize")]
    return r


# ------------------------------------------------------------------------------ collectors
def ex_collect(case):
    """Feed the stream through the collector entities in a real Simulation and compare with the
    sketch driven directly."""
    from happysimulator import Event, Instant, Simulation
    from happysimulator.components.sketching import QuantileEstimator, SketchCollector, TopKCollector
    from happysimulator.sketching.count_min_sketch import CountMinSketch
    from happysimulator.sketching.topk import TopK
    r = Result()
    s, _, _ = split(case)
    s = [(x, w) for x, w in s if w > 0]
    cms = CountMinSketch(width=case["w"], depth=case["d"], seed=case["seed"])
    col = SketchCollector("cms", cms, value_extractor=lambda e: e.context["item"],
                          weight_extractor=lambda e: e.context["w"])
    tk = TopKCollector("tk", k=case["k"], value_extractor=lambda e: e.context["item"],
                       count_extractor=lambda e: e.context["w"])
    sim = Simulation(entities=[col, tk], end_time=Instant.from_seconds(10_000))
    for i, (x, w) in enumerate(s):
        for tgt in (col, tk):
            sim.schedule(Event(time=Instant.from_seconds(i // 3), event_type="Item", target=tgt,
                               context={"item": x, "w": w}))
    sim.run()
    ref_c = CountMinSketch(width=case["w"], depth=case["d"], seed=case["seed"])
    ref_t = TopK(k=case["k"])
    true = Counter()
    for x, w in s:
        ref_c.add(x, w); ref_t.add(x, w); true[x] += w
    if col.events_processed != len(s) or tk.events_processed != len(s):
        r.add(f"{P}/collector/events-processed", f"{col.events_processed},{tk.events_processed} != {len(s)}")
    for y in true:
        if cms.estimate(y) != ref_c.estimate(y) or cms.estimate(y) < true[y]:
            r.add(f"{P}/collector/cms-disagrees", f"{y!r}")
            break
    if [(e.item, e.count, e.error) for e in tk.top()] != [(e.item, e.count, e.error) for e in ref_t.top()]:
        r.add(f"{P}/collector/topk-disagrees", "")
    if tk.total_count != sum(true.values()):
        r.add(f"{P}/collector/topk-total", "")
    r.nontrivial = len(true) > case["k"] and len(s) >= 4
    r.labels += ["col-evict" if r.nontrivial else "col-small"]
    return r


# ------------------------------------------------------------------------------ merge chains
def chain_strategy(tier):
    def mk(t):
        return st.fixed_dictionaries({
            "stream": items_strategy(t), "cuts": st.lists(st.integers(0, 200), min_size=2, max_size=3),
            "extra": items_strategy(t).map(lambda l: l[:6]), "seed": st.sampled_from([None, 0, 7]),
            "kind": st.sampled_from(["bloom", "cms", "hll"]), "order": st.sampled_from(["acc-first", "into-first", "plan", "plan"]),
            # "plan": arbitrary merge DAGs over the part sketches and one fresh sketch (index = number of parts): (dst, src) pairs
            "plan": st.lists(st.tuples(st.integers(0, 4), st.integers(0, 4)).map(list), min_size=2, max_size=5),
            "mutate": st.sampled_from(["operand", "accumulator", "clear-operand", "none"]),
        })
    return mk(tier)


def ex_chain(case):
    """merge() over a chain of 3-4 parts (empty parts and an empty accumulator included), then a later mutation of one side:
    the accumulator must equal the sketch of the concatenation of what was merged into it, and every operand must still equal
    the sketch of its own part (a merge result is a value: it may not share state with its inputs)."""
    from happysimulator.sketching.bloom_filter import BloomFilter
    from happysimulator.sketching.count_min_sketch import CountMinSketch
    from happysimulator.sketching.hyperloglog import HyperLogLog
    r = Result()
    kind = case["kind"]
    if kind == "bloom":
        mk = lambda: BloomFilter(size_bits=16, num_hashes=2, seed=case["seed"])
        obs = lambda sk, pr: (tuple(sk.contains(x) for x in pr), getattr(sk, "_bits", None) and list(getattr(sk, "_bits")))
    elif kind == "cms":
        mk = lambda: CountMinSketch(width=4, depth=2, seed=case["seed"])
        obs = lambda sk, pr: (tuple(sk.estimate(x) for x in pr), sk.item_count, [list(row) for row in getattr(sk, "_counters", [])])
    else:
        mk = lambda: HyperLogLog(precision=4, seed=case["seed"])
        obs = lambda sk, pr: (sk.cardinality(), list(getattr(sk, "_registers", []) or []))
    s = [(item(x), w) for x, w in case["stream"]]
    extra = [(item(x), max(1, w)) for x, w in case["extra"]]
    cuts = sorted(c % (len(s) + 1) for c in case["cuts"])
    parts = [s[a:b] for a, b in zip([0] + cuts, cuts + [len(s)])]
    probes = [x for x, _ in s] + [x for x, _ in extra] + PROBES

    def build(items):
        sk = mk()
        for x, w in items:
            sk.add(x, w)
        return sk
    ops = [build(p_) for p_ in parts]
    if case["order"] == "plan":
        return _chain_plan(case, r, kind, mk, obs, build, parts, ops, extra, probes)
    if case["order"] == "acc-first":
        acc, merged = mk(), list(range(len(parts)))          # fresh (empty) accumulator, everything merged into it
    else:
        acc, merged = ops[0], list(range(1, len(parts)))      # first operand is the accumulator
    for i in merged:
        acc.merge(ops[i])
    want_acc = [it for i in ([] if case["order"] == "acc-first" else [0]) + merged for it in parts[i]]
    mut = case["mutate"]
    victim = merged[0] if merged else None
    want_parts = {i: list(parts[i]) for i in merged}
    if mut == "operand" and victim is not None:
        for x, w in extra:
            ops[victim].add(x, w)
        want_parts[victim] = want_parts[victim] + extra
    elif mut == "accumulator":
        for x, w in extra:
            acc.add(x, w)
        want_acc = want_acc + extra
    elif mut == "clear-operand" and victim is not None and hasattr(ops[victim], "clear"):
        ops[victim].clear()
        want_parts[victim] = []
    if obs(acc, probes) != obs(build(want_acc), probes):
        r.add(f"{P}/chain/{kind}/merge-chain-differs-from-concatenation",
              f"order={case['order']} mutate={mut} parts={[len(p_) for p_ in parts]}")
    for i in merged:
        if obs(ops[i], probes) != obs(build(want_parts[i]), probes):
            r.add(f"{P}/chain/{kind}/merge-operand-changed", f"operand {i} no longer equals the sketch of its own stream "
                                                           f"(order={case['order']} mutate={mut} parts={[len(p_) for p_ in parts]})")
            break
    empties = sum(1 for p_ in parts if not p_)
    r.nontrivial = len(s) >= 3 and mut != "none"
    r.labels += [kind, "order:" + case["order"], "mutate:" + mut] + (["has-empty-part"] if empties else [])
    return r


def _chain_plan(case, r, kind, mk, obs, build, parts, ops, extra, probes):
    """Arbitrary merge plans: sketches that were themselves produced by merges are merged onwards (chains, trees, diamonds).
    Model: the content of a sketch is the concatenation of what was added to it and merged into it."""
    sk = list(ops) + [mk()]
    content = [list(p_) for p_ in parts] + [[]]
    n = len(sk)
    steps = []
    for d, s_ in case.get("plan", []):
        d, s_ = d % n, s_ % n
        if d == s_ or len(content[d]) + len(content[s_]) > 400:
            continue
        sk[d].merge(sk[s_])
        content[d] = content[d] + content[s_]
        steps.append((d, s_))
    mut = case["mutate"]
    if steps and mut in ("operand", "accumulator"):
        v = steps[0][1] if mut == "operand" else steps[-1][0]
        for x, w in extra:
            sk[v].add(x, w)
        content[v] = content[v] + extra
    elif steps and mut == "clear-operand" and hasattr(sk[steps[0][1]], "clear"):
        sk[steps[0][1]].clear()
        content[steps[0][1]] = []
    for i in range(n):
        if obs(sk[i], probes) != obs(build(content[i]), probes):
            r.add(f"{P}/chain/{kind}/merge-plan-differs-from-concatenation",
                  f"sketch {i} after merge steps {steps} (mutate={mut}, parts={[len(p_) for p_ in parts]}) differs from the sketch of its {len(content[i])} items")
            break
    onward = any(s_ in {d for d, _ in steps[:j]} for j, (_, s_) in enumerate(steps))
    r.nontrivial = len(steps) >= 2 and sum(len(p_) for p_ in parts) >= 3
    r.labels += [kind, "order:plan", "mutate:" + mut] + (["merged-sketch-merged-onwards"] if onward else [])
    return r


OBLIGATIONS = [
    Obligation("bloom", stream_case({"bits": st.sampled_from([1, 8, 16, 64, 65, 200]), "nh": st.sampled_from([None, 1, 2, 3])}),
               ex_bloom, {"quick": 1200, "thorough": 60000},
               "random item streams (str/int/tuple, weights incl. 0) split at a generated cut into two filters of identical tiny dimensions; non-trivial = a false positive exists for a probe that was never inserted (collisions occur) and >=2 members"),
    Obligation("cms", stream_case({"w": st.sampled_from([1, 2, 4, 8, 50]), "d": st.sampled_from([1, 2, 3, 4])}),
               ex_cms, {"quick": 1200, "thorough": 60000},
               "weighted streams into tiny Count-Min sketches; non-trivial = at least one item is over-estimated (a collision happened) with >=2 distinct items"),
    Obligation("topk", stream_case({"k": st.integers(1, 5)}),
               ex_topk, {"quick": 1200, "thorough": 60000},
               "weighted streams into TopK(k<=5), all clauses re-checked after every add; non-trivial = an eviction happened"),
    Obligation("hll", stream_case({"p": st.sampled_from([4, 5, 6, 10])}, mixed=True),
               ex_hll, {"quick": 800, "thorough": 40000},
               "streams (incl. items that compare equal but are distinct items: 1 / True / 1.0) split into two HyperLogLogs; non-trivial = both halves contain items the other lacks"),
    Obligation("tdigest", td_strategy, ex_td, {"quick": 800, "thorough": 40000},
               "finite float multisets (mixed magnitudes, repeated values, weights) with compression 1..200 and generated query points plus 0, 1; non-trivial = centroids were merged or >=5 distinct values"),
    Obligation("alias", alias_strategy, ex_alias, {"quick": 400, "thorough": 8000},
               "items that compare equal but print differently, with >= 100 other keys in between and both spellings inserted"),
    Obligation("reservoir", stream_case({"k": st.sampled_from([1, 2, 3, 10])}),
               ex_res, {"quick": 800, "thorough": 40000},
               "streams into ReservoirSampler(k), checked after every add; non-trivial = stream longer than k"),
    Obligation("chain", chain_strategy, ex_chain, {"quick": 1500, "thorough": 60000},
               "Bloom / Count-Min / HyperLogLog: a stream cut into 3-4 parts (empty parts included) merged in a chain into a fresh empty "
               "accumulator or into the first part, followed by a mutation of an operand, of the accumulator, or clear() of an operand; the "
               "accumulator must equal the sketch of the concatenation and every operand the sketch of its own part (no shared state); "
               "non-trivial = stream of >= 3 items and a mutation after the merges"),
    Obligation("merkle", merkle_strategy, ex_merkle, {"quick": 2500, "thorough": 120000},
               "pairs of small str->value maps derived from one another by generated edits (equal, disjoint sizes, one empty), built in bulk or incrementally, diff in both directions; non-trivial = maps differ and have different sizes"),
    Obligation("collectors", stream_case({"w": st.sampled_from([2, 8]), "d": st.sampled_from([1, 3]), "k": st.integers(1, 4)}),
               ex_collect, {"quick": 400, "thorough": 15000},
               "the same streams delivered as events to SketchCollector/TopKCollector inside a Simulation, compared with the sketch driven directly; non-trivial = more distinct items than k"),
]
